package c04

import (
	"fmt"
	"io"
	"log"
	"os"
	"sync"
	"testing"
	"time"

	tcpip "github.com/brewlin/net-protocol/protocol"
	"github.com/brewlin/net-protocol/protocol/network/ipv4"
	"github.com/brewlin/net-protocol/protocol/network/ipv6"
	"github.com/brewlin/net-protocol/protocol/transport/tcp"
	"verifh/fw"
	"verifh/rawpeer"
	"verifh/rfc"
	"verifh/tcpx"
	"verifh/vt"
)

var run *fw.Run

type cfg struct {
	K       int    `json:"k"`
	V6      bool   `json:"v6"`
	Active  bool   `json:"active"`
	MTU     uint32 `json:"mtu"`
	MSS     uint16 `json:"peer_mss"`
	WS      int    `json:"peer_ws"`
	TS      bool   `json:"ts"`
	SACK    bool   `json:"sack"`
	Window  uint16 `json:"syn_window"`
	RcvBuf  int    `json:"rcvbuf"`
	PeerISS uint32 `json:"peer_iss"`
	OwnISS  uint32 `json:"own_iss"`
	Steps   int    `json:"steps"`
	Trailer []byte `json:"trailer,omitempty"` // bytes behind the peer's SYN options (end-of-option-list + stale bytes)
	Cookie  bool   `json:"cookie"` // passive open answered with a SYN cookie (listener under pressure)
}

func genCfg(seed int64, k int) cfg {
	r := fw.NewRand(seed, "C04", "cfg", k)
	c := cfg{K: k, V6: r.Chance(1, 4), Active: r.Chance(1, 3), TS: r.Bool(), SACK: r.Bool()}
	c.MTU = []uint32{1500, 1500, 576, 9000, 65535, 1280, 296, 68 + 40}[r.Intn(8)]
	if c.V6 && c.MTU < 1280 {
		c.MTU = 1280
	}
	c.MSS = []uint16{0, 1, 88, 536, 1000, 1460, 1460, 8960, 65535, uint16(1 + r.Intn(3000))}[r.Intn(10)]
	c.WS = []int{-1, -1, 0, 1, 2, 7, 14, 15}[r.Intn(8)]
	c.Window = []uint16{0, 1, 87, 535, 1000, 4096, 30000, 65535, uint16(r.U32())}[r.Intn(9)]
	c.RcvBuf = []int{0, 4096, 8192, 30000, 70000, 131072, 300000}[r.Intn(7)] // the larger ones make the stack scale its own window
	pool := []uint32{0, 1, 1<<31 - 5, 1 << 31, 1<<32 - 5, 1<<32 - 1}
	c.PeerISS, c.OwnISS = r.U32(), r.U32()
	// distances to the wrap / sign change from "inside the first segment" to "several receive
	// windows away": the edge of a window crosses the boundary at a different moment in each
	spans := []int{3000, 20000, 150000, 700000}
	if r.Bool() {
		c.PeerISS = pool[r.Intn(len(pool))] - uint32(r.Intn(spans[r.Intn(len(spans))]))
	}
	if r.Bool() {
		c.OwnISS = pool[r.Intn(len(pool))] - uint32(r.Intn(spans[r.Intn(len(spans))]))
	}
	c.Steps = 10 + r.Intn(40)
	if r.Chance(1, 6) {
		// the peer ends its option list explicitly and leaves stale bytes behind the
		// end-of-option-list byte (what follows EOL is padding, whatever it looks like)
		c.Trailer = [][]byte{{0, 2, 4, 5, 0xb4, 0, 0, 0}, {0, 3, 3, 7}, {0, 2, 4, 0xff, 0xff, 3, 3, 14}, {0, 8, 10, 1, 2, 3, 4, 0, 0, 0, 0, 0}}[r.Intn(4)]
	}
	// last draw, so that the other fields keep their values for a given k
	if !c.Active && r.Chance(1, 5) {
		c.Cookie = true
		// peer MSS values between and on the entries of the cookie MSS table
		c.MSS = []uint16{536, 537, 1000, 1299, 1300, 1301, 1400, 1439, 1440, 1441, 1452, 1459, 1460, 1461, 9000, uint16(537 + r.Intn(1000)), uint16(1 + r.Intn(535)), 0}[r.Intn(18)]
	}
	return c
}

func pbyte(seed int64, i int64) byte {
	return tcpx.PByte(uint64(seed), 0, i)
}

// one scripted scenario: send side and receive side interleaved
func scenario(c cfg) {
	r := fw.NewRand(int64(c.K), "C04", "run")
	h, err := rawpeer.NewHost(c.MTU, c.SACK, "reno")
	if err != nil {
		run.Broken("harness: " + err.Error())
		return
	}
	p := rawpeer.New(h, c.V6)
	own := c.OwnISS
	tcp.SynRcvdCountThreshold = 1000
	if c.Cookie {
		tcp.SynRcvdCountThreshold = 0
	}
	conn, emsg := p.Establish(rawpeer.EstOpts{Active: c.Active, LPort: 80, PPort: uint16(20000 + c.K%20000), PeerISS: c.PeerISS, OwnISS: &own, MSS: c.MSS, WS: c.WS, TS: c.TS, SACK: c.SACK, Window: c.Window, RcvBuf: c.RcvBuf, Trailer: c.Trailer})
	if conn == nil {
		if len(emsg) > 8 && emsg[:8] == "harness:" {
			run.Broken(emsg)
		} else {
			run.Count("handshake_not_completed:"+emsg, 1)
		}
		return
	}
	defer conn.Close()
	var trace []string
	tr := func(f string, a ...interface{}) {
		if len(trace) < 400 {
			trace = append(trace, fmt.Sprintf(f, a...))
		}
	}
	bad := false
	viol := func(key, what string) {
		if !bad {
			run.Violation("C04/"+key, what, map[string]interface{}{"cfg": c, "conn": conn.String(), "trace": trace})
		}
		bad = true
	}
	shift := uint(0)
	if conn.WSok {
		shift = uint(conn.PeerWS)
	}
	ownShift := uint(0)
	if conn.WSok {
		ownShift = uint(conn.OwnWS)
	}
	// ---- send-side state: what the peer has offered so far
	// the SYN/SYN-ACK window is never scaled; the handshake ACK (passive case) is
	maxEdge := int64(c.Window)
	if !c.Active {
		if e := int64(c.Window) << shift; e > maxEdge {
			maxEdge = e
		}
	}
	hdr := 20
	if c.V6 {
		hdr = 40
	}
	var written int64 // bytes accepted by Write
	var peerGot int64 // contiguous bytes the peer has received (relative)
	var peerAcked int64
	lastWnd := c.Window
	oldAcks := [][2]int64{} // (ack, window field) pairs sent earlier, for stale re-sends
	// ---- receive-side state
	var peerSent int64 // next in-order byte the peer will send
	var appRead int64  // bytes the application has read
	var maxAdvEdge int64 = -1
	reading := true
	var ooo [][2]int64 // out-of-order pieces the stack holds
	absorb := func() {
		for changed := true; changed; {
			changed = false
			for i, iv := range ooo {
				if iv[0] <= peerSent {
					if iv[1] > peerSent {
						peerSent = iv[1]
					}
					ooo = append(ooo[:i], ooo[i+1:]...)
					changed = true
					break
				}
			}
		}
	}
	pathMTU := 0 // smallest next-hop MTU an ICMP error has reported for this connection
	// the edge the peer offers NOW: that of its latest segment whose acknowledgement number is
	// not older than an earlier one (everything is delivered in order and processed before the
	// next step, so the stack has seen it). Bytes the stack has never transmitted before must
	// stay within it; earlier transmissions are only held to the largest edge ever offered.
	curEdge, curExact := int64(0), false
	var maxAckSent, maxSentEnd int64
	checkEmitted := func(segs []rawpeer.Seg, ctx string) {
		for _, s := range segs {
			if s.Err != nil {
				viol("frame", fmt.Sprintf("undecodable frame: %v", s.Err))
				return
			}
			if s.Has(rfc.RST) {
				tr("stack sent RST (%s)", ctx)
				bad = true // connection over; not a C04 matter
				return
			}
			n := int64(len(s.Payload))
			rel := conn.RelSeq(s, peerGot)
			if n > 0 {
				end := rel + n
				if end > maxEdge {
					viol("send/beyond-right-edge", fmt.Sprintf("%s: data segment covers stream bytes [%d,%d) but the largest right edge the peer ever offered is %d (window scale shift %d)", ctx, rel, end, maxEdge, shift))
					return
				}
				if curExact && end > maxSentEnd && end > curEdge {
					viol("send/new-data-beyond-current-right-edge", fmt.Sprintf("%s: first transmission of stream bytes [%d,%d) although the peer's latest segment offers the right edge %d (it offered up to %d earlier and took that back)", ctx, rel, end, curEdge, maxEdge))
					return
				}
				if end > maxSentEnd {
					maxSentEnd = end
				}
				if int(n) > conn.PeerMSS {
					key := "send/exceeds-peer-mss"
					if c.Cookie && conn.PeerMSS < 536 && n <= 536 {
						// the specific failing input: a SYN cookie can only encode the MSS table
						// entries 536/1300/1440/1460, anything below 536 is rounded UP to 536
						key = "send/cookie-mode-peer-mss-below-536-rounded-up"
					}
					viol(key, fmt.Sprintf("%s: segment carries %d bytes, the peer announced MSS %d", ctx, n, conn.PeerMSS))
					return
				}
				if s.IPLen > int(c.MTU) {
					viol("send/exceeds-mtu", fmt.Sprintf("%s: packet of %d bytes on a link with MTU %d", ctx, s.IPLen, c.MTU))
					return
				}
				if pathMTU > 0 && s.IPLen > pathMTU {
					viol("send/exceeds-path-mtu", fmt.Sprintf("%s: packet of %d bytes (stream bytes [%d,%d)) after the path reported a next-hop MTU of %d", ctx, s.IPLen, rel, end, pathMTU))
					return
				}
				_ = hdr
				for i, b := range s.Payload {
					if b != pbyte(int64(c.K), rel+int64(i)) {
						viol("send/content", fmt.Sprintf("%s: byte at stream offset %d differs from what was written", ctx, rel+int64(i)))
						return
					}
				}
				if rel <= peerGot && end > peerGot {
					peerGot = end
				}
				run.Count("data_segments_checked", 1)
			}
			// receive side: the advertised right edge never moves left
			ackRel := conn.RelAck(s, peerSent)
			edge := ackRel + int64(s.Window)<<ownShift
			if s.Has(rfc.SYN) {
				edge = ackRel + int64(s.Window)
			}
			if edge < maxAdvEdge && maxAdvEdge-edge < 1<<ownShift && ownShift > 0 {
				// the specific failing input: window scaling in use and the next expected byte
				// not aligned to 2^shift; the window field is truncated, not rounded up
				viol("recv/right-edge-retreats-within-one-scale-unit", fmt.Sprintf("%s: advertised right edge %d (ack %d + window %d<<%d) is %d bytes left of the edge %d advertised before (window field truncated to the scale unit)", ctx, edge, ackRel, s.Window, ownShift, maxAdvEdge-edge, maxAdvEdge))
				bad = false // keep monitoring this connection for other violations
				continue
			}
			if edge < maxAdvEdge {
				viol("recv/right-edge-moved-left", fmt.Sprintf("%s: advertised right edge %d (ack %d + window %d<<%d) is left of the edge %d advertised before", ctx, edge, ackRel, s.Window, ownShift, maxAdvEdge))
				return
			}
			if edge > maxAdvEdge {
				maxAdvEdge = edge
			}
			run.Count("advertisements_checked", 1)
		}
	}
	// every peer segment with the ACK flag advertises a window: keep the largest edge
	psend := func(relSeq, relAck int64, flags uint8, wnd uint16, payload []byte) {
		conn.Send(relSeq, relAck, flags, wnd, payload, nil)
		if e := relAck + int64(wnd)<<shift; flags&rfc.ACK != 0 && e > maxEdge {
			maxEdge = e
		}
		if flags&rfc.ACK != 0 && relAck >= maxAckSent {
			maxAckSent, curEdge, curExact = relAck, relAck+int64(wnd)<<shift, true
		}
	}
	sendAck := func(ack int64, wnd uint16, note string) {
		psend(peerSent, ack, rfc.ACK, wnd, nil)
		tr("peer ACK ack=%d wnd=%d (%s) edge=%d", ack, wnd, note, maxEdge)
	}
	readAll := func() {
		for {
			v, _, e := conn.EP.Read(nil)
			if e != nil {
				return
			}
			for i, b := range v {
				off := appRead + int64(i)
				if b != tcpx.PByte(uint64(c.K), 1, off) {
					viol("recv/content", fmt.Sprintf("Read returned byte %#x at stream offset %d; the peer sent %#x there (a byte from outside the advertised window carries the marker 0xEE)", b, off, tcpx.PByte(uint64(c.K), 1, off)))
					return
				}
			}
			appRead += int64(len(v))
		}
	}
	bulkLeft := 0
	windows := []uint16{0, 0, 1, uint16(conn.PeerMSS - 1), uint16(conn.PeerMSS), 1000, 4000, 20000, 65535}
	for step := 0; step < c.Steps && !bad; step++ {
		op := r.Intn(14)
		if bulkLeft > 0 && reading {
			bulkLeft--
			op = 8
		}
		switch op {
		case 13: // a router on the path reports a smaller MTU (fragmentation needed / packet too big)
			if written == 0 {
				continue
			}
			m := []int{1400, 1280, 1200, 1006, 900, 576}[r.Intn(6)]
			if c.V6 && m < 1280 {
				m = 1280
			}
			if m >= int(c.MTU) || (pathMTU > 0 && m >= pathMTU) {
				continue
			}
			quoted := rfc.TCP{SrcPort: conn.LPort, DstPort: conn.PPort, Seq: conn.ISS + 1 + uint32(peerGot), Flags: rfc.ACK}
			if c.V6 {
				q := rfc.IPv6{Next: rfc.ProtoTCP, Hop: 60, Src: p.Stack6, Dst: p.Peer6, Payload: quoted.Bytes6(p.Stack6, p.Peer6, true)}.Bytes(true)
				msg := rfc.ICMP{Type: 2, Rest: [4]byte{0, 0, byte(m >> 8), byte(m)}, Payload: q}
				ip := rfc.IPv6{Next: rfc.ProtoICMPv6, Hop: 64, Src: p.Peer6, Dst: p.Stack6, Payload: msg.BytesV6(p.Peer6, p.Stack6, true)}
				h.L.Inject(ipv6.ProtocolNumber, ip.Bytes(true), "")
			} else {
				q := rfc.IPv4{TTL: 60, Proto: rfc.ProtoTCP, Src: p.Stack4, Dst: p.Peer4, Payload: quoted.Bytes4(p.Stack4, p.Peer4, true)}.Bytes(true)
				msg := rfc.ICMP{Type: 3, Code: 4, Rest: [4]byte{0, 0, byte(m >> 8), byte(m)}, Payload: q[:28]}
				ip := rfc.IPv4{TTL: 64, Proto: rfc.ProtoICMP, ID: uint16(step), Src: p.Peer4, Dst: p.Stack4, Payload: msg.BytesV4(true)}
				h.L.Inject(ipv4.ProtocolNumber, ip.Bytes(true), "")
			}
			rawpeer.Settle()
			pathMTU = m
			tr("ICMP: next-hop MTU %d", m)
			run.Count("path_mtu_decreases", 1)
			checkEmitted(conn.Take(), "after the path MTU decreased")
		case 0, 1, 2: // application write
			n := []int{1, 10, 536, 1460, 5000, 70000, 1 << 20}[r.Intn(7)]
			if written > 3<<20 {
				n = 10
			}
			buf := make([]byte, n)
			for i := range buf {
				buf[i] = pbyte(int64(c.K), written+int64(i))
			}
			got, _, e := conn.EP.Write(tcpip.SlicePayload(buf), tcpip.WriteOptions{})
			written += int64(got)
			rawpeer.Settle()
			tr("write %d -> accepted %d (%v)", n, got, e)
			checkEmitted(conn.Take(), "after Write")
		case 3, 4, 5: // peer acknowledges some of what it got, with some window
			ack := peerAcked
			if peerGot > peerAcked {
				ack = peerAcked + 1 + int64(r.Intn(int(peerGot-peerAcked)))
				if r.Bool() {
					ack = peerGot
				}
			}
			w := windows[r.Intn(len(windows))]
			if r.Chance(1, 4) {
				w = uint16(r.U32())
			}
			oldAcks = append(oldAcks, [2]int64{ack, int64(w)})
			peerAcked, lastWnd = ack, w
			sendAck(ack, w, "cumulative")
			checkEmitted(conn.Take(), "after peer ACK")
		case 6: // a stale ACK arrives again (the network reordered / duplicated it)
			if len(oldAcks) == 0 {
				continue
			}
			o := oldAcks[r.Intn(len(oldAcks))]
			psend(peerSent, o[0], rfc.ACK, uint16(o[1]), nil)
			tr("peer re-sends OLD ACK ack=%d wnd=%d (current ack %d wnd %d)", o[0], o[1], peerAcked, lastWnd)
			run.Count("stale_acks_injected", 1)
			checkEmitted(conn.Take(), "after a stale ACK")
		case 7: // time passes: retransmissions
			d := []time.Duration{250 * time.Millisecond, time.Second, 3 * time.Second}[r.Intn(3)]
			time.Sleep(d)
			rawpeer.Settle()
			tr("time +%v", d)
			checkEmitted(conn.Take(), "after a pause")
		case 8: // peer sends in-window, in-order data
			if maxAdvEdge < 0 {
				continue
			}
			room := maxAdvEdge - peerSent
			if room <= 0 && reading && !bad {
				// the application has been reading all along: nothing is unread, so a closed
				// window has no reason; give the stack the chance to announce the space
				readAll()
				rawpeer.Settle()
				checkEmitted(conn.Take(), "after reading with a closed window")
				if room = maxAdvEdge - peerSent; room <= 0 && appRead == peerSent && !bad {
					viol("recv/window-closed-although-everything-was-read", fmt.Sprintf("the application has read all %d bytes the peer sent, yet the advertised right edge stays at %d: the window is closed and never reopens", appRead, maxAdvEdge))
					continue
				}
			}
			if room <= 0 {
				// window closed: a byte beyond the edge must never be delivered
				pl := []byte{0xEE, 0xEE, 0xEE}
				psend(peerSent+int64(r.Intn(1000)), peerAcked, rfc.ACK|rfc.PSH, lastWnd, pl)
				tr("peer sends %d bytes wholly beyond the advertised edge %d", len(pl), maxAdvEdge)
				run.Count("beyond_window_segments_injected", 1)
				checkEmitted(conn.Take(), "after beyond-window data")
				if reading {
					readAll()
				}
				continue
			}
			n := int64(1 + r.Intn(1400))
			if n > room {
				n = room
			}
			pl := make([]byte, n)
			for i := range pl {
				pl[i] = tcpx.PByte(uint64(c.K), 1, peerSent+int64(i))
			}
			before := peerSent
			psend(peerSent, peerAcked, rfc.ACK|rfc.PSH, lastWnd, pl)
			peerSent += n
			absorb()
			segs := conn.Take()
			tr("peer data [%d,%d) -> %v", before, peerSent, segs)
			checkEmitted(segs, "after in-window data")
			// it must be acknowledged ...
			acked := false
			for _, s := range segs {
				if conn.RelAck(s, peerSent) >= peerSent {
					acked = true
				}
			}
			if !acked && !bad {
				time.Sleep(300 * time.Millisecond) // a delayed ACK would also do
				rawpeer.Settle()
				for _, s := range conn.Take() {
					if conn.RelAck(s, peerSent) >= peerSent {
						acked = true
					}
				}
				if !acked {
					viol("recv/in-window-data-not-accepted", fmt.Sprintf("in-order data [%d,%d) inside the advertised window (edge %d) was not acknowledged", before, peerSent, maxAdvEdge))
				}
			}
			// ... and be readable
			if reading && !bad {
				readAll()
				if appRead != peerSent && !bad {
					viol("recv/in-window-data-not-delivered", fmt.Sprintf("application has read %d bytes, the peer sent %d in order inside the window", appRead, peerSent))
				}
			}
			run.Count("in_window_segments_injected", 1)
			if bulkLeft == 0 && reading && r.Chance(1, 4) {
				bulkLeft = 20 + r.Intn(200) // a burst of in-order segments, each read at once
				step -= bulkLeft            // (not counted as steps)
			}
		case 10: // peer data wholly beyond the advertised right edge: never deliverable
			if maxAdvEdge < 0 {
				continue
			}
			at := maxAdvEdge + int64(1)<<ownShift + int64(r.Intn(3000))
			pl := make([]byte, 1+r.Intn(600))
			for i := range pl {
				pl[i] = 0xEE
			}
			psend(at, peerAcked, rfc.ACK|rfc.PSH, lastWnd, pl)
			tr("peer sends %d bytes at %d, wholly beyond the advertised edge %d", len(pl), at, maxAdvEdge)
			run.Count("beyond_window_segments_injected", 1)
			checkEmitted(conn.Take(), "after beyond-window data")
			if reading {
				readAll()
			}
		case 11: // peer data out of order inside the window (leaves a hole; SACK blocks follow)
			if maxAdvEdge < 0 || maxAdvEdge-peerSent < 200 {
				continue
			}
			gap := int64(1 + r.Intn(100))
			n := int64(1 + r.Intn(80))
			if peerSent+gap+n > maxAdvEdge {
				continue
			}
			pl := make([]byte, n)
			for i := range pl {
				pl[i] = tcpx.PByte(uint64(c.K), 1, peerSent+gap+int64(i))
			}
			psend(peerSent+gap, peerAcked, rfc.ACK|rfc.PSH, lastWnd, pl)
			ooo = append(ooo, [2]int64{peerSent + gap, peerSent + gap + n})
			tr("peer sends out-of-order data [%d,%d) (next in order is %d)", peerSent+gap, peerSent+gap+n, peerSent)
			run.Count("out_of_order_segments_injected", 1)
			checkEmitted(conn.Take(), "after out-of-order data")
		case 12: // the application changes its receive buffer size
			nb := []int{4096, 8192, 65536, 1 << 20}[r.Intn(4)]
			conn.EP.SetSockOpt(tcpip.ReceiveBufferSizeOption(nb))
			rawpeer.Settle()
			tr("receive buffer set to %d", nb)
			run.Count("receive_buffer_changes", 1)
			checkEmitted(conn.Take(), "after a receive-buffer change")
		case 9: // the application stops / resumes reading
			reading = !reading
			tr("application reading=%v", reading)
			if reading {
				wasClosed := maxAdvEdge >= 0 && maxAdvEdge-peerSent <= 0
				readAll()
				rawpeer.Settle()
				segs := conn.Take()
				checkEmitted(segs, "after the application resumed reading")
				if wasClosed && appRead == peerSent && !bad {
					if maxAdvEdge-peerSent <= 0 {
						viol("recv/window-not-reopened", fmt.Sprintf("the window was closed (edge %d = next byte); the application read everything but no window update was sent", maxAdvEdge))
					}
					run.Count("window_reopen_events", 1)
				}
			}
		}
	}
	if !reading && !bad && maxAdvEdge >= 0 {
		// drive the window shut: keep sending in-window data while the reader is stopped
		for i := 0; i < 1200 && maxAdvEdge-peerSent > 0 && !bad; i++ {
			n := int64(1400)
			if room := maxAdvEdge - peerSent; n > room {
				n = room
			}
			pl := make([]byte, n)
			for j := range pl {
				pl[j] = tcpx.PByte(uint64(c.K), 1, peerSent+int64(j))
			}
			psend(peerSent, peerAcked, rfc.ACK, lastWnd, pl)
			peerSent += n
			absorb()
			checkEmitted(conn.Take(), "filling the window")
		}
		if !bad {
			if maxAdvEdge-peerSent > 0 {
				run.Count("window_did_not_close_within_1200_segments", 1)
			} else {
				run.Count("window_close_events", 1)
				if r.Chance(1, 3) {
					// the application enlarges its receive buffer while the window is shut
					nb := []int{65536, 1 << 18, 1 << 20}[r.Intn(3)]
					conn.EP.SetSockOpt(tcpip.ReceiveBufferSizeOption(nb))
					rawpeer.Settle()
					tr("receive buffer enlarged to %d while the window is closed", nb)
					run.Count("receive_buffer_enlarged_while_window_closed", 1)
					checkEmitted(conn.Take(), "after enlarging the receive buffer of a closed window")
				}
				readAll()
				rawpeer.Settle()
				checkEmitted(conn.Take(), "after draining a closed window")
				if appRead != peerSent && !bad {
					viol("recv/in-window-data-not-delivered", fmt.Sprintf("after filling the window the application could read %d of %d bytes", appRead, peerSent))
				} else if maxAdvEdge-peerSent <= 0 && !bad {
					viol("recv/window-not-reopened", "window closed, application drained it, no window update followed")
				} else {
					run.Count("window_reopen_events", 1)
				}
			}
		}
	}
	run.Case(fw.Hash(c.V6, c.Active, c.MTU, c.MSS, c.WS, c.TS, c.SACK, c.Window, c.RcvBuf, c.PeerISS>>28, c.OwnISS>>28), written > 0 || peerSent > 0)
	if c.K < 1 {
		run.Sample(map[string]interface{}{"cfg": c, "trace_head": trace[:min(len(trace), 12)]})
	}
}

func min(a, b int) int {
	if a < b {
		return a
	}
	return b
}

func child(t *testing.T) {
	var lo, hi int
	fmt.Sscan(os.Getenv("VERIF_RANGE"), &lo, &hi)
	vt.Bubble(t, func() {
		for k := lo; k < hi && run.Violations() < 4; k++ {
			scenario(genCfg(run.Seed, k))
		}
		os.Exit(run.Finish("", nil))
	})
}

func TestC04(t *testing.T) {
	log.SetOutput(io.Discard)
	tcpx.InstallSteering()
	run = fw.Start("C04", "exploration")
	if fw.IsChild() {
		child(t)
		return
	}
	n := fw.N(1600, 60000)
	nchild := 16
	var wg sync.WaitGroup
	for c := 0; c < nchild; c++ {
		c := c
		wg.Add(1)
		go func() {
			defer wg.Done()
			tag := fmt.Sprintf("vt%d", c)
			res := run.RunChild(fw.ChildSpec{Bin: os.Getenv("VERIF_BIN_VT"), Test: "^TestC04$", Tag: tag, Env: []string{fmt.Sprintf("VERIF_RANGE=%d %d", n*c/nchild, n*(c+1)/nchild)}, Timeout: time.Duration(fw.N(10, 90)) * time.Minute})
			if !res.Done {
				run.ChildCrashed(res, "C04", tag)
			}
		}()
	}
	wg.Wait()
	code := run.Finish("scripted raw peer against one real stack in virtual time, quiescence after every step. Per scenario PRNG-chosen: IPv4/IPv6, active/passive open, MTU 108..65535, peer MSS option absent/1..65535, peer window scale absent/0..15, timestamps, SACK, SYN window 0..65535, receive buffer, both ISS incl. wrap-adjacent; then 10-50 steps of: application writes 1 byte..1 MiB, cumulative ACKs with windows {0,1,MSS-1,MSS,...,65535,random}, re-sent stale ACKs, pauses up to 3 s, in-window peer data, peer data wholly beyond the advertised edge when the window is shut, application stop/resume reading, and a final drive-the-window-shut-and-drain phase. Online monitor over every emitted segment: data never beyond the largest right edge the peer has sent so far (unwrapped 64-bit offsets), payload <= peer MSS, packet <= MTU, content = written bytes; advertised right edge never moves left; in-window in-order data is acknowledged and readable; beyond-window bytes (marker 0xEE) never readable; closed window reopens after the application drains it. distinct = configuration classes Later additions: Bytes transmitted for the first time must stay inside the edge of the peer's latest segment (a peer may take window back); a window that stays closed although everything was read is a violation; bursts of in-order segments; ISS up to 700 000 below the wraps. One connection in six ends its SYN options with end-of-option-list followed by stale option-like bytes.",
		[]string{"'sent so far' = 'processed so far' because the bubble is quiesced after every injected segment", "expected values computed from the peer's own script; decoding by the independent codec h/rfc"})
	os.Exit(code)
}
