// Package hist records client-boundary histories for porcupine.
package hist

import (
	"sync"
	"sync/atomic"
	"time"

	"github.com/anishathalye/porcupine"
)

// Recorder stamps call and return events from one logical clock (an atomic
// counter): if A's return stamp is smaller than B's call stamp then A really
// returned before B was invoked.
type Recorder struct {
	clk int64
	mu  sync.Mutex
	ops []porcupine.Operation
}

func (r *Recorder) Now() int64 { return atomic.AddInt64(&r.clk, 1) }

// Do records one completed operation. f is the real call.
func (r *Recorder) Do(client int, input interface{}, f func() interface{}) interface{} {
	c := r.Now()
	out := f()
	t := r.Now()
	r.mu.Lock()
	r.ops = append(r.ops, porcupine.Operation{ClientId: client, Input: input, Call: c, Output: out, Return: t})
	r.mu.Unlock()
	return out
}

// Open records an operation that never returned (kept open to the end).
func (r *Recorder) Add(op porcupine.Operation) {
	r.mu.Lock()
	r.ops = append(r.ops, op)
	r.mu.Unlock()
}

func (r *Recorder) Ops() []porcupine.Operation {
	r.mu.Lock()
	defer r.mu.Unlock()
	return append([]porcupine.Operation(nil), r.ops...)
}

// Check returns "ok", "illegal" or "unknown" (checker timeout => inconclusive).
func Check(m porcupine.Model, ops []porcupine.Operation, timeout time.Duration) string {
	switch porcupine.CheckOperationsTimeout(m, ops, timeout) {
	case porcupine.Ok:
		return "ok"
	case porcupine.Illegal:
		return "illegal"
	}
	return "unknown"
}

// OrderSignature summarises the call/return interleaving of a history: the
// sequence of (client, kind) events in stamp order. Distinct signatures =
// distinct observed interleavings.
func OrderSignature(ops []porcupine.Operation) string {
	type ev struct {
		t int64
		c int
		k byte
	}
	evs := make([]ev, 0, 2*len(ops))
	for _, o := range ops {
		evs = append(evs, ev{o.Call, o.ClientId, 'c'}, ev{o.Return, o.ClientId, 'r'})
	}
	// insertion sort is fine for short histories
	for i := 1; i < len(evs); i++ {
		for j := i; j > 0 && evs[j].t < evs[j-1].t; j-- {
			evs[j], evs[j-1] = evs[j-1], evs[j]
		}
	}
	b := make([]byte, 0, 2*len(evs))
	for _, e := range evs {
		b = append(b, byte('0'+e.c), e.k)
	}
	return string(b)
}

// Overlaps counts pairs of operations from different clients whose intervals overlap.
func Overlaps(ops []porcupine.Operation) int {
	n := 0
	for i := range ops {
		for j := i + 1; j < len(ops); j++ {
			if ops[i].ClientId != ops[j].ClientId && ops[i].Call < ops[j].Return && ops[j].Call < ops[i].Return {
				n++
			}
		}
	}
	return n
}
