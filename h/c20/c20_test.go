package c20

import (
	"bytes"
	"crypto/sha1"
	"encoding/base64"
	"encoding/binary"
	"fmt"
	"io"
	"log"
	"os"
	"sort"
	"strings"
	"sync"
	"testing"
	"time"

	"github.com/brewlin/net-protocol/pkg/waiter"
	tcpip "github.com/brewlin/net-protocol/protocol"
	"github.com/brewlin/net-protocol/protocol/application/http"
	"github.com/brewlin/net-protocol/protocol/application/websocket"
	"github.com/brewlin/net-protocol/protocol/network/ipv4"
	"github.com/brewlin/net-protocol/protocol/transport/tcp"
	"github.com/brewlin/net-protocol/stack"
	"verifh/fw"
	"verifh/tcpx"
	"verifh/vt"
	"verifh/wire"
)

var run *fw.Run

// ---- the stack: one host whose link loops every packet back to itself --------------

type seg struct {
	sport, dport uint16
	seq          uint32
	payload      []byte
	syn          bool
}

type world struct {
	h    *wire.Host
	pipe *wire.Pipe
	mu   sync.Mutex
	segs []seg
}

func newWorld() *world {
	h, err := wire.NewHost(wire.HostCfg{Name: "L", MTU: 1500, V4: []tcpip.Address{wire.AddrA4}, SACK: true})
	if err != nil {
		run.Broken("harness: " + err.Error())
		return nil
	}
	w := &world{h: h}
	h.L.AddTap(func(f *wire.Frame) {
		t, err := tcpx.DecodeTCP(f.Proto, f.Data)
		if err == nil && t != nil {
			w.mu.Lock()
			w.segs = append(w.segs, seg{t.SrcPort, t.DstPort, t.Seq, append([]byte(nil), t.Payload...), t.Flags&2 != 0})
			w.mu.Unlock()
		}
	})
	w.pipe = wire.NewPipe(h.L, h.L, 200*time.Microsecond)
	stack.Pstack = h.S
	return w
}

// stream reassembles the bytes sent from sport to dport since the last SYN of that direction.
func (w *world) stream(sport, dport uint16) []byte {
	w.mu.Lock()
	defer w.mu.Unlock()
	var iss uint32
	have := false
	type piece struct {
		off uint32
		b   []byte
	}
	var ps []piece
	for _, s := range w.segs {
		if s.sport != sport || s.dport != dport {
			continue
		}
		if s.syn {
			iss, have = s.seq, true
			ps = nil
			continue
		}
		if have && len(s.payload) > 0 {
			ps = append(ps, piece{s.seq - iss - 1, s.payload})
		}
	}
	sort.Slice(ps, func(i, j int) bool { return ps[i].off < ps[j].off })
	var out []byte
	for _, p := range ps {
		if int(p.off) <= len(out) && int(p.off)+len(p.b) > len(out) {
			out = append(out, p.b[len(out)-int(p.off):]...)
		}
	}
	return out
}

func (w *world) clearTap() {
	w.mu.Lock()
	w.segs = nil
	w.mu.Unlock()
}

// ---- server side ----------------------------------------------------------------------

type seen struct {
	method, uri, body string
	headers           map[string]string
}

var (
	hmu        sync.Mutex
	invoked    = map[string][]seen{} // by X-Id
	wantHdrs   = map[string][]string{}
	recentKeys []string
)

func replyBody(id string) string { return "reply-for-" + id + "-" + strings.Repeat("z", len(id)%7) }

func handler(req *http.Request, resp *http.Response) {
	id := req.GetHeader("X-Id")
	s := seen{method: req.GetMethod(), body: req.GetBody(), headers: map[string]string{}}
	hmu.Lock()
	for _, k := range wantHdrs[id] {
		s.headers[k] = req.GetHeader(k)
	}
	invoked[id] = append(invoked[id], s)
	hmu.Unlock()
	resp.End(replyBody(id))
}

func wsHandler(req *http.Request, resp *http.Response) {
	c, err := websocket.Upgrade(req, resp)
	if err != nil {
		return
	}
	for {
		d, err := c.ReadData()
		if err != nil {
			return
		}
		if err := c.SendData(d); err != nil {
			return
		}
	}
}

// wsPushHandler: the server speaks first - three messages pushed by a second goroutine while
// the handler's own goroutine already waits in ReadData - and then echoes like wsHandler.
func wsPushHandler(req *http.Request, resp *http.Response) {
	c, err := websocket.Upgrade(req, resp)
	if err != nil {
		return
	}
	go func() {
		for i := 0; i < 3; i++ {
			time.Sleep(20 * time.Millisecond)
			c.SendData([]byte(fmt.Sprintf("push-%d", i)))
		}
	}()
	for {
		d, err := c.ReadData()
		if err != nil {
			return
		}
		if err := c.SendData(d); err != nil {
			return
		}
	}
}

var srv *http.Server

// missed: unregistered paths that were requested (and refused); lateRoutes: paths registered
// while the server was running
var missed []string
var lateRoutes = map[string]bool{}

var paths = []string{"/", "/a", "/index.html", "/api/v1/items", "/x-y_z.0"}

// ---- one HTTP exchange ------------------------------------------------------------------

func token(r *fw.Rand, n int) string {
	const al = "abcdefghijklmnopqrstuvwxyzABCDEFGHIJKLMNOPQRSTUVWXYZ0123456789-_"
	b := make([]byte, n)
	for i := range b {
		b[i] = al[r.Intn(len(al))]
	}
	return string(b)
}

func bodyText(r *fw.Rand, n int) string {
	// printable bytes without CR/LF and without ':' (so no "key: value CRLF" pattern can appear)
	const al = "abcdefghijklmnopqrstuvwxyz ABCDEFGHIJKLMNOPQRSTUVWXYZ0123456789{}[]\",.=&%+-_/?"
	b := make([]byte, n)
	for i := range b {
		b[i] = al[r.Intn(len(al))]
	}
	// one body in five begins with line breaks of its own, or has some inside: the blank line
	// that ends the header block is one CRLF, what follows belongs to the body
	if n >= 4 && r.Chance(1, 5) {
		pre := []string{"\r\n", "\n", "\r", "\r\n\r\n", "\n\n"}[r.Intn(5)]
		copy(b, pre)
		if r.Bool() {
			copy(b[n/2:], "\r\n")
		}
	}
	return string(b)
}

func within(d time.Duration, f func()) bool {
	done := make(chan struct{})
	go func() { f(); close(done) }()
	select {
	case <-done:
		return true
	case <-time.After(d):
		return false
	}
}

func httpExchange(w *world, k int) {
	r := fw.NewRand(run.Seed, "C20", "http", k)
	id := fmt.Sprintf("id%d", k)
	method := []string{"GET", "HEAD", "POST", "PUT"}[r.Intn(4)]
	registered := r.Chance(4, 5)
	path := paths[r.Intn(len(paths))]
	if len(paths) > 5 && r.Chance(1, 3) {
		path = paths[len(paths)-1] // the route registered last, while the server was running
	}
	if !registered {
		path = "/nobody/" + token(r, 1+r.Intn(8))
		for lateRoutes[path] {
			path += "x" // (registered in the meantime)
		}
		missed = append(missed, path)
	}
	hdrs := map[string]string{"X-Id": id}
	var keys []string
	for i := 0; i < r.Intn(9); i++ {
		key := "X-" + token(r, 1+r.Intn(10))
		if strings.EqualFold(key, "X-Id") {
			continue // would overwrite the request's identity (seen once in 36 000 thorough exchanges)
		}
		hdrs[key] = token(r, 1+r.Intn(30))
		keys = append(keys, key)
	}
	body := ""
	if method == "POST" || method == "PUT" {
		body = bodyText(r, r.Intn(900))
		if r.Chance(1, 6) {
			body = ""
		}
	}
	// also ask for headers that earlier requests carried but this one does not
	hmu.Lock()
	var absent []string
	for _, old := range recentKeys {
		if _, sent := hdrs[old]; !sent {
			absent = append(absent, old)
		}
	}
	wantHdrs[id] = append(append([]string(nil), keys...), absent...)
	recentKeys = append(recentKeys, keys...)
	if len(recentKeys) > 24 {
		recentKeys = recentKeys[len(recentKeys)-24:]
	}
	hmu.Unlock()
	rep := map[string]interface{}{"k": k, "method": method, "path": path, "registered": registered, "headers": hdrs, "body_len": len(body)}
	var result string
	var cerr error
	var lport uint16
	w.clearTap()
	ok := within(60*time.Second, func() {
		cli, err := http.NewClient("http://10.0.0.1:8080" + path)
		if err != nil {
			cerr = err
			return
		}
		cli.SetMethod(method)
		cli.SetHeaders(hdrs)
		cli.SetData(body)
		time.Sleep(10 * time.Millisecond) // the bundled server misses a request that arrives before it registers its waiter
		result, cerr = cli.GetResult()
		// find the client's port from the tap (the SYN to 8080)
		w.mu.Lock()
		for _, s := range w.segs {
			if s.syn && s.dport == 8080 {
				lport = s.sport
			}
		}
		w.mu.Unlock()
		time.Sleep(5 * time.Millisecond)
		cli.GetConnection().Close()
	})
	time.Sleep(20 * time.Millisecond)
	run.Count("http_exchanges", 1)
	run.Case(fw.Hash("http", method, registered, len(keys), len(body)/100), true)
	if !ok {
		run.Violation("C20/http/no-answer", fmt.Sprintf("%s %s: the bundled client got no answer within 60 s of virtual time", method, path), rep)
		return
	}
	if cerr != nil {
		run.Violation("C20/http/client-error", fmt.Sprintf("%s %s: client error %v", method, path, cerr), rep)
		return
	}
	hmu.Lock()
	calls := invoked[id]
	hmu.Unlock()
	if !registered {
		if len(calls) != 0 {
			run.Violation("C20/http/handler-for-unregistered-path", fmt.Sprintf("path %q is not registered but a handler ran", path), rep)
		}
		return
	}
	if len(calls) != 1 {
		run.Violation("C20/http/handler-invocations", fmt.Sprintf("%s %s: handler ran %d times", method, path, len(calls)), rep)
		return
	}
	c := calls[0]
	if c.method != method {
		run.Violation("C20/http/method", fmt.Sprintf("sent %s, handler saw %q", method, c.method), rep)
	}
	for _, key := range keys {
		if c.headers[key] != hdrs[key] {
			run.Violation("C20/http/header", fmt.Sprintf("header %s: sent %q, handler saw %q", key, hdrs[key], c.headers[key]), rep)
			break
		}
	}
	for _, key := range absent {
		if c.headers[key] != "" {
			run.Violation("C20/http/header-not-sent", fmt.Sprintf("header %s was not part of this request but the handler saw %q (it belonged to an earlier request)", key, c.headers[key]), rep)
			break
		}
	}
	run.Count("absent_headers_checked", int64(len(absent)))
	if c.body != body {
		key := "C20/http/request-body"
		if c.body == "\r\n"+body {
			key = "C20/http/body-keeps-blank-line" // the specific deviation: the CRLF that ends the header block is left in front of the body
		}
		run.Violation(key, fmt.Sprintf("%s %s: body sent %q (%d bytes), handler saw %q (%d bytes)", method, path, clip(body), len(body), clip(c.body), len(c.body)), rep)
	}
	// what the client got back
	raw := string(w.stream(8080, lport))
	status := ""
	if i := strings.Index(raw, "\r\n"); i > 0 {
		status = raw[:i]
	}
	if !strings.HasPrefix(status, "HTTP/1.1 200") && !strings.HasPrefix(status, "HTTP/1.0 200") {
		run.Violation("C20/http/status", fmt.Sprintf("%s %s: handler answered normally but the status line on the wire is %q", method, path, status), rep)
	}
	if method != "HEAD" {
		want := replyBody(id)
		if result != want {
			key := "C20/http/response-body"
			if result == "\r\n"+want {
				key = "C20/http/body-keeps-blank-line"
			}
			run.Violation(key, fmt.Sprintf("%s %s: handler produced %q, client returned %q", method, path, want, clip(result)), rep)
		}
	}
	if k < 2 {
		run.Sample(rep)
	}
}

// httpBurst: several bundled clients connect at the same (virtual) instant, so that the
// server finds more than one established connection waiting in its accept queue; each
// client must get the reply its own request produced, and each handler runs once.
func httpBurst(w *world, k int) {
	r := fw.NewRand(run.Seed, "C20", "burst", k)
	n := 2 + r.Intn(5)
	type one struct {
		id, path, body, result string
		err                    error
	}
	reqs := make([]*one, n)
	for i := range reqs {
		reqs[i] = &one{id: fmt.Sprintf("burst%d-%d", k, i), path: paths[r.Intn(len(paths))], body: bodyText(r, r.Intn(300))}
		hmu.Lock()
		wantHdrs[reqs[i].id] = nil
		hmu.Unlock()
	}
	rep := map[string]interface{}{"k": k, "clients": n}
	var wg sync.WaitGroup
	ok := within(120*time.Second, func() {
		for _, q := range reqs {
			q := q
			wg.Add(1)
			go func() {
				defer wg.Done()
				cli, err := http.NewClient("http://10.0.0.1:8080" + q.path)
				if err != nil {
					q.err = err
					return
				}
				cli.SetMethod("POST")
				cli.SetHeaders(map[string]string{"X-Id": q.id})
				cli.SetData(q.body)
				time.Sleep(10 * time.Millisecond)
				q.result, q.err = cli.GetResult()
				time.Sleep(5 * time.Millisecond)
				cli.GetConnection().Close()
			}()
		}
		wg.Wait()
	})
	time.Sleep(20 * time.Millisecond)
	run.Count("http_burst_rounds", 1)
	run.Count("http_burst_clients", int64(n))
	run.Case(fw.Hash("burst", n), true)
	if !ok {
		run.Violation("C20/http/burst-no-answer", fmt.Sprintf("%d clients connected at the same instant: not all of them were answered within 120 s of virtual time", n), rep)
		return
	}
	for _, q := range reqs {
		hmu.Lock()
		calls := invoked[q.id]
		hmu.Unlock()
		switch {
		case q.err != nil:
			run.Violation("C20/http/burst-client-error", fmt.Sprintf("%d clients at once: client %s failed with %v", n, q.id, q.err), rep)
		case len(calls) != 1:
			run.Violation("C20/http/burst-handler-invocations", fmt.Sprintf("%d clients at once: the handler ran %d times for request %s", n, len(calls), q.id), rep)
		case calls[0].body != q.body:
			run.Violation("C20/http/burst-request-body", fmt.Sprintf("%d clients at once: request %s carried %q, the handler saw %q", n, q.id, clip(q.body), clip(calls[0].body)), rep)
		case q.result != replyBody(q.id):
			run.Violation("C20/http/burst-response-body", fmt.Sprintf("%d clients at once: client %s got %q, its handler produced %q", n, q.id, clip(q.result), replyBody(q.id)), rep)
		default:
			continue
		}
		return
	}
}

func clip(s string) string {
	if len(s) > 60 {
		return s[:60] + "..."
	}
	return s
}

// ---- WebSocket ------------------------------------------------------------------------------

const guid = "258EAFA5-E914-47DA-95CA-C5AB0DC85B11"

func accept(key string) string {
	h := sha1.Sum([]byte(key + guid))
	return base64.StdEncoding.EncodeToString(h[:])
}

func wsLens(r *fw.Rand) []int {
	pool := []int{0, 1, 2, 124, 125, 126, 127, 128, 1000, 65534, 65535, 65536, 65537, 100000}
	if fw.Thorough() {
		pool = append(pool, 300000)
	}
	n := 1 + r.Intn(6)
	var out []int
	for i := 0; i < n; i++ {
		if r.Chance(2, 3) {
			out = append(out, pool[r.Intn(len(pool))])
		} else {
			out = append(out, r.Intn(3000))
		}
	}
	return out
}

func msg(k, i, n int) []byte {
	b := make([]byte, n)
	for j := range b {
		b[j] = byte('a' + (j*7+k+i*3)%26)
	}
	return b
}

// bundled client <-> bundled server (unmasked frames both ways)
func wsBundled(w *world, k int) {
	r := fw.NewRand(run.Seed, "C20", "ws", k)
	lens := wsLens(r)
	rep := map[string]interface{}{"k": k, "lengths": lens, "client": "bundled"}
	w.clearTap()
	var failure string
	ok := within(120*time.Second, func() {
		cli, err := websocket.NewClient("http://10.0.0.1:8080/ws")
		if err != nil {
			failure = "connect: " + err.Error()
			return
		}
		time.Sleep(10 * time.Millisecond)
		if err := cli.Upgrade(); err != nil {
			failure = "upgrade: " + err.Error()
			return
		}
		// accept key on the wire
		var lport uint16
		w.mu.Lock()
		for _, s := range w.segs {
			if s.syn && s.dport == 8080 {
				lport = s.sport
			}
		}
		w.mu.Unlock()
		reqRaw, respRaw := string(w.stream(lport, 8080)), string(w.stream(8080, lport))
		key := headerOf(reqRaw, "Sec-WebSocket-Key")
		got := headerOf(respRaw, "Sec-WebSocket-Accept")
		if key == "" || got != accept(key) {
			failure = fmt.Sprintf("accept key: client key %q, server answered %q, RFC 6455 gives %q", key, got, accept(key))
			return
		}
		if !strings.HasPrefix(respRaw, "HTTP/1.1 101") {
			failure = fmt.Sprintf("upgrade status line %q", strings.SplitN(respRaw, "\r\n", 2)[0])
			return
		}
		// one at a time and in bursts
		burst := r.Bool()
		for i, n := range lens {
			m := msg(k, i, n)
			if err := cli.Push(string(m)); err != nil {
				failure = fmt.Sprintf("send #%d (%d bytes): %v", i, n, err)
				return
			}
			if burst && i+1 < len(lens) {
				continue
			}
			from := i
			if burst {
				from = 0
			}
			for j := from; j <= i; j++ {
				back, err := cli.Recv()
				want := msg(k, j, lens[j])
				if err != nil || back != string(want) {
					failure = fmt.Sprintf("message #%d of %d bytes: echoed back %d bytes, err %v (first difference at %d)", j, lens[j], len(back), err, firstDiff([]byte(back), want))
					return
				}
				run.Count("ws_messages_verified", 1)
			}
		}
		if r.Chance(1, 3) {
			// the application registers one more route while this session is still open (its
			// handler has not returned); the route is in use from the next exchange on
			vt.Quiesce()
			late := fmt.Sprintf("/late-%d", k)
			if len(missed) > 0 && r.Bool() {
				// ... a path that was asked for, and rightly refused, before it existed
				late = missed[len(missed)-1]
				missed = missed[:len(missed)-1]
				run.Count("routes_registered_after_a_request_for_them_was_refused", 1)
			}
			lateRoutes[late] = true
			srv.HandleFunc(late, handler)
			paths = append(paths, late)
			run.Count("routes_registered_while_a_websocket_session_is_open", 1)
		}
		cli.Close()
	})
	time.Sleep(20 * time.Millisecond)
	run.Count("ws_sessions", 1)
	run.Case(fw.Hash("ws", lens), true)
	if !ok {
		run.Violation("C20/ws/stalled", fmt.Sprintf("WebSocket session with message lengths %v did not finish within 120 s of virtual time", lens), rep)
	} else if failure != "" {
		run.Violation("C20/ws/bundled", failure, rep)
	}
}

func headerOf(raw, name string) string {
	for _, l := range strings.Split(raw, "\r\n") {
		if strings.HasPrefix(strings.ToLower(l), strings.ToLower(name)+":") {
			return strings.TrimSpace(l[len(name)+1:])
		}
	}
	return ""
}

func firstDiff(a, b []byte) int {
	for i := 0; i < len(a) && i < len(b); i++ {
		if a[i] != b[i] {
			return i
		}
	}
	if len(a) < len(b) {
		return len(a)
	}
	return len(b)
}

// harness client over a raw TCP endpoint: masked frames built by an independent RFC 6455 encoder
func wsMasked(w *world, k int) {
	r := fw.NewRand(run.Seed, "C20", "wsm", k)
	lens := wsLens(r)
	rep := map[string]interface{}{"k": k, "lengths": lens, "client": "raw-masked"}
	wq := &waiter.Queue{}
	ep, err := w.h.S.NewEndpoint(tcp.ProtocolNumber, ipv4.ProtocolNumber, wq)
	if err != nil {
		run.Broken("harness: " + err.String())
		return
	}
	defer ep.Close()
	we, ch := waiter.NewChannelEntry(nil)
	wq.EventRegister(&we, waiter.EventIn|waiter.EventOut|waiter.EventHUp|waiter.EventErr)
	var failure string
	readN := func(n int, buf *[]byte) bool {
		deadline := time.After(60 * time.Second)
		for len(*buf) < n {
			v, _, e := ep.Read(nil)
			if e == tcpip.ErrWouldBlock {
				select {
				case <-ch:
				case <-deadline:
					return false
				}
				continue
			}
			if e != nil {
				return false
			}
			*buf = append(*buf, v...)
		}
		return true
	}
	writeAll := func(b []byte) bool {
		for len(b) > 0 {
			n, _, e := ep.Write(tcpip.SlicePayload(b), tcpip.WriteOptions{})
			b = b[n:]
			if e == tcpip.ErrWouldBlock {
				select {
				case <-ch:
				case <-time.After(60 * time.Second):
					return false
				}
				continue
			}
			if e != nil {
				return false
			}
		}
		return true
	}
	ok := within(180*time.Second, func() {
		if e := ep.Connect(tcpip.FullAddress{Addr: wire.AddrA4, Port: 8080}); e != tcpip.ErrConnectStarted {
			failure = "connect: " + e.String()
			return
		}
		<-ch
		time.Sleep(10 * time.Millisecond)
		key := base64.StdEncoding.EncodeToString(r.Bytes(16))
		path := "/ws"
		if k%12 == 11 {
			path = "/wspush"
		}
		req := "GET " + path + " HTTP/1.1\r\nHost: 10.0.0.1:8080\r\nUpgrade: websocket\r\nConnection: Upgrade\r\nSec-WebSocket-Key: " + key + "\r\nSec-WebSocket-Version: 13\r\n\r\n"
		if !writeAll([]byte(req)) {
			failure = "cannot send the upgrade request"
			return
		}
		var in []byte
		for !bytes.Contains(in, []byte("\r\n\r\n")) {
			if !readN(len(in)+1, &in) {
				failure = "no upgrade response"
				return
			}
		}
		i := bytes.Index(in, []byte("\r\n\r\n"))
		head := string(in[:i])
		in = in[i+4:]
		if !strings.HasPrefix(head, "HTTP/1.1 101") || headerOf(head, "Sec-WebSocket-Accept") != accept(key) {
			failure = fmt.Sprintf("upgrade response %q: accept key should be %q", head, accept(key))
			return
		}
		if path == "/wspush" {
			// the server speaks first, while this client is silent
			for i := 0; i < 3; i++ {
				want := []byte(fmt.Sprintf("push-%d", i))
				if !readN(2+len(want), &in) {
					failure = fmt.Sprintf("message #%d pushed by the server (its reader is waiting for this silent client at the same time) did not arrive", i)
					return
				}
				if in[0] != 0x81 || int(in[1]) != len(want) || !bytes.Equal(in[2:2+len(want)], want) {
					failure = fmt.Sprintf("pushed message #%d arrived as %x, expected an unmasked text frame %q", i, in[:2+len(want)], want)
					return
				}
				in = in[2+len(want):]
				run.Count("ws_server_pushes_verified", 1)
			}
		}
		for i, n := range lens {
			m := msg(k, i, n)
			mk := [4]byte{}
			switch r.Intn(3) {
			case 0:
			case 1:
				mk = [4]byte{255, 255, 255, 255}
			default:
				copy(mk[:], r.Bytes(4))
			}
			// one message in four goes out unmasked on the same connection ("masked or not"):
			// what the previous frame's key was must not matter
			mbit := byte(0x80)
			if r.Chance(1, 4) {
				mbit, mk = 0, [4]byte{}
				run.Count("ws_unmasked_messages_among_masked", 1)
			}
			fr := []byte{0x81}
			switch {
			case n <= 125:
				fr = append(fr, mbit|byte(n))
			case n <= 65535:
				fr = append(fr, mbit|126, byte(n>>8), byte(n))
			default:
				var l [8]byte
				binary.BigEndian.PutUint64(l[:], uint64(n))
				fr = append(append(fr, mbit|127), l[:]...)
			}
			if mbit != 0 {
				fr = append(fr, mk[:]...)
			}
			for j, b := range m {
				fr = append(fr, b^mk[j%4])
			}
			// one frame in three is written in two pieces 5 ms apart, so that it reaches the server
			// in separate TCP segments: cut 1-3 bytes before its end, inside / right behind its
			// header, or anywhere
			cut := 0
			if len(fr) > 1 && r.Chance(1, 3) {
				switch r.Intn(3) {
				case 0:
					c := 1 + r.Intn(3)
					if c > len(fr)-1 {
						c = len(fr) - 1
					}
					cut = len(fr) - c
				case 1:
					c := 14
					if c > len(fr)-1 {
						c = len(fr) - 1
					}
					cut = 1 + r.Intn(c)
				default:
					cut = 1 + r.Intn(len(fr)-1)
				}
			}
			sent := false
			if cut > 0 {
				sent = writeAll(fr[:cut])
				time.Sleep(5 * time.Millisecond)
				sent = sent && writeAll(fr[cut:])
				run.Count("ws_frames_sent_in_two_pieces", 1)
			} else {
				sent = writeAll(fr)
			}
			if !sent {
				failure = fmt.Sprintf("cannot send message #%d (%d bytes)", i, n)
				return
			}
			// echo: an unmasked text frame with exactly the same bytes
			if !readN(2, &in) {
				failure = fmt.Sprintf("no echo for message #%d (%d bytes, mask %x)", i, n, mk)
				return
			}
			if in[0] != 0x81 || in[1]&0x80 != 0 {
				failure = fmt.Sprintf("echo frame header %x for message #%d", in[:2], i)
				return
			}
			ln, hl := int(in[1]&0x7f), 2
			switch ln {
			case 126:
				if !readN(4, &in) {
					failure = "short frame"
					return
				}
				ln, hl = int(binary.BigEndian.Uint16(in[2:])), 4
			case 127:
				if !readN(10, &in) {
					failure = "short frame"
					return
				}
				ln, hl = int(binary.BigEndian.Uint64(in[2:])), 10
			}
			if ln != n || (n > 125 && hl == 2) || (n <= 125 && hl != 2) || (n > 65535 && hl != 10) || (n <= 65535 && hl == 10) {
				failure = fmt.Sprintf("echo of message #%d: %d bytes sent, frame announces %d with a %d-byte header", i, n, ln, hl)
				return
			}
			if !readN(hl+ln, &in) {
				failure = fmt.Sprintf("echo of message #%d (%d bytes) incomplete", i, n)
				return
			}
			if !bytes.Equal(in[hl:hl+ln], m) {
				failure = fmt.Sprintf("message #%d of %d bytes masked with %x came back altered (first difference at %d)", i, n, mk, firstDiff(in[hl:hl+ln], m))
				return
			}
			in = in[hl+ln:]
			run.Count("ws_masked_messages_verified", 1)
		}
	})
	time.Sleep(20 * time.Millisecond)
	run.Count("ws_masked_sessions", 1)
	run.Case(fw.Hash("wsm", lens), true)
	if !ok {
		run.Violation("C20/ws/stalled", fmt.Sprintf("masked WebSocket session with lengths %v did not finish in time", lens), rep)
	} else if failure != "" {
		run.Violation("C20/ws/masked", failure, rep)
	}
}

func child(t *testing.T) {
	var lo, hi int
	fmt.Sscan(os.Getenv("VERIF_RANGE"), &lo, &hi)
	vt.Bubble(t, func() {
		w := newWorld()
		if w == nil {
			os.Exit(run.Finish("", nil))
		}
		srv = http.NewHTTP("", "", "10.0.0.1", "8080")
		for _, p := range paths {
			srv.HandleFunc(p, handler)
		}
		srv.HandleFunc("/ws", wsHandler)
		srv.HandleFunc("/wspush", wsPushHandler)
		go srv.ListenAndServ()
		time.Sleep(50 * time.Millisecond)
		for k := lo; k < hi && run.Violations() < 4; k++ {
			switch k % 6 {
			case 0, 1, 2:
				httpExchange(w, k)
			case 3:
				httpBurst(w, k)
			case 4:
				wsBundled(w, k)
			case 5:
				wsMasked(w, k)
			}
		}
		os.Exit(run.Finish("", nil))
	})
}

func TestC20(t *testing.T) {
	log.SetOutput(io.Discard)
	run = fw.Start("C20", "exploration")
	if fw.IsChild() {
		child(t)
		return
	}
	n := fw.N(480, 36000)
	nchild := 16
	var wg sync.WaitGroup
	for c := 0; c < nchild; c++ {
		c := c
		wg.Add(1)
		go func() {
			defer wg.Done()
			tag := fmt.Sprintf("vt%d", c)
			res := run.RunChild(fw.ChildSpec{Bin: os.Getenv("VERIF_BIN_VT"), Test: "^TestC20$", Tag: tag, Env: []string{fmt.Sprintf("VERIF_RANGE=%d %d", n*c/nchild, n*(c+1)/nchild)}, Timeout: time.Duration(fw.N(10, 120)) * time.Minute})
			if !res.Done {
				run.ChildCrashed(res, "C20", tag)
			}
		}()
	}
	wg.Wait()
	code := run.Finish("the bundled HTTP server runs on a real stack whose link loops packets back to it (a harness link, so the TCP byte streams of both directions are reassembled from the tap), in virtual time. HTTP: GET/HEAD/POST/PUT to registered and unregistered paths with 0-8 PRNG headers (token: token) and 0-900-byte bodies from the accepted grammar, sent by the bundled client 10 ms after connecting; the handler's view (method, every sent header, body) and the client's result are compared with what was sent/produced, the status line is read off the wire, unregistered paths must not reach a handler. WebSocket: the bundled client (unmasked) and a harness client over a raw TCP endpoint with an independent RFC 6455 encoder/decoder (masked with zero, all-ones and PRNG keys) upgrade on /ws; the accept key must equal base64(SHA-1(key+GUID)); 1-6 messages per session with lengths from {0,1,2,124..128,1000,65534..65537,100000 (,300000)} and PRNG lengths, one at a time and in bursts, must be echoed byte for byte, in order, with the right frame-length encoding. distinct = exchange shapes Later additions: One frame in three of the raw client is written in two pieces 5 ms apart (cut 1-3 bytes before its end, inside or right behind its header, or anywhere), so that it reaches the server in separate TCP segments. A route is registered while a WebSocket session is open; request bodies begin with / contain CR and LF. The late route is, half of the time, a path that was requested and refused before.",
		[]string{"requests and responses fit one TCP segment (the HTTP layer reads a message with a single receive)", "the 10 ms pause avoids the bundled server's late waiter registration, which is schedule-dependent and outside this property"})
	os.Exit(code)
}
