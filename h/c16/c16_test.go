package c16

import (
	"bytes"
	"encoding/json"
	"fmt"
	"os"
	"runtime"
	"sync"
	"testing"

	"github.com/brewlin/net-protocol/pkg/buffer"
	"verifh/fw"
)

// An op on one of the live objects (original and its clones).
type op struct {
	Kind string `json:"k"` // trim, cap, rmfirst, clone, clonebuf
	Obj  int    `json:"o"`
	N    int    `json:"n"`
}

type obj struct {
	vv  buffer.VectorisedView
	ref []byte
	// chunks: the lengths of the chunks the content is split into, as the operations leave
	// them. "Remove the first chunk" removes exactly one of them - also when it is empty.
	chunks []int
}

type scenario struct {
	Chunks []int `json:"chunks"`
	Ops    []op  `json:"ops"`
}

func content(n int) []byte {
	b := make([]byte, n)
	for i := range b {
		b[i] = byte(i*7 + 1)
	}
	return b
}

func build(chunks []int) obj {
	total := 0
	for _, c := range chunks {
		total += c
	}
	data := content(total)
	views := make([]buffer.View, 0, len(chunks))
	off := 0
	for _, c := range chunks {
		// every chunk is its own allocation with spare capacity filled with a
		// poison value, so that a re-extension exposes bytes that are not content
		back := make([]byte, c+3)
		copy(back, data[off:off+c])
		for i := c; i < len(back); i++ {
			back[i] = 0xEE
		}
		if c == 0 && len(views)%2 == 0 {
			views = append(views, nil) // an empty chunk may also be a nil View
		} else {
			views = append(views, buffer.View(back[:c]))
		}
		off += c
	}
	return obj{vv: buffer.NewVectorisedView(total, views), ref: data, chunks: append([]int(nil), chunks...)}
}

// check compares one live object with its reference byte string.
func check(o *obj) string {
	if got := o.vv.Size(); got != len(o.ref) {
		return fmt.Sprintf("Size()=%d, byte string has %d", got, len(o.ref))
	}
	if got := o.vv.ToView(); !bytes.Equal(got, o.ref) {
		return fmt.Sprintf("ToView()=%x, byte string is %x", []byte(got), o.ref)
	}
	sum := 0
	for _, v := range o.vv.Views() {
		sum += len(v)
	}
	if sum != o.vv.Size() {
		return fmt.Sprintf("sum(len(Views()))=%d != Size()=%d", sum, o.vv.Size())
	}
	f := o.vv.First()
	if len(o.vv.Views()) == 0 {
		if f != nil {
			return "First() non-nil on a view without chunks"
		}
	} else if !bytes.HasPrefix(o.ref, f) {
		return fmt.Sprintf("First()=%x is not a prefix of %x", []byte(f), o.ref)
	}
	return ""
}

// apply runs one op on the real object and on the reference. It returns a
// description of a disagreement, or "".
func apply(objs *[]obj, o op, clonebuf *[]buffer.View) (msg string) {
	defer func() {
		if r := recover(); r != nil {
			msg = fmt.Sprintf("panic in %v: %v", o, r)
		}
	}()
	t := &(*objs)[o.Obj]
	switch o.Kind {
	case "trim":
		t.vv.TrimFront(o.N)
		if o.N > 0 {
			k := o.N
			if k > len(t.ref) {
				k = len(t.ref)
			}
			t.ref = t.ref[k:]
			for k > 0 && len(t.chunks) > 0 {
				if k < t.chunks[0] {
					t.chunks[0] -= k
					k = 0
				} else {
					k -= t.chunks[0]
					t.chunks = t.chunks[1:]
				}
			}
			// a trim that ends exactly on a chunk boundary: whether empty chunks sitting at
			// that boundary fall before or behind the cut is not defined by the byte string;
			// follow the implementation there
			if len(t.chunks) > 0 && t.chunks[0] == 0 {
				if vs := t.vv.Views(); len(vs) == 0 || len(vs[0]) != 0 {
					for len(t.chunks) > 0 && t.chunks[0] == 0 {
						t.chunks = t.chunks[1:]
					}
				}
			}
		}
	case "cap":
		t.vv.CapLength(o.N)
		k := o.N
		if k < 0 {
			k = 0
		}
		if k <= len(t.ref) {
			t.ref = t.ref[:k]
			left := k
			for i := range t.chunks {
				if left >= t.chunks[i] {
					left -= t.chunks[i]
				} else {
					t.chunks[i] = left
					left = 0
				}
			}
			if vs := t.vv.Views(); k > 0 && len(vs) > 0 {
				last := vs[len(vs)-1]
				if cap(last) != len(last) {
					return fmt.Sprintf("after CapLength(%d) the last chunk can be re-extended: len=%d cap=%d", o.N, len(last), cap(last))
				}
			}
		}
	case "rmfirst":
		t.vv.RemoveFirst()
		if len(t.chunks) > 0 {
			t.ref = t.ref[t.chunks[0]:]
			t.chunks = t.chunks[1:]
		}
	case "clone":
		c := t.vv.Clone(nil)
		*objs = append(*objs, obj{vv: c, ref: t.ref, chunks: append([]int(nil), t.chunks...)})
	case "clonebuf":
		// scratch slices of every shape: full (len == cap), empty with room, partly filled
		switch o.N % 3 {
		case 0:
			*clonebuf = make([]buffer.View, o.N)
		case 1:
			*clonebuf = make([]buffer.View, 0, o.N+4)
		default:
			*clonebuf = make([]buffer.View, o.N/2, o.N+3)
		}
		c := t.vv.Clone(*clonebuf)
		*objs = append(*objs, obj{vv: c, ref: (*objs)[o.Obj].ref, chunks: append([]int(nil), (*objs)[o.Obj].chunks...)})
	}
	for i := range *objs {
		if m := check(&(*objs)[i]); m != "" {
			return fmt.Sprintf("object %d after %v: %s", i, o, m)
		}
	}
	return ""
}

func runScenario(sc scenario) string {
	o := build(sc.Chunks)
	objs := []obj{o}
	if m := check(&objs[0]); m != "" {
		return "initial: " + m
	}
	var cb []buffer.View
	for _, p := range sc.Ops {
		if p.Obj >= len(objs) {
			return ""
		}
		if m := apply(&objs, p, &cb); m != "" {
			return m
		}
	}
	return ""
}

// successors enumerates every op applicable in the state reached by sc.
func successors(nobjs int, sizes []int) []op {
	var out []op
	for i := 0; i < nobjs; i++ {
		for k := -1; k <= sizes[i]+2; k++ {
			out = append(out, op{"trim", i, k}, op{"cap", i, k})
		}
		out = append(out, op{"rmfirst", i, 0})
		if nobjs < 3 {
			out = append(out, op{"clone", i, 0}, op{"clonebuf", i, 1})
		}
	}
	return out
}

type result struct {
	evals    int64
	sigs     map[uint64]struct{}
	bad      []scenario
	badMsg   []string
	finalSet map[string]struct{}
}

func explore(chunks []int, depth int, res *result) {
	var rec func(ops []op)
	rec = func(ops []op) {
		// replay prefix to find the state
		o := build(chunks)
		objs := []obj{o}
		var cb []buffer.View
		for _, p := range ops {
			if m := apply(&objs, p, &cb); m != "" {
				if len(res.bad) < 3 {
					res.bad = append(res.bad, scenario{append([]int(nil), chunks...), append([]op(nil), ops...)})
					res.badMsg = append(res.badMsg, m)
				}
				return
			}
		}
		res.evals++
		if len(ops) > 0 {
			sig := fw.Hash(chunks, ops)
			res.sigs[sig] = struct{}{}
		}
		if len(ops) == depth {
			return
		}
		sizes := make([]int, len(objs))
		for i := range objs {
			sizes[i] = len(objs[i].ref)
		}
		for _, s := range successors(len(objs), sizes) {
			rec(append(ops, s))
		}
	}
	rec(nil)
}

func chunkings(n, maxChunks int) [][]int {
	var out [][]int
	var rec func(rem int, cur []int)
	rec = func(rem int, cur []int) {
		if len(cur) > 0 && rem == 0 {
			out = append(out, append([]int(nil), cur...))
		}
		if len(cur) == maxChunks {
			return
		}
		for c := 0; c <= rem; c++ {
			rec(rem-c, append(cur, c))
		}
	}
	rec(n, nil)
	// keep only those summing to n (rec emits when rem==0)
	return out
}

func TestC16(t *testing.T) {
	run := fw.Start("C16", "exploration")
	if p := os.Getenv("VERIF_REPLAY"); p != "" {
		replay(run, p)
		return
	}
	var mu sync.Mutex
	var wg sync.WaitGroup
	sem := make(chan struct{}, runtime.NumCPU())
	maxLen, depth, maxChunks := fw.N(5, 6), fw.N(4, 5), fw.N(3, 4)
	reportBad := func(res *result) {
		for i, sc := range res.bad {
			run.Violation("C16/vectorised/"+sc.Ops[len(sc.Ops)-1].Kind, res.badMsg[i], sc)
		}
	}
	// Part 1: exhaustive small scope on VectorisedView
	nChunkings := 0
	for n := 0; n <= maxLen; n++ {
		for _, ch := range chunkings(n, maxChunks) {
			ch := ch
			nChunkings++
			wg.Add(1)
			sem <- struct{}{}
			go func() {
				defer wg.Done()
				defer func() { <-sem }()
				d := depth
				if len(ch) >= 4 || n >= 5 {
					d = depth - 1
				}
				res := &result{sigs: map[uint64]struct{}{}}
				explore(ch, d, res)
				mu.Lock()
				run.AddEvals(res.evals)
				for s := range res.sigs {
					run.Distinct(s)
				}
				reportBad(res)
				mu.Unlock()
			}()
		}
	}
	wg.Wait()
	run.Count("exhaustive_chunkings", int64(nChunkings))
	run.Count("exhaustive_max_content_len", int64(maxLen))
	run.Count("exhaustive_max_ops", int64(depth))

	// Part 2: random long sequences on large contents
	nr := fw.N(3000, 300000)
	for w := 0; w < 16; w++ {
		w := w
		wg.Add(1)
		go func() {
			defer wg.Done()
			for i := w; i < nr; i += 16 {
				r := fw.NewRand(run.Seed, "C16", "rand", i)
				var total int
				switch r.Intn(4) {
				case 0:
					total = r.Intn(64)
				case 1:
					total = r.Intn(3000)
				default:
					total = r.Intn(70001)
				}
				nch := 1 + r.Intn(12)
				chunks := make([]int, nch)
				rem := total
				for j := 0; j < nch-1; j++ {
					if r.Chance(1, 6) {
						continue
					}
					c := r.Intn(rem + 1)
					if r.Bool() && rem > 0 {
						c = r.Intn(1 + rem/(nch-j))
					}
					chunks[j] = c
					rem -= c
				}
				chunks[nch-1] = rem
				nops := 1 + r.Intn(64)
				sc := scenario{Chunks: chunks}
				// generate ops adaptively: need sizes, so run incrementally
				o := build(chunks)
				objs := []obj{o}
				var cb []buffer.View
				bad := ""
				for k := 0; k < nops && bad == ""; k++ {
					oi := r.Intn(len(objs))
					sz := len(objs[oi].ref)
					var p op
					switch x := r.Intn(10); {
					case x < 3:
						p = op{"trim", oi, pickCount(r, sz)}
					case x < 6:
						p = op{"cap", oi, pickCount(r, sz)}
					case x < 7:
						p = op{"rmfirst", oi, 0}
					case x < 8 && len(objs) < 4:
						p = op{"clone", oi, 0}
					case x < 9 && len(objs) < 4:
						p = op{"clonebuf", oi, r.Intn(16)}
					default:
						p = op{"trim", oi, r.Intn(3)}
					}
					sc.Ops = append(sc.Ops, p)
					bad = apply(&objs, p, &cb)
				}
				run.Case(fw.Hash("rand", len(chunks), total/1000, len(sc.Ops), sc.Ops[0].Kind, sc.Ops[len(sc.Ops)-1].Kind), true)
				if i < 2 {
					run.Sample(sc)
				}
				if bad != "" {
					run.Violation("C16/vectorised/"+sc.Ops[len(sc.Ops)-1].Kind, bad, sc)
				}
			}
		}()
	}
	wg.Wait()

	// Part 3: plain View and Prependable
	viewAndPrependable(run)

	code := run.Finish("exhaustive: every chunking (incl. empty chunks, <= maxChunks) of contents up to exhaustive_max_content_len, every op sequence up to exhaustive_max_ops over {TrimFront k, CapLength k (k=-1..size+2), RemoveFirst, Clone(nil), Clone(buf)} applied to the original or any clone, all live objects compared with their reference byte strings after every op; random: contents <= 70000 bytes in <= 12 chunks, <= 64 ops; View: every (len, k); Prependable: every size 0..128 x prepend sequences. distinct = distinct (chunking, op-sequence) for the exhaustive part, shape classes for the random part Later additions: The reference keeps the chunk list: RemoveFirst removes exactly one chunk, also an empty one.",
		[]string{"View.CapLength(k) with k beyond the current length is outside byte-string semantics (slicing a string beyond its end is undefined/panics); such calls are counted but not judged", "reference model: a plain []byte per live object (h/c16)"})
	os.Exit(code)
}

func pickCount(r *fw.Rand, sz int) int {
	switch r.Intn(6) {
	case 0:
		return sz
	case 1:
		return sz + 1 + r.Intn(3)
	case 2:
		return -1
	case 3:
		return 0
	}
	return r.Intn(sz + 1)
}

func viewAndPrependable(run *fw.Run) {
	try := func(f func()) (panicked bool) {
		defer func() {
			if recover() != nil {
				panicked = true
			}
		}()
		f()
		return false
	}
	maxN := fw.N(40, 130)
	for n := 0; n <= maxN; n++ {
		data := content(n)
		for k := -1; k <= n+2; k++ {
			// TrimFront
			v := buffer.NewViewFromBytes(data)
			p := try(func() { v.TrimFront(k) })
			legal := k >= 0 && k <= n
			run.Case(fw.Hash("view-trim", n, k), true)
			if legal && (p || !bytes.Equal(v, data[k:])) {
				run.Violation("C16/view/TrimFront", fmt.Sprintf("View(len %d).TrimFront(%d): panic=%v got %x", n, k, p, []byte(v)), map[string]int{"len": n, "k": k})
			}
			if !legal && !p && k > n {
				run.Violation("C16/view/TrimFront", fmt.Sprintf("View(len %d).TrimFront(%d) did not fail although the byte string is shorter", n, k), map[string]int{"len": n, "k": k})
			}
			// CapLength on a view with spare capacity behind it
			back := make([]byte, n+4)
			copy(back, data)
			for i := n; i < len(back); i++ {
				back[i] = 0xEE
			}
			w := buffer.View(back[:n])
			p = try(func() { w.CapLength(k) })
			run.Case(fw.Hash("view-cap", n, k), true)
			if legal {
				if p || !bytes.Equal(w, data[:k]) {
					run.Violation("C16/view/CapLength", fmt.Sprintf("View(len %d).CapLength(%d): panic=%v got %x", n, k, p, []byte(w)), map[string]int{"len": n, "k": k})
				} else if cap(w) != k {
					run.Violation("C16/view/CapLength-reextend", fmt.Sprintf("View(len %d).CapLength(%d) leaves cap=%d: can be re-sliced to expose bytes beyond the cap", n, k, cap(w)), map[string]int{"len": n, "k": k})
				} else if !try(func() { _ = w[:k+1] }) {
					run.Violation("C16/view/CapLength-reextend", "re-slice beyond the cap succeeded", map[string]int{"len": n, "k": k})
				}
			} else {
				run.Count("view_caplength_beyond_len_not_judged", 1)
			}
			// NextBytes
			if legal {
				u := buffer.NewViewFromBytes(data)
				var nb []byte
				p = try(func() { nb = u.NextBytes(k) })
				if p || !bytes.Equal(nb, data[:k]) || !bytes.Equal(u, data[k:]) {
					run.Violation("C16/view/NextBytes", fmt.Sprintf("View(len %d).NextBytes(%d) wrong", n, k), map[string]int{"len": n, "k": k})
				}
				vv := buffer.NewViewFromBytes(data).ToVectorisedView()
				if vv.Size() != n || !bytes.Equal(vv.ToView(), data) {
					run.Violation("C16/view/ToVectorisedView", "size/content mismatch", map[string]int{"len": n})
				}
			}
		}
	}
	// Prependable: every size, PRNG prepend sequences plus the exhaustive ones for small sizes
	r := fw.NewRand(run.Seed, "C16", "prep")
	for size := 0; size <= 128; size++ {
		seqs := [][]int{}
		if size <= 6 {
			var rec func(cur []int, sum int)
			rec = func(cur []int, sum int) {
				seqs = append(seqs, append([]int(nil), cur...))
				if len(cur) == 4 {
					return
				}
				for k := 0; k <= size+2-sum+1 && k <= size+2; k++ {
					rec(append(cur, k), sum+k)
				}
			}
			rec(nil, 0)
		}
		for i := 0; i < fw.N(20, 400); i++ {
			var s []int
			for j := 0; j < 1+r.Intn(6); j++ {
				s = append(s, r.Intn(size/2+3))
			}
			seqs = append(seqs, s)
		}
		for _, s := range seqs {
			p := buffer.NewPrependable(size)
			var ref []byte
			tag := byte(1)
			run.Case(fw.Hash("prep", size, s), len(s) > 0)
			for _, k := range s {
				b := p.Prepend(k)
				if k > size-len(ref) {
					if b != nil {
						run.Violation("C16/prependable/overflow", fmt.Sprintf("size %d: Prepend(%d) with %d used returned %d bytes instead of nil", size, k, len(ref), len(b)), map[string]interface{}{"size": size, "seq": s})
						break
					}
					continue
				}
				if b == nil && k >= 0 || len(b) != k {
					run.Violation("C16/prependable/len", fmt.Sprintf("size %d: Prepend(%d) returned %d bytes", size, k, len(b)), map[string]interface{}{"size": size, "seq": s})
					break
				}
				if cap(b) != k {
					run.Violation("C16/prependable/cap", fmt.Sprintf("size %d: Prepend(%d) region has cap %d: writing past it reaches the used part", size, k, cap(b)), map[string]interface{}{"size": size, "seq": s})
					break
				}
				for i := range b {
					b[i] = tag
				}
				nr := make([]byte, 0, len(ref)+k)
				for i := 0; i < k; i++ {
					nr = append(nr, tag)
				}
				ref = append(nr, ref...)
				tag++
				if !bytes.Equal(p.View(), ref) || p.UsedLength() != len(ref) {
					run.Violation("C16/prependable/content", fmt.Sprintf("size %d seq %v: View()=%x want %x UsedLength=%d", size, s, []byte(p.View()), ref, p.UsedLength()), map[string]interface{}{"size": size, "seq": s})
					break
				}
			}
		}
	}
	// NewPrependableFromView, also over views that are a slice of a larger buffer (spare
	// capacity behind them, as the first view of a received packet has)
	for n := 0; n <= 16; n++ {
		for _, spare := range []int{0, 1, 7, 100} {
			back := append(content(n), bytes.Repeat([]byte{0xEE}, spare)...)
			v := buffer.View(back[:n])
			if spare == 0 {
				v = buffer.NewViewFromBytes(content(n))
			}
			p := buffer.NewPrependableFromView(v)
			if p.UsedLength() != n || !bytes.Equal(p.View(), content(n)) || (p.Prepend(1) != nil) {
				run.Violation("C16/prependable/fromview", fmt.Sprintf("NewPrependableFromView over a view of %d bytes with %d bytes of spare capacity: UsedLength()=%d, View()=%x", n, spare, p.UsedLength(), []byte(p.View())), n)
			}
			run.Case(fw.Hash("prep-fromview", n, spare), true)
		}
	}
}

func replay(run *fw.Run, path string) {
	var doc struct {
		Replay scenario `json:"replay"`
	}
	b, err := os.ReadFile(path)
	if err != nil || jsonUnmarshal(b, &doc) != nil {
		fmt.Println("cannot read replay", path)
		os.Exit(2)
	}
	if m := runScenario(doc.Replay); m != "" {
		fmt.Printf("VIOLATION property=C16 replay=%s\n  what: %s\n", path, m)
		os.Exit(1)
	}
	fmt.Println("replay: held")
	os.Exit(0)
}

func jsonUnmarshal(b []byte, v interface{}) error { return json.Unmarshal(b, v) }
