package fw

import (
	"bufio"
	"encoding/json"
	"fmt"
	"os"
	"os/exec"
	"path/filepath"
	"regexp"
	"sort"
	"strings"
	"syscall"
	"time"
	"verifh/vt"
)

// Child-process protocol: a check's main process re-executes a test binary
// (itself, its -race build, or the go1.26.8 build) with VERIF_CHILD_OUT set.
// In the child, Start() returns a Run whose Finish() dumps everything it
// accumulated to that file instead of writing evidence; the parent merges it.

type childViolation struct {
	Key    string      `json:"key"`
	What   string      `json:"what"`
	Replay interface{} `json:"replay"`
}

type childDump struct {
	Evals        int64                  `json:"evals"`
	Distinct     []uint64               `json:"distinct"`
	Samples      []interface{}          `json:"samples"`
	Counters     map[string]int64       `json:"counters"`
	Sets         map[string][]string    `json:"sets"`
	Violations   []childViolation       `json:"violations"`
	Inconclusive int64                  `json:"inconclusive"`
	Broken       []string               `json:"broken"`
	Notes        map[string]interface{} `json:"notes"`
	Done         bool                   `json:"done"`
}

func IsChild() bool { return os.Getenv("VERIF_CHILD_OUT") != "" }

func (r *Run) dumpChild(path string) { r.dumpChildAs(path, true) }

// dumpChildAs writes the child's results; done=false marks a partial result written the
// moment a violation is recorded, so that a child that later runs into its watchdog (a
// break can make later scenarios spin) does not take its witnesses with it.
func (r *Run) dumpChildAs(path string, done bool) {
	d := childDump{Evals: r.evals, Samples: r.samples, Counters: r.counters, Sets: map[string][]string{}, Inconclusive: r.inconclusive, Broken: r.broken, Notes: r.notes, Done: done, Violations: r.childViols}
	for s := range r.distinct {
		d.Distinct = append(d.Distinct, s)
	}
	for k, m := range r.sets {
		for v := range m {
			d.Sets[k] = append(d.Sets[k], v)
		}
	}
	b, _ := json.Marshal(d)
	tmp := path + ".tmp"
	os.WriteFile(tmp, b, 0o644)
	os.Rename(tmp, path)
}

func (r *Run) merge(d *childDump) {
	r.mu.Lock()
	r.evals += d.Evals
	for _, s := range d.Distinct {
		r.distinct[s] = struct{}{}
	}
	for _, s := range d.Samples {
		if len(r.samples) < r.maxSamples {
			r.samples = append(r.samples, s)
		}
	}
	for k, v := range d.Counters {
		r.counters[k] += v
	}
	for k, vs := range d.Sets {
		m := r.sets[k]
		if m == nil {
			m = map[string]struct{}{}
			r.sets[k] = m
		}
		for _, v := range vs {
			m[v] = struct{}{}
		}
	}
	r.inconclusive += d.Inconclusive
	for k, v := range d.Notes {
		r.notes[k] = v
	}
	r.broken = append(r.broken, d.Broken...)
	r.mu.Unlock()
	for _, v := range d.Violations {
		r.Violation(v.Key, v.What, v.Replay)
	}
}

type ChildSpec struct {
	Bin     string   // test binary
	Test    string   // -test.run pattern
	Env     []string // extra KEY=VALUE
	Tag     string   // names the log files
	Timeout time.Duration
	Race    bool     // binary is a -race build: collect reports
	Anchors []string // repo-relative path fragments whose races are violations of this property
}

type ChildResult struct {
	Exit     int
	TimedOut bool
	Log      string // path of combined stdout/stderr
	Done     bool   // child reached Finish()
	Races    int
	Output   string // tail of the log (for crash triage)
}

// RunChild runs one child to completion and merges what it reported.
func (r *Run) RunChild(s ChildSpec) ChildResult {
	dir := os.Getenv("VERIF_RUN_DIR")
	if dir == "" {
		dir = filepath.Join(VerifDir, ".run", r.ID)
	}
	os.MkdirAll(dir, 0o755)
	out := filepath.Join(dir, s.Tag+".out.json")
	logp := filepath.Join(dir, s.Tag+".log")
	racep := filepath.Join(dir, s.Tag+".race")
	os.Remove(out)
	old, _ := filepath.Glob(racep + ".*")
	for _, f := range old {
		os.Remove(f)
	}
	lf, err := os.Create(logp)
	if err != nil {
		r.Broken("cannot create child log: " + err.Error())
		return ChildResult{Exit: -1}
	}
	defer lf.Close()
	if s.Timeout == 0 {
		s.Timeout = 20 * time.Minute
	}
	cmd := exec.Command(s.Bin, "-test.run", s.Test, "-test.timeout", "0")
	cmd.Stdout, cmd.Stderr = lf, lf
	cmd.Env = append(os.Environ(), "VERIF_CHILD_OUT="+out, "GOTRACEBACK=all")
	if s.Race {
		cmd.Env = append(cmd.Env, "GORACE=halt_on_error=0 log_path="+racep)
	}
	cmd.Env = append(cmd.Env, s.Env...)
	cmd.SysProcAttr = &syscall.SysProcAttr{Setpgid: true}
	res := ChildResult{Log: logp}
	if err := cmd.Start(); err != nil {
		r.Broken("cannot start child: " + err.Error())
		res.Exit = -1
		return res
	}
	done := make(chan error, 1)
	go func() { done <- cmd.Wait() }()
	select {
	case err = <-done:
	case <-time.After(s.Timeout):
		res.TimedOut = true
		cmd.Process.Signal(syscall.SIGQUIT) // goroutine dump into the log
		select {
		case err = <-done:
		case <-time.After(15 * time.Second):
			syscall.Kill(-cmd.Process.Pid, syscall.SIGKILL)
			err = <-done
		}
	}
	if err != nil {
		if ee, ok := err.(*exec.ExitError); ok {
			res.Exit = ee.ExitCode()
		} else {
			res.Exit = -1
		}
	}
	if b, err := os.ReadFile(out); err == nil {
		var d childDump
		if json.Unmarshal(b, &d) == nil {
			res.Done = d.Done
			r.merge(&d)
		}
	}
	res.Output = tail(logp, 6000)
	if s.Race {
		res.Races = r.collectRaces(racep, s.Anchors)
	}
	return res
}

func tail(path string, n int) string {
	b, err := os.ReadFile(path)
	if err != nil {
		return ""
	}
	if len(b) > n {
		b = b[len(b)-n:]
	}
	return string(b)
}

var frameRe = regexp.MustCompile(`^\s+(/\S+\.(?:go|s)):(\d+)`)

// collectRaces parses race-detector logs, de-duplicates reports by the pair of
// innermost repo functions, and classifies them.
func (r *Run) collectRaces(prefix string, anchors []string) int {
	files, _ := filepath.Glob(prefix + ".*")
	total := 0
	for _, f := range files {
		fh, err := os.Open(f)
		if err != nil {
			continue
		}
		sc := bufio.NewScanner(fh)
		sc.Buffer(make([]byte, 1<<20), 1<<24)
		var block []string
		flush := func() {
			if len(block) == 0 {
				return
			}
			total++
			r.classifyRace(block, anchors)
			block = nil
		}
		in := false
		for sc.Scan() {
			l := sc.Text()
			if strings.HasPrefix(l, "WARNING: DATA RACE") {
				flush()
				in = true
			}
			if in {
				block = append(block, l)
				if strings.HasPrefix(l, "==================") && len(block) > 2 {
					flush()
					in = false
				}
			}
		}
		flush()
		fh.Close()
	}
	r.Count("race_reports", int64(total))
	return total
}

func (r *Run) classifyRace(block []string, anchors []string) {
	// split into stacks: the two access stacks are the first two sections
	var sections [][]string
	var cur []string
	for _, l := range block {
		if strings.TrimSpace(l) == "" {
			if len(cur) > 0 {
				sections = append(sections, cur)
				cur = nil
			}
			continue
		}
		cur = append(cur, l)
	}
	if len(cur) > 0 {
		sections = append(sections, cur)
	}
	var tops []string
	harness, repo, anchored := false, false, 0
	for i, sec := range sections {
		if i >= 2 {
			break
		}
		top := ""
		fn := ""
		atomicOp := "plain"
		for _, l := range sec {
			if t := strings.TrimSpace(l); strings.HasPrefix(t, "sync/atomic.") && atomicOp == "plain" && !strings.Contains(t, "Int64()") && !strings.Contains(t, "Int32()") {
				atomicOp = strings.TrimSuffix(strings.TrimPrefix(t, "sync/atomic."), "()")
			}
			t := strings.TrimSpace(l)
			if m := frameRe.FindStringSubmatch(l); m != nil {
				p := m[1]
				if strings.HasPrefix(p, vt.RepoDir+"/") && top == "" {
					top = fn
					repo = true
					for _, a := range anchors {
						if strings.Contains(p, a) {
							anchored++
							break
						}
					}
				}
				if strings.HasPrefix(p, VerifDir+"/") && top == "" {
					// innermost non-runtime frame is harness code
					top = "harness:" + fn
					harness = true
				}
			} else if strings.Contains(t, "(") && !strings.HasPrefix(t, "Read") && !strings.HasPrefix(t, "Write") && !strings.HasPrefix(t, "Previous") && !strings.HasPrefix(t, "WARNING") && !strings.HasPrefix(t, "Goroutine") {
				fn = t
				if i := strings.Index(fn, "("); i > 0 && !strings.Contains(fn[:i], ".") {
					fn = t
				}
				// strip arguments
				if j := strings.LastIndex(fn, "("); j > 0 {
					fn = fn[:j]
				}
			}
		}
		kind := "read"
		for _, l := range sec {
			t := strings.ToLower(strings.TrimSpace(l))
			if strings.HasPrefix(t, "write") || strings.HasPrefix(t, "previous write") || strings.HasPrefix(t, "atomic write") || strings.HasPrefix(t, "previous atomic write") {
				kind = "write"
			}
		}
		top += "[" + kind + ":" + atomicOp + "]"
		tops = append(tops, top)
	}
	sort.Strings(tops)
	key := strings.Join(tops, " | ")
	r.Seen("race_locations", key)
	text := strings.Join(block, "\n")
	switch {
	case harness && anchored >= 1 && strings.Contains(strings.ToLower(key), "canary"):
		r.Violation("race/"+key, "repository code touched an object after the API said it would not: "+key+" (race detector report against the harness canary)", map[string]interface{}{"report": text})
	case harness && !repo:
		r.Broken("data race inside the harness: " + key)
	case anchored >= 2 || (anchored >= 1 && !harness):
		r.Violation("race/"+key, "data race between "+key+" (race detector report)", map[string]interface{}{"report": text})
	default:
		r.Count("unattributed_races", 1)
		r.Seen("unattributed_race_locations", key)
	}
}

func init() {
	_ = fmt.Sprint
}

// CrashSite inspects a crashed child's output (full log file) and returns the
// panic/fatal message and the innermost non-runtime frame's file. inRepo is
// true when that frame is code under /repo.
func CrashSite(logPath string) (msg, frame string, inRepo bool) {
	b, err := os.ReadFile(logPath)
	if err != nil {
		return "", "", false
	}
	lines := strings.Split(string(b), "\n")
	start := -1
	for i, l := range lines {
		if strings.HasPrefix(l, "panic: ") || strings.HasPrefix(l, "fatal error: ") {
			start = i
			msg = l
			break
		}
	}
	if start < 0 {
		return "", "", false
	}
	// first goroutine block after the message
	seenG := false
	for _, l := range lines[start:] {
		if strings.HasPrefix(l, "goroutine ") {
			if seenG {
				break
			}
			seenG = true
			continue
		}
		if !seenG {
			continue
		}
		if m := frameRe.FindStringSubmatch(l); m != nil {
			p := m[1]
			// skip the Go runtime and standard library: the innermost frame of our own
			// code (repository or harness) is what matters
			if !strings.HasPrefix(p, vt.RepoDir+"/") && !strings.HasPrefix(p, VerifDir+"/") {
				continue
			}
			frame = p + ":" + m[2]
			return msg, frame, strings.HasPrefix(p, vt.RepoDir+"/")
		}
	}
	return msg, frame, false
}

// ChildCrashed turns an unfinished child into a verdict: a panic raised in
// repository code is a violation (key names the crash site), anything else
// makes the check broken / inconclusive.
func (r *Run) ChildCrashed(res ChildResult, keyPrefix string, replay interface{}) {
	if res.TimedOut {
		r.Inconclusive("child-watchdog")
		r.Note("last_watchdog_log", res.Log)
		return
	}
	msg, frame, inRepo := CrashSite(res.Log)
	if inRepo {
		site := frame
		if i := strings.LastIndex(site, ":"); i > 0 {
			site = site[:i] // key by file, not line
		}
		r.Violation(keyPrefix+"/crash/"+strings.TrimPrefix(site, vt.RepoDir+"/"), fmt.Sprintf("process died in repository code: %s at %s", msg, frame), map[string]interface{}{"input": replay, "log_tail": res.Output})
		return
	}
	r.Broken(fmt.Sprintf("child ended without result (exit %d) %s %s: %s", res.Exit, msg, frame, lastLines(res.Output, 12)))
}

func lastLines(s string, n int) string {
	l := strings.Split(strings.TrimSpace(s), "\n")
	if len(l) > n {
		l = l[len(l)-n:]
	}
	return strings.Join(l, " / ")
}
