// Package fw is the shared verdict/evidence machinery of the runtime monitors.
package fw

import (
	"encoding/json"
	"fmt"
	"hash/fnv"
	"os"
	"path/filepath"
	"sort"
	"strconv"
	"strings"
	"sync"
	"time"
	"verifh/vt"
)

// VerifDir is where evidence, replays and known_findings.json live: the directory of the
// check script (VERIF_DIR), /verif by default.
var VerifDir = func() string {
	if d := os.Getenv("VERIF_DIR"); d != "" {
		return d
	}
	return "/verif"
}()

// Run accumulates what one check observed and turns it into an exit code and
// an evidence file.
type Run struct {
	ID    string
	Tier  string
	Seed  int64
	Level string

	start time.Time
	mu    sync.Mutex

	evals        int64
	distinct     map[uint64]struct{}
	samples      []interface{}
	maxSamples   int
	counters     map[string]int64
	sets         map[string]map[string]struct{}
	violations   int
	knownHit     map[string]int
	inconclusive int64
	broken       []string
	notes        map[string]interface{}
	known        []Known
	childViols   []childViolation
	childNew     int
	childOut     string
}

type Known struct {
	Property string `json:"property"`
	Key      string `json:"key"`
	What     string `json:"what"`
}

type knownFile struct {
	Findings []Known  `json:"findings"`
	Fixed    []string `json:"fixed"`
}

func Tier() string {
	t := os.Getenv("VERIF_TIER")
	if t != "thorough" {
		t = "quick"
	}
	return t
}

func Thorough() bool { return Tier() == "thorough" }

func Seed() int64 {
	s, err := strconv.ParseInt(os.Getenv("VERIF_SEED"), 10, 64)
	if err != nil {
		return 1
	}
	return s
}

// N picks the tier-dependent count.
func N(quick, thorough int) int {
	if Thorough() {
		return thorough
	}
	return quick
}

func Start(id, level string) *Run {
	r := &Run{ID: id, Tier: Tier(), Seed: Seed(), Level: level, start: time.Now(),
		distinct: map[uint64]struct{}{}, counters: map[string]int64{}, sets: map[string]map[string]struct{}{},
		knownHit: map[string]int{}, notes: map[string]interface{}{}, maxSamples: 6}
	r.childOut = os.Getenv("VERIF_CHILD_OUT")
	vt.OnBusy = func(fn, frame, dump string) {
		if i := strings.LastIndex(fn, "/"); i >= 0 {
			fn = fn[i+1:]
		}
		if strings.Contains(frame, "[run") {
			r.Violation(r.ID+"/busy-loop/"+fn, fmt.Sprintf("the stack never goes idle: for two minutes the harness saw no activity, and two goroutine dumps five seconds apart show the same goroutine running in %s (%s) - the code under test spins", fn, frame), map[string]interface{}{"function": fn, "frame": frame})
		} else {
			r.Violation(r.ID+"/stuck-on-lock/"+fn, fmt.Sprintf("for two minutes the harness saw no activity while a goroutine of the code under test waits for a lock in %s (%s): whoever holds it is itself waiting - nothing can proceed", fn, frame), map[string]interface{}{"function": fn, "frame": frame})
		}
		os.Exit(r.Finish("(aborted: the code under test does not come to rest)", nil))
	}
	if b, err := os.ReadFile(filepath.Join(VerifDir, "known_findings.json")); err == nil {
		var kf knownFile
		if json.Unmarshal(b, &kf) == nil {
			for _, k := range kf.Findings {
				if k.Property == id {
					r.known = append(r.known, k)
				}
			}
		}
	}
	return r
}

func Hash(parts ...interface{}) uint64 {
	h := fnv.New64a()
	for _, p := range parts {
		fmt.Fprintf(h, "%v|", p)
	}
	return h.Sum64()
}

// Case records one evaluated case; sig identifies it among the non-trivial
// ones (pass nontrivial=false for cases in which the oracle had nothing to
// judge).
func (r *Run) Case(sig uint64, nontrivial bool) {
	r.mu.Lock()
	r.evals++
	if nontrivial {
		r.distinct[sig] = struct{}{}
	}
	r.mu.Unlock()
}

// Cases records n evaluated cases of which d were distinct and non-trivial
// (counted by the caller, e.g. a child process).
func (r *Run) AddEvals(n int64) {
	r.mu.Lock()
	r.evals += n
	r.mu.Unlock()
}

func (r *Run) Distinct(sig uint64) {
	r.mu.Lock()
	r.distinct[sig] = struct{}{}
	r.mu.Unlock()
}

func (r *Run) Sample(v interface{}) {
	r.mu.Lock()
	if len(r.samples) < r.maxSamples {
		r.samples = append(r.samples, v)
	}
	r.mu.Unlock()
}

func (r *Run) Count(name string, n int64) {
	r.mu.Lock()
	r.counters[name] += n
	r.mu.Unlock()
}

func (r *Run) Counter(name string) int64 {
	r.mu.Lock()
	defer r.mu.Unlock()
	return r.counters[name]
}

// Seen adds a member to a named set; the evidence reports the set sizes
// ("distinct states/orderings actually observed").
func (r *Run) Seen(set, member string) {
	r.mu.Lock()
	m := r.sets[set]
	if m == nil {
		m = map[string]struct{}{}
		r.sets[set] = m
	}
	m[member] = struct{}{}
	r.mu.Unlock()
}

func (r *Run) Note(k string, v interface{}) {
	r.mu.Lock()
	r.notes[k] = v
	r.mu.Unlock()
}

func (r *Run) Inconclusive(why string) {
	r.mu.Lock()
	r.inconclusive++
	r.counters["inconclusive:"+why]++
	r.mu.Unlock()
}

// Broken marks the check itself as defective (harness failure, oracle saw
// nothing): exit code 2.
func (r *Run) Broken(why string) {
	r.mu.Lock()
	if len(r.broken) < 20 {
		r.broken = append(r.broken, why)
	}
	r.mu.Unlock()
	fmt.Printf("BROKEN check=%s %s\n", r.ID, why)
}

// Violation reports a refutation. key names the failing input class / call
// site / history shape; it is matched against known_findings.json.
func (r *Run) Violation(key, what string, replay interface{}) {
	r.mu.Lock()
	defer r.mu.Unlock()
	if r.childOut != "" {
		for _, k := range r.known {
			if k.Key == key {
				// forwarded once so that the parent prints KNOWN-FINDING; does not count
				if r.knownHit[key] == 0 {
					r.childViols = append(r.childViols, childViolation{key, what, nil})
				}
				r.knownHit[key]++
				return
			}
		}
		if len(r.childViols) < 50 {
			r.childViols = append(r.childViols, childViolation{key, what, replay})
			if r.childNew < 5 {
				r.dumpChildAs(r.childOut, false)
			}
		}
		r.childNew++
		return
	}
	for _, k := range r.known {
		if k.Key == key {
			if r.knownHit[key] == 0 {
				fmt.Printf("KNOWN-FINDING: property=%s %s [%s]\n", r.ID, k.What, key)
			}
			r.knownHit[key]++
			return
		}
	}
	r.violations++
	if r.violations > 5 {
		return
	}
	dir := filepath.Join(VerifDir, "replays")
	os.MkdirAll(dir, 0o755)
	safe := strings.Map(func(c rune) rune {
		if c >= 'a' && c <= 'z' || c >= 'A' && c <= 'Z' || c >= '0' && c <= '9' || c == '-' || c == '.' {
			return c
		}
		return '_'
	}, key)
	if len(safe) > 80 {
		safe = safe[:80]
	}
	path := filepath.Join(dir, fmt.Sprintf("%s-%d-%s-%d.json", r.ID, r.Seed, safe, r.violations))
	b, _ := json.MarshalIndent(map[string]interface{}{"property": r.ID, "key": key, "what": what, "seed": r.Seed, "tier": r.Tier, "replay": replay}, "", " ")
	os.WriteFile(path, b, 0o644)
	fmt.Printf("VIOLATION property=%s replay=%s\n", r.ID, path)
	fmt.Printf("  what: %s\n", what)
}

func (r *Run) Violations() int {
	r.mu.Lock()
	defer r.mu.Unlock()
	return r.violations + r.childNew
}

// Finish writes the evidence file and returns the process exit code.
// PreFinish hooks run at the start of Finish (child or parent), before results are written;
// harness packages register process-wide monitors here (e.g. wire's header-reuse monitor).
var PreFinish []func(r *Run)

func (r *Run) Finish(rule string, assumptions []string) int {
	for _, f := range PreFinish {
		f(r)
	}
	r.mu.Lock()
	defer r.mu.Unlock()
	if r.childOut != "" {
		r.dumpChild(r.childOut)
		return 0
	}
	cov := map[string]interface{}{
		"evaluations":         r.evals,
		"distinct_nontrivial": len(r.distinct),
		"rule":                rule,
		"samples":             r.samples,
		"inconclusive":        r.inconclusive,
	}
	obs := map[string]interface{}{}
	keys := make([]string, 0, len(r.counters))
	for k := range r.counters {
		keys = append(keys, k)
	}
	sort.Strings(keys)
	for _, k := range keys {
		obs[k] = r.counters[k]
	}
	for k, m := range r.sets {
		obs["distinct:"+k] = len(m)
	}
	cov["observed"] = obs
	for k, v := range r.notes {
		cov[k] = v
	}
	if len(r.knownHit) > 0 {
		cov["known_findings_hit"] = r.knownHit
	}
	if len(r.broken) > 0 {
		cov["broken"] = r.broken
	}
	if len(r.samples) == 0 {
		cov["samples"] = []interface{}{"(none recorded)"}
	}
	ev := map[string]interface{}{
		"property_id": r.ID,
		"tier":        r.Tier,
		"seed":        r.Seed,
		"level":       r.Level,
		"coverage":    cov,
		"assumptions": assumptions,
		"wall_s":      time.Since(r.start).Seconds(),
		"violations":  r.violations,
	}
	b, _ := json.MarshalIndent(ev, "", " ")
	os.MkdirAll(filepath.Join(VerifDir, "evidence"), 0o755)
	if err := os.WriteFile(filepath.Join(VerifDir, "evidence", r.ID+".json"), b, 0o644); err != nil {
		fmt.Printf("BROKEN check=%s cannot write evidence: %v\n", r.ID, err)
		return 2
	}
	fmt.Printf("check=%s tier=%s seed=%d evaluations=%d distinct_nontrivial=%d violations=%d known=%d inconclusive=%d wall=%.1fs\n",
		r.ID, r.Tier, r.Seed, r.evals, len(r.distinct), r.violations, len(r.knownHit), r.inconclusive, time.Since(r.start).Seconds())
	if r.violations > 0 {
		return 1
	}
	if len(r.broken) > 0 {
		return 2
	}
	if r.evals == 0 || len(r.distinct) < 2 {
		fmt.Printf("BROKEN check=%s observed nothing to judge\n", r.ID)
		return 2
	}
	return 0
}

// ---------------------------------------------------------------------------
// PRNG: splitmix64, splittable by label.

type Rand struct{ s uint64 }

func NewRand(seed int64, labels ...interface{}) *Rand {
	return &Rand{s: uint64(seed)*0x9E3779B97F4A7C15 ^ Hash(labels...)}
}

func (r *Rand) U64() uint64 {
	r.s += 0x9E3779B97F4A7C15
	z := r.s
	z = (z ^ (z >> 30)) * 0xBF58476D1CE4E5B9
	z = (z ^ (z >> 27)) * 0x94D049BB133111EB
	return z ^ (z >> 31)
}
func (r *Rand) U32() uint32 { return uint32(r.U64() >> 32) }
func (r *Rand) Intn(n int) int {
	if n <= 0 {
		return 0
	}
	return int(r.U64() % uint64(n))
}
func (r *Rand) Range(lo, hi int) int     { return lo + r.Intn(hi-lo+1) } // inclusive
func (r *Rand) Bool() bool               { return r.U64()&1 == 1 }
func (r *Rand) Chance(num, den int) bool { return r.Intn(den) < num }
func (r *Rand) Bytes(n int) []byte {
	b := make([]byte, n)
	for i := 0; i < n; i += 8 {
		v := r.U64()
		for j := 0; j < 8 && i+j < n; j++ {
			b[i+j] = byte(v >> (8 * uint(j)))
		}
	}
	return b
}
func (r *Rand) Split(labels ...interface{}) *Rand {
	return &Rand{s: r.U64() ^ Hash(labels...)}
}
func (r *Rand) Perm(n int) []int {
	p := make([]int, n)
	for i := range p {
		p[i] = i
	}
	for i := n - 1; i > 0; i-- {
		j := r.Intn(i + 1)
		p[i], p[j] = p[j], p[i]
	}
	return p
}
