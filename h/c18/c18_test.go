package c18

import (
	"encoding/json"
	"fmt"
	"os"
	"runtime"
	"strings"
	"sync"
	"sync/atomic"
	"testing"
	"time"

	"github.com/anishathalye/porcupine"
	"github.com/brewlin/net-protocol/pkg/tmutex"
	"verifh/fw"
	"verifh/hist"
	"verifh/sched"
)

var run *fw.Run

const ptCS = 100 // harness point inside the critical section

var ctls sync.Map   // *tmutex.Mutex -> *sched.Ctl   (controlled mode)
var stress sync.Map // *tmutex.Mutex -> *stressCfg   (stress mode)

type stressCfg struct {
	seed uint64
	ctr  uint64
	hot  int // point id that gets the long delays
}

func hook(id int, m *tmutex.Mutex) {
	if c, ok := ctls.Load(m); ok {
		c.(*sched.Ctl).Yield(id, m)
		return
	}
	if s, ok := stress.Load(m); ok {
		cfg := s.(*stressCfg)
		n := atomic.AddUint64(&cfg.ctr, 1)
		z := (cfg.seed + n) * 0x9E3779B97F4A7C15
		z ^= z >> 29
		switch {
		case z%7 == 0:
			runtime.Gosched()
		case z%11 == 0 || (id == cfg.hot && z%3 == 0):
			for i := 0; i < int(z>>40%400); i++ {
				runtime.Gosched()
			}
		case z%97 == 0:
			time.Sleep(time.Duration(z>>50%50) * time.Microsecond)
		}
	}
}

// ---- controlled (S-CS) ------------------------------------------------------

type env struct {
	m          tmutex.Mutex
	occ        int
	inLock     []bool
	inTry      []bool
	inUnlock   []bool
	steps      []int // steps taken per worker
	tryOwn     []int // schedule points passed inside the current TryLock call
	viol       string
	statesSeen map[uint64]struct{}
}

func mk(progs []string) (*sched.Ctl, *env) {
	e := &env{inLock: make([]bool, len(progs)), inTry: make([]bool, len(progs)), inUnlock: make([]bool, len(progs)), steps: make([]int, len(progs)), tryOwn: make([]int, len(progs))}
	e.m.Init()
	var fs []func(w *sched.Worker)
	var c *sched.Ctl
	for _, p := range progs {
		p := p
		fs = append(fs, func(w *sched.Worker) {
			held := false
			enter := func() {
				e.occ++
				if e.occ > 1 {
					e.viol = fmt.Sprintf("two holders at once (worker %d entered while another holds the mutex)", w.ID)
				}
				held = true
				c.Yield(ptCS, &e.m)
			}
			for _, op := range p {
				switch op {
				case 'L':
					e.inLock[w.ID] = true
					e.m.Lock()
					e.inLock[w.ID] = false
					enter()
				case 'T':
					free := e.occ == 0
					for i := range e.inLock {
						if i != w.ID && (e.inLock[i] || e.inTry[i] || e.inUnlock[i]) {
							free = false
						}
					}
					others := 0
					for i, s := range e.steps {
						if i != w.ID {
							others += s
						}
					}
					e.tryOwn[w.ID] = 0
					e.inTry[w.ID] = true
					ok := e.m.TryLock()
					e.inTry[w.ID] = false
					after := 0
					for i, s := range e.steps {
						if i != w.ID {
							after += s
						}
					}
					if ok {
						enter()
					} else if free && after == others {
						e.viol = fmt.Sprintf("TryLock by worker %d returned false although the mutex was free and no other operation overlapped it", w.ID)
					}
				case 'U':
					if held {
						e.inUnlock[w.ID] = true
						e.occ--
						held = false
						e.m.Unlock()
						e.inUnlock[w.ID] = false
					}
				}
			}
		})
	}
	c = sched.New(fs)
	c.Enabled = func(w *sched.Worker) bool {
		if w.Point == tmutex.VerifPtLockRecv {
			_, tokens := e.m.VerifState()
			return tokens > 0
		}
		return true
	}
	c.AfterStep = func(c *sched.Ctl, w *sched.Worker) string {
		e.steps[w.ID]++
		if e.inTry[w.ID] {
			// TryLock is a load and a compare-and-swap: two schedule points. One that keeps
			// passing points is waiting for somebody else - it blocks.
			if e.tryOwn[w.ID]++; e.tryOwn[w.ID] > 8 && e.viol == "" {
				e.viol = fmt.Sprintf("TryLock by worker %d has passed %d schedule points without returning (a load and a compare-and-swap are two): it waits for another goroutine", w.ID, e.tryOwn[w.ID])
			}
		}
		if e.statesSeen != nil {
			v, t := e.m.VerifState()
			h := fw.Hash(v, t, e.occ)
			for _, x := range c.Workers {
				h = h*1099511628211 ^ uint64(x.Point+1)
				if x.Done {
					h ^= 0x5555
				}
			}
			e.statesSeen[h] = struct{}{}
		}
		return e.viol
	}
	ctls.Store(&e.m, c)
	return c, e
}

type replayDoc struct {
	Progs     []string `json:"programs"`
	Decisions []int    `json:"decisions"`
	Mode      string   `json:"mode"`
}

type exploreStats struct {
	execs     int64
	complete  bool
	states    map[uint64]struct{}
	deadlocks int64
	maxSteps  int
}

// explore runs a (possibly partitioned, possibly capped) DFS of one program set.
func explore(progs []string, cap int64, workers int) exploreStats {
	st := exploreStats{states: map[uint64]struct{}{}, complete: true}
	mkc := func(states map[uint64]struct{}) func() *sched.Ctl {
		return func() *sched.Ctl {
			c, e := mk(progs)
			e.statesSeen = states
			return c
		}
	}
	_ = mkc
	var mu sync.Mutex
	var reported int32
	visitFor := func(states map[uint64]struct{}, local *exploreStats) func(r sched.Result) bool {
		return func(r sched.Result) bool {
			if r.Steps > local.maxSteps {
				local.maxSteps = r.Steps
			}
			if r.Deadlock {
				local.deadlocks++
				if atomic.AddInt32(&reported, 1) <= 2 {
					run.Violation("C18/controlled/lost-wakeup", fmt.Sprintf("programs %v: after %d steps no goroutine can run: every unfinished goroutine is parked in Lock's channel receive, the channel is empty and nobody holds the mutex", progs, r.Steps), replayDoc{progs, r.Decisions, "controlled"})
				}
			}
			if r.Violation != "" {
				if atomic.AddInt32(&reported, 1) <= 2 {
					key := "C18/controlled/mutual-exclusion"
					if strings.Contains(r.Violation, "without returning") {
						key = "C18/controlled/trylock-blocks"
					} else if strings.Contains(r.Violation, "TryLock") {
						key = "C18/controlled/trylock-free-uncontended"
					} else if strings.Contains(r.Violation, "panicked") {
						key = "C18/controlled/panic"
					}
					run.Violation(key, fmt.Sprintf("programs %v: %s", progs, r.Violation), replayDoc{progs, r.Decisions, "controlled"})
				}
			}
			if r.Truncated {
				run.Count("controlled_truncated_executions", 1)
			}
			return atomic.LoadInt32(&reported) < 2 // two witnesses per program are enough
		}
	}
	const maxSteps = 400
	// partition by prefixes of depth 4
	var prefixes [][]int
	if workers > 1 {
		prefixes = sched.Prefixes(func() *sched.Ctl { c, _ := mk(progs); return c }, 4, maxSteps)
	} else {
		prefixes = [][]int{nil}
	}
	var wg sync.WaitGroup
	sem := make(chan struct{}, workers)
	per := cap
	if cap > 0 {
		per = cap/int64(len(prefixes)) + 1
	}
	for _, pf := range prefixes {
		pf := pf
		wg.Add(1)
		sem <- struct{}{}
		go func() {
			defer wg.Done()
			defer func() { <-sem }()
			states := map[uint64]struct{}{}
			local := exploreStats{}
			var made []*tmutex.Mutex
			n, complete := sched.DFS(func() *sched.Ctl {
				c, e := mk(progs)
				e.statesSeen = states
				made = append(made, &e.m)
				if len(made) > 64 {
					for _, m := range made[:32] {
						ctls.Delete(m)
					}
					made = append([]*tmutex.Mutex(nil), made[32:]...)
				}
				return c
			}, pf, maxSteps, per, visitFor(states, &local))
			for _, m := range made {
				ctls.Delete(m)
			}
			mu.Lock()
			st.execs += n
			if !complete {
				st.complete = false
			}
			for s := range states {
				st.states[s] = struct{}{}
			}
			st.deadlocks += local.deadlocks
			if local.maxSteps > st.maxSteps {
				st.maxSteps = local.maxSteps
			}
			mu.Unlock()
		}()
	}
	wg.Wait()
	return st
}

// randomSchedules samples schedules of a larger program with seeded random choices.
func randomSchedules(progs []string, n int, seedLabel string) (int64, map[uint64]struct{}) {
	states := map[uint64]struct{}{}
	var mu sync.Mutex
	var wg sync.WaitGroup
	var execs int64
	var reported int32
	for w := 0; w < 16; w++ {
		w := w
		wg.Add(1)
		go func() {
			defer wg.Done()
			local := map[uint64]struct{}{}
			sigs := map[uint64]struct{}{}
			for i := w; i < n; i += 16 {
				r := fw.NewRand(run.Seed, "C18", seedLabel, i)
				c, e := mk(progs)
				e.statesSeen = local
				// PCT-flavoured: a random priority order with a few random change points
				prio := r.Perm(len(progs))
				change := map[int]bool{}
				for k := 0; k < 3; k++ {
					change[r.Intn(60)] = true
				}
				res := c.Run(func(step, nn int) int {
					if change[step] {
						prio = r.Perm(len(progs))
					}
					if r.Chance(1, 4) {
						return r.Intn(nn)
					}
					return prio[0] % nn
				}, 600)
				ctls.Delete(&e.m)
				atomic.AddInt64(&execs, 1)
				sigs[fw.Hash(res.Decisions)] = struct{}{}
				if res.Deadlock && atomic.AddInt32(&reported, 1) <= 2 {
					run.Violation("C18/controlled/lost-wakeup", fmt.Sprintf("programs %v: no goroutine can run after %d steps (random schedule)", progs, res.Steps), replayDoc{progs, res.Decisions, "controlled"})
				}
				if res.Violation != "" && atomic.AddInt32(&reported, 1) <= 2 {
					run.Violation("C18/controlled/violation", fmt.Sprintf("programs %v: %s", progs, res.Violation), replayDoc{progs, res.Decisions, "controlled"})
				}
			}
			mu.Lock()
			for s := range local {
				states[s] = struct{}{}
			}
			for s := range sigs {
				run.Distinct(s)
			}
			mu.Unlock()
		}()
	}
	wg.Wait()
	return execs, states
}

func controlled() {
	type job struct {
		progs []string
		cap   int64 // 0 = unbounded (exhaustive)
	}
	jobs := []job{
		{[]string{"LU", "LU"}, 0},
		{[]string{"LU", "TU"}, 0},
		{[]string{"TU", "TU"}, 0},
		{[]string{"LU", "LU", "LU"}, 0},
		{[]string{"LU", "LU", "TU"}, 0},
		{[]string{"LU", "TU", "TU"}, 0},
		{[]string{"LULU", "LU"}, int64(fw.N(60000, 0))},
		{[]string{"LUTU", "LU"}, int64(fw.N(40000, 0))},
		{[]string{"TULU", "LUTU"}, int64(fw.N(40000, 3000000))},
		{[]string{"LULU", "LULU"}, int64(fw.N(40000, 5000000))},
		{[]string{"LU", "LU", "LU", "LU"}, int64(fw.N(60000, 6000000))},
		{[]string{"LU", "LU", "LU", "TU"}, int64(fw.N(40000, 4000000))},
	}
	allStates := map[uint64]struct{}{}
	for _, j := range jobs {
		t0 := time.Now()
		st := explore(j.progs, j.cap, runtime.NumCPU())
		for s := range st.states {
			allStates[s] = struct{}{}
		}
		run.AddEvals(st.execs)
		name := strings.Join(j.progs, "|")
		run.Count("schedules:"+name, st.execs)
		if st.complete {
			run.Count("programs_explored_exhaustively", 1)
			run.Seen("exhaustive_programs", name)
		}
		// every DFS execution is a distinct decision sequence
		for i := int64(0); i < st.execs && i < 50000; i++ {
			run.Distinct(fw.Hash(name, i))
		}
		run.Note("t:"+name, fmt.Sprintf("%.1fs execs=%d complete=%v states=%d maxsteps=%d", time.Since(t0).Seconds(), st.execs, st.complete, len(st.states), st.maxSteps))
	}
	for _, p := range [][]string{{"LULU", "LU", "TULU", "LU"}, {"LU", "LU", "LU", "LU", "LU"}, {"LUTU", "TULU", "LULU"}} {
		n, states := randomSchedules(p, fw.N(8000, 800000), strings.Join(p, "|"))
		run.AddEvals(n)
		run.Count("random_schedules:"+strings.Join(p, "|"), n)
		for s := range states {
			allStates[s] = struct{}{}
		}
	}
	run.Count("distinct_abstract_states(v,tokens,occupancy,points)", int64(len(allStates)))
	run.Sample(replayDoc{[]string{"LU", "LU"}, []int{0, 0, 1, 1, 0, 0}, "controlled (decision = index among enabled workers at each step)"})
}

// ---- stress (S-RT, -race) ---------------------------------------------------

type sin struct {
	Op string
}

var mutexModel = porcupine.Model{
	Init: func() interface{} { return false },
	Step: func(st, in, out interface{}) (bool, interface{}) {
		locked := st.(bool)
		switch in.(sin).Op {
		case "L":
			return !locked, true
		case "U":
			return locked, false
		default: // T
			if out.(bool) {
				return !locked, true
			}
			return true, locked
		}
	},
	DescribeOperation: func(in, out interface{}) string { return fmt.Sprintf("%s->%v", in.(sin).Op, out) },
}

// manyMutexes: mutexes are independent of each other. A block of adjacent mutexes is held,
// each with one goroutine asleep in Lock; a PRNG subset is unlocked while the others stay
// held. Every waiter of an unlocked mutex must get in. Lost wake-up = the mutex is free
// (word 1), no token is queued for it, and the goroutine dump shows its waiter still in
// the channel receive of Lock - nobody is left who would wake it.
func manyMutexes(i int) {
	r := fw.NewRand(run.Seed, "C18", "many", i)
	n := 16 + r.Intn(113)
	ms := make([]tmutex.Mutex, n)
	acquired := make([]int32, n)
	release := make(chan struct{})
	var wg sync.WaitGroup
	for j := range ms {
		ms[j].Init()
		ms[j].Lock()
	}
	for j := range ms {
		j := j
		wg.Add(1)
		go func() {
			defer wg.Done()
			ms[j].Lock()
			atomic.StoreInt32(&acquired[j], 1)
			<-release
			ms[j].Unlock()
		}()
	}
	dump := func() string {
		buf := make([]byte, 16<<20)
		return string(buf[:runtime.Stack(buf, true)])
	}
	asleep := func(d string, j int) bool {
		me := strings.ToLower(fmt.Sprintf("%p", &ms[j]))
		for _, blk := range strings.Split(d, "\n\n") {
			if strings.Contains(blk, "[chan receive") && strings.Contains(blk, "tmutex.(*Mutex).Lock("+me) {
				return true
			}
		}
		return false
	}
	// wait until every waiter sleeps
	deadline := time.Now().Add(30 * time.Second)
	for {
		d := dump()
		all := true
		for j := range ms {
			if !asleep(d, j) {
				all = false
				break
			}
		}
		if all {
			break
		}
		if time.Now().After(deadline) {
			run.Inconclusive("many-mutexes-setup-watchdog")
			close(release)
			for j := range ms {
				ms[j].Unlock()
			}
			return
		}
		time.Sleep(2 * time.Millisecond)
	}
	opened := map[int]bool{}
	for j := range ms {
		if r.Bool() {
			opened[j] = true
			ms[j].Unlock()
		}
	}
	lost := -1
	deadline = time.Now().Add(30 * time.Second)
	for {
		pending := 0
		for j := range opened {
			if atomic.LoadInt32(&acquired[j]) == 0 {
				pending++
			}
		}
		if pending == 0 {
			break
		}
		d := dump()
		for j := range opened {
			if atomic.LoadInt32(&acquired[j]) == 0 {
				if v, tokens := ms[j].VerifState(); v == 1 && tokens == 0 && asleep(d, j) && atomic.LoadInt32(&acquired[j]) == 0 {
					lost = j
				}
			}
		}
		if lost >= 0 || time.Now().After(deadline) {
			break
		}
		time.Sleep(2 * time.Millisecond)
	}
	run.Count("many_mutexes_rounds", 1)
	run.Count("many_mutexes_waiters_released", int64(len(opened)))
	run.Case(fw.Hash("many", n/16, len(opened)/8), len(opened) > 0)
	if lost >= 0 {
		run.Violation("C18/stress/lost-wakeup-among-many-mutexes", fmt.Sprintf("%d adjacent mutexes, each held with one goroutine asleep in Lock; %d of them were unlocked: mutex #%d is free (word 1), no token is queued for it, and its waiter still sleeps in Lock's channel receive", n, len(opened), lost), map[string]interface{}{"round": i, "mutexes": n})
		return // the sleeping goroutines are leaked
	}
	close(release)
	for j := range ms {
		if !opened[j] {
			ms[j].Unlock()
		}
	}
	// the rest must get through as well; a waiter that stays asleep on a free mutex without
	// a token is lost here too (never wait for it unconditionally)
	fin := make(chan struct{})
	go func() { wg.Wait(); close(fin) }()
	deadline = time.Now().Add(30 * time.Second)
	for {
		select {
		case <-fin:
			return
		case <-time.After(20 * time.Millisecond):
		}
		d := dump()
		for j := range ms {
			if atomic.LoadInt32(&acquired[j]) == 0 {
				if v, tokens := ms[j].VerifState(); v == 1 && tokens == 0 && asleep(d, j) && atomic.LoadInt32(&acquired[j]) == 0 {
					run.Violation("C18/stress/lost-wakeup-among-many-mutexes", fmt.Sprintf("%d adjacent mutexes, each held with one goroutine asleep in Lock; all were unlocked: mutex #%d is free (word 1), no token is queued for it, and its waiter still sleeps in Lock's channel receive", n, j), map[string]interface{}{"round": i, "mutexes": n})
					return // the sleeping goroutine is leaked
				}
			}
		}
		if time.Now().After(deadline) {
			run.Inconclusive("many-mutexes-release-watchdog")
			return
		}
	}
}

func stressPhase() {
	for i := 0; i < fw.N(12, 400) && run.Violations() < 3; i++ {
		manyMutexes(i)
	}
	n := fw.N(4000, 300000)
	var wg sync.WaitGroup
	sem := make(chan struct{}, 4)
	var mu sync.Mutex
	for i := 0; i < n; i++ {
		i := i
		if run.Violations() >= 3 {
			break // enough witnesses; hung histories leak goroutines
		}
		wg.Add(1)
		sem <- struct{}{}
		go func() {
			defer wg.Done()
			defer func() { <-sem }()
			r := fw.NewRand(run.Seed, "C18", "stress", i)
			var m tmutex.Mutex
			m.Init()
			cfg := &stressCfg{seed: r.U64(), hot: 1 + r.Intn(7)}
			stress.Store(&m, cfg)
			defer stress.Delete(&m)
			g := 2 + r.Intn(15)
			if i%4 != 0 {
				g = 2 + r.Intn(4)
			}
			rec := &hist.Recorder{}
			var occ, maxOcc int32
			var inflight int32
			var opseq int64
			var tryViol int32
			done := make([]int32, g)
			inLock := make([]int32, g)
			var hw sync.WaitGroup
			start := make(chan struct{})
			for c := 0; c < g; c++ {
				c := c
				rr := r.Split("w", c)
				hw.Add(1)
				go func() {
					defer hw.Done()
					defer atomic.StoreInt32(&done[c], 1)
					<-start
					// noteEnter runs right after a successful acquire, while this goroutine still
					// counts as in flight, so a holder is always visible as inflight>0 or occ>0.
					noteEnter := func() {
						o := atomic.AddInt32(&occ, 1)
						for {
							mo := atomic.LoadInt32(&maxOcc)
							if o <= mo || atomic.CompareAndSwapInt32(&maxOcc, mo, o) {
								break
							}
						}
					}
					for k := 0; k < 2+rr.Intn(3); k++ {
						held := false
						if rr.Chance(1, 3) {
							seq0 := atomic.LoadInt64(&opseq)
							infl0 := atomic.LoadInt32(&inflight)
							occ0 := atomic.LoadInt32(&occ)
							atomic.AddInt32(&inflight, 1)
							atomic.AddInt64(&opseq, 1)
							ok := rec.Do(c, sin{"T"}, func() interface{} { return m.TryLock() }).(bool)
							if ok {
								noteEnter()
							}
							atomic.AddInt32(&inflight, -1)
							if !ok && infl0 == 0 && occ0 == 0 && atomic.LoadInt64(&opseq) == seq0+1 && atomic.LoadInt32(&occ) == 0 {
								atomic.StoreInt32(&tryViol, 1)
							}
							held = ok
						} else {
							atomic.AddInt32(&inflight, 1)
							atomic.AddInt64(&opseq, 1)
							atomic.StoreInt32(&inLock[c], 1)
							rec.Do(c, sin{"L"}, func() interface{} { m.Lock(); return true })
							atomic.StoreInt32(&inLock[c], 0)
							noteEnter()
							atomic.AddInt32(&inflight, -1)
							held = true
						}
						if held {
							if rr.Chance(1, 2) {
								runtime.Gosched()
							}
							atomic.AddInt32(&inflight, 1)
							atomic.AddInt64(&opseq, 1)
							atomic.AddInt32(&occ, -1)
							rec.Do(c, sin{"U"}, func() interface{} { m.Unlock(); return true })
							atomic.AddInt32(&inflight, -1)
						}
					}
				}()
			}
			close(start)
			fin := make(chan struct{})
			go func() { hw.Wait(); close(fin) }()
			// Decide a hang from state, not from the clock: every unfinished worker is
			// inside Lock, every other worker has finished, nobody holds the mutex, no
			// token is queued and the goroutine dump shows exactly those workers blocked
			// in the channel receive of this mutex => nobody is left who could wake them.
			stuck := func() (bool, int, int32) {
				allInLock, unfinished := true, 0
				for c := 0; c < g; c++ {
					if atomic.LoadInt32(&done[c]) == 0 {
						unfinished++
						if atomic.LoadInt32(&inLock[c]) == 0 {
							allInLock = false
						}
					}
				}
				v, tokens := m.VerifState()
				if !allInLock || unfinished == 0 || atomic.LoadInt32(&occ) != 0 || tokens != 0 {
					return false, unfinished, v
				}
				buf := make([]byte, 4<<20)
				buf = buf[:runtime.Stack(buf, true)]
				parked := 0
				me := fmt.Sprintf("%p", &m)
				for _, blk := range strings.Split(string(buf), "\n\n") {
					if strings.Contains(blk, "[chan receive") && strings.Contains(blk, "tmutex.(*Mutex).Lock("+strings.ToLower(me)) {
						parked++
					}
				}
				return parked == unfinished, unfinished, v
			}
			hung, lost := false, false
			var lostN int
			var lostV int32
			deadline := time.After(30 * time.Second)
			tick := time.NewTicker(100 * time.Millisecond)
		wait:
			for {
				select {
				case <-fin:
					break wait
				case <-deadline:
					hung = true
					break wait
				case <-tick.C:
					if ok, n, v := stuck(); ok {
						lost, lostN, lostV = true, n, v
						break wait
					}
				}
			}
			tick.Stop()
			mu.Lock()
			defer mu.Unlock()
			run.Count("stress_histories", 1)
			if lost {
				run.Violation("C18/stress/lost-wakeup", fmt.Sprintf("%d goroutines blocked in Lock's channel receive for good: mutex word %d, no token queued, no holder, every other goroutine has finished", lostN, lostV), map[string]interface{}{"history": i, "goroutines": g})
				return
			}
			if hung {
				run.Inconclusive("stress-watchdog")
				return
			}
			ops := rec.Ops()
			ov := hist.Overlaps(ops)
			run.Case(fw.Hash(hist.OrderSignature(ops)), ov > 0)
			run.Count("stress_overlapping_op_pairs", int64(ov))
			if maxOcc > 1 {
				run.Violation("C18/stress/mutual-exclusion", fmt.Sprintf("%d goroutines inside the critical section at once", maxOcc), describe(ops))
			}
			if tryViol != 0 {
				run.Violation("C18/stress/trylock-free-uncontended", "TryLock returned false with no holder and no overlapping operation", describe(ops))
			}
			if len(ops) <= 40 {
				switch hist.Check(mutexModel, ops, 30*time.Second) {
				case "illegal":
					run.Violation("C18/stress/not-linearizable", "Lock/TryLock/Unlock history is not linearizable against a boolean lock", describe(ops))
				case "unknown":
					run.Inconclusive("porcupine-timeout")
				default:
					run.Count("stress_histories_linearizability_checked", 1)
				}
			}
		}()
	}
	wg.Wait()
}

func describe(ops []porcupine.Operation) []string {
	var s []string
	for _, o := range ops {
		s = append(s, fmt.Sprintf("g%d [%d,%d] %s -> %v", o.ClientId, o.Call, o.Return, o.Input.(sin).Op, o.Output))
	}
	return s
}

func replay(path string) {
	var doc struct {
		Replay replayDoc `json:"replay"`
	}
	b, err := os.ReadFile(path)
	if err != nil || json.Unmarshal(b, &doc) != nil || len(doc.Replay.Progs) == 0 {
		fmt.Println("cannot read replay (only controlled-mode replays are deterministic):", path)
		os.Exit(2)
	}
	c, e := mk(doc.Replay.Progs)
	d := doc.Replay.Decisions
	res := c.Run(func(step, n int) int {
		if step < len(d) && d[step] < n {
			return d[step]
		}
		return 0
	}, 1000)
	_ = e
	if res.Deadlock || res.Violation != "" {
		fmt.Printf("VIOLATION property=C18 replay=%s\n  what: deadlock=%v %s after %d steps\n", path, res.Deadlock, res.Violation, res.Steps)
		os.Exit(1)
	}
	fmt.Println("replay: held")
	os.Exit(0)
}

func TestC18(t *testing.T) {
	tmutex.VerifPoint = hook
	run = fw.Start("C18", "exploration")
	if p := os.Getenv("VERIF_REPLAY"); p != "" {
		replay(p)
	}
	if fw.IsChild() {
		stressPhase()
		os.Exit(run.Finish("", nil))
	}
	controlled()
	res := run.RunChild(fw.ChildSpec{Bin: os.Getenv("VERIF_BIN_RACE"), Test: "^TestC18$", Tag: "race", Race: true, Anchors: []string{"pkg/tmutex/"}})
	if !res.Done {
		run.ChildCrashed(res, "C18/stress", "stress phase")
	}
	code := run.Finish("controlled: goroutines are gated at the 7 verif schedule points of tmutex (one runs at a time; a goroutine before the channel receive is enabled iff a token is queued); all decision sequences are enumerated depth-first for the small programs (L=Lock,U=Unlock,T=TryLock; see exhaustive_programs), capped DFS and seeded random-priority schedules for the larger ones; verdicts: occupancy>1, deadlock (= no enabled goroutine while some Lock has not returned), TryLock false while free and un-overlapped. stress (-race build): 2-16 free-running goroutines with seeded Gosched/spin/sleep injected at the same points, occupancy counter, porcupine on each history, lost wake-up decided from state. distinct = decision sequences (capped per program in the count) + distinct stress interleaving signatures Later additions: The wait for the last waiters among many mutexes is bounded and decides a lost wake-up from state.",
		[]string{"in controlled mode the Load and Swap of Lock's re-check form one step (a point between them would have to rewrite an existing line); the stress mode pre-empts there", "programs never Unlock a mutex they do not hold and never Lock twice"})
	os.Exit(code)
}
