package c17

import (
	"bytes"
	"fmt"
	"os"
	"runtime"
	"strconv"
	"sync"
	"sync/atomic"
	"testing"
	"time"

	"github.com/anishathalye/porcupine"
	"github.com/brewlin/net-protocol/pkg/waiter"
	"verifh/fw"
	"verifh/hist"
)

var run *fw.Run

var masks = []waiter.EventMask{waiter.EventIn, waiter.EventOut, waiter.EventIn | waiter.EventOut, 0} // 0: registered, interested in nothing
var nmasks = []waiter.EventMask{waiter.EventIn, waiter.EventOut, waiter.EventIn | waiter.EventOut, waiter.EventErr}

type op struct {
	Kind  string `json:"k"` // reg unreg notify
	Entry int    `json:"e"`
	Mask  int    `json:"m"` // index into masks / nmasks
}

func goid() int64 {
	var buf [64]byte
	n := runtime.Stack(buf[:], false)
	b := buf[len("goroutine "):n]
	i := bytes.IndexByte(b, ' ')
	id, _ := strconv.ParseInt(string(b[:i]), 10, 64)
	return id
}

// collector attributes callbacks to the Notify call that ran them: the queue
// invokes callbacks synchronously on the notifier's goroutine.
type collector struct {
	mu     sync.Mutex
	byG    map[int64]*[]int
	lost   int64
	single bool // sequential mode: one goroutine, no attribution needed
	stamps *stampLog
}

func (c *collector) gid() int64 {
	if c.single {
		return 0
	}
	return goid()
}

func (c *collector) begin(out *[]int) {
	g := c.gid()
	c.mu.Lock()
	c.byG[g] = out
	c.mu.Unlock()
}
func (c *collector) end() {
	g := c.gid()
	c.mu.Lock()
	delete(c.byG, g)
	c.mu.Unlock()
}

type cb struct {
	id int
	c  *collector
}

// stamp, when set, records the logical time of every callback per entry.
type stampLog struct {
	rec *hist.Recorder
	mu  sync.Mutex
	at  map[int][]int64
}

func (x *cb) Callback(e *waiter.Entry) {
	if st := x.c.stamps; st != nil {
		t := st.rec.Now()
		st.mu.Lock()
		st.at[x.id] = append(st.at[x.id], t)
		st.mu.Unlock()
		if t%3 == 0 {
			runtime.Gosched() // a slow callback: widens any gap between selection and invocation
		}
	}
	g := x.c.gid()
	x.c.mu.Lock()
	out := x.c.byG[g]
	if out != nil {
		if len(*out) > 4096 {
			x.c.mu.Unlock()
			panic("runaway: one Notify produced more than 4096 callbacks")
		}
		*out = append(*out, x.id)
	} else {
		atomic.AddInt64(&x.c.lost, 1) // callback outside any Notify call
	}
	x.c.mu.Unlock()
}

// ---- sequential exhaustive ------------------------------------------------

func replaySeq(seq []op, nent int) (msg string) {
	var q waiter.Queue
	col := &collector{byG: map[int64]*[]int{}, single: true}
	ents := make([]waiter.Entry, nent)
	for i := range ents {
		ents[i] = waiter.Entry{Callback: &cb{i, col}}
	}
	ref := make([]waiter.EventMask, nent) // registered mask (may be empty: registered, interested in nothing)
	reg := make([]bool, nent)
	// structure walks the intrusive list from every registered entry with a step
	// bound: it must reach the end within nent steps and pass only registered entries.
	structure := func() string {
		idx := map[*waiter.Entry]int{}
		for i := range ents {
			idx[&ents[i]] = i
		}
		for i := range ents {
			if !reg[i] {
				continue
			}
			for _, dir := range []string{"next", "prev"} {
				cur := &ents[i]
				for steps := 0; ; steps++ {
					if steps > nent {
						return fmt.Sprintf("the queue's list has a cycle (following %s from entry %d)", dir, i)
					}
					var nx interface{}
					if dir == "next" {
						nx = cur.Next()
					} else {
						nx = cur.Prev()
					}
					e, _ := nx.(*waiter.Entry)
					if e == nil {
						break
					}
					j, known := idx[e]
					if !known || !reg[j] {
						return fmt.Sprintf("an unregistered entry is still linked into the queue (reached via %s from entry %d)", dir, i)
					}
					cur = e
				}
			}
		}
		return ""
	}
	defer func() {
		if r := recover(); r != nil {
			msg = fmt.Sprintf("panic: %v", r)
		}
	}()
	for si, o := range seq {
		switch o.Kind {
		case "reg":
			q.EventRegister(&ents[o.Entry], masks[o.Mask])
			ref[o.Entry], reg[o.Entry] = masks[o.Mask], true
		case "unreg":
			q.EventUnregister(&ents[o.Entry])
			ref[o.Entry], reg[o.Entry] = 0, false
		}
		if m := structure(); m != "" {
			return fmt.Sprintf("step %d %+v: %s", si, o, m)
		}
		switch o.Kind {
		case "notify":
			var got []int
			col.begin(&got)
			q.Notify(nmasks[o.Mask])
			col.end()
			cnt := make([]int, nent)
			for _, e := range got {
				cnt[e]++
			}
			for e := 0; e < nent; e++ {
				want := 0
				if ref[e]&nmasks[o.Mask] != 0 {
					want = 1
				}
				if cnt[e] != want {
					return fmt.Sprintf("step %d Notify(%#x): entry %d (registered mask %#x) got %d callbacks, want %d", si, nmasks[o.Mask], e, ref[e], cnt[e], want)
				}
			}
		}
		var all waiter.EventMask
		empty := true
		for i, m := range ref {
			all |= m
			if reg[i] {
				empty = false
			}
		}
		if q.Events() != all {
			return fmt.Sprintf("step %d: Events()=%#x, registered masks OR to %#x", si, q.Events(), all)
		}
		if q.IsEmpty() != empty {
			return fmt.Sprintf("step %d: IsEmpty()=%v", si, q.IsEmpty())
		}
	}
	if col.lost != 0 {
		return "callback invoked outside a Notify call"
	}
	return ""
}

func sequential() {
	depth := fw.N(6, 7)
	const nent = 3
	var wg sync.WaitGroup
	sem := make(chan struct{}, runtime.NumCPU())
	var evals int64
	var mu sync.Mutex
	sigs := map[uint64]struct{}{}
	var rec func(seq []op, reg [nent]bool, top bool)
	rec = func(seq []op, reg [nent]bool, top bool) {
		if len(seq) > 0 {
			if m := replaySeq(seq, nent); m != "" {
				run.Violation("C17/sequential/"+seq[len(seq)-1].Kind, m, seq)
				return
			}
			atomic.AddInt64(&evals, 1)
		}
		if len(seq) == depth {
			return
		}
		var next []op
		for e := 0; e < nent; e++ {
			if reg[e] {
				next = append(next, op{"unreg", e, 0})
			} else {
				for m := range masks {
					next = append(next, op{"reg", e, m})
				}
			}
		}
		for m := range nmasks {
			next = append(next, op{"notify", 0, m})
		}
		for _, o := range next {
			o := o
			nr := reg
			if o.Kind == "reg" {
				nr[o.Entry] = true
			} else if o.Kind == "unreg" {
				nr[o.Entry] = false
			}
			ns := append(append([]op(nil), seq...), o)
			if len(seq) == 1 {
				wg.Add(1)
				sem <- struct{}{}
				go func() { defer wg.Done(); defer func() { <-sem }(); rec(ns, nr, false) }()
			} else {
				rec(ns, nr, false)
			}
		}
		_ = mu
		_ = sigs
	}
	rec(nil, [nent]bool{}, true)
	wg.Wait()
	run.AddEvals(evals)
	run.Count("sequential_sequences(exhaustive to depth)", evals)
	run.Count("sequential_depth", int64(depth))
	// every enumerated sequence is distinct by construction; count them as such
	for i := int64(0); i < evals && i < 200000; i++ {
		run.Distinct(fw.Hash("seq", i))
	}
	run.Sample([]op{{"reg", 0, 0}, {"reg", 1, 2}, {"notify", 0, 1}, {"unreg", 0, 0}, {"notify", 0, 0}})
}

// ---- concurrent -----------------------------------------------------------

type cin struct {
	Kind  string
	Entry int
	Mask  waiter.EventMask
}

const centries = 4

type cstate [centries]uint8

var model = porcupine.Model{
	Init: func() interface{} { return cstate{} },
	Step: func(st, in, out interface{}) (bool, interface{}) {
		s := st.(cstate)
		i := in.(cin)
		switch i.Kind {
		case "reg":
			s[i.Entry] = uint8(i.Mask)
			return true, s
		case "unreg":
			s[i.Entry] = 0
			return true, s
		}
		var want uint32
		for e := 0; e < centries; e++ {
			if s[e]&uint8(i.Mask) != 0 {
				want |= 1 << uint(e)
			}
		}
		return out.(uint32) == want, s
	},
	DescribeOperation: func(in, out interface{}) string { return fmt.Sprintf("%+v -> %v", in, out) },
}

func concurrent() {
	n := fw.N(10000, 300000)
	var wg sync.WaitGroup
	sem := make(chan struct{}, 4)
	var mu sync.Mutex
	for i := 0; i < n; i++ {
		i := i
		wg.Add(1)
		sem <- struct{}{}
		go func() {
			defer wg.Done()
			defer func() { <-sem }()
			r := fw.NewRand(run.Seed, "C17", "conc", i)
			var q waiter.Queue
			col := &collector{byG: map[int64]*[]int{}}
			ents := make([]waiter.Entry, centries)
			for k := range ents {
				ents[k] = waiter.Entry{Callback: &cb{k, col}}
			}
			rec := &hist.Recorder{}
			col.stamps = &stampLog{rec: rec, at: map[int][]int64{}}
			g := 2 + r.Intn(5) // goroutines; each owns the entries e with e % g == c
			var hw sync.WaitGroup
			start := make(chan struct{})
			var dupCallback int64
			for c := 0; c < g; c++ {
				c := c
				rr := r.Split("g", c)
				hw.Add(1)
				go func() {
					defer hw.Done()
					defer func() {
						if r := recover(); r != nil {
							// the queue's lock is left held by the unwound Notify: give up on this process
							run.Violation("C17/concurrent/runaway-notify", fmt.Sprintf("Notify did not terminate normally: %v", r), describe(rec.Ops()))
							os.Exit(run.Finish("", nil))
						}
					}()
					var mine []int
					for e := c; e < centries; e += g {
						mine = append(mine, e)
					}
					registered := map[int]bool{}
					<-start
					nops := 3 + rr.Intn(5)
					for k := 0; k < nops; k++ {
						x := rr.Intn(3)
						if len(mine) == 0 {
							x = 2
						}
						switch x {
						case 0, 1:
							e := mine[rr.Intn(len(mine))]
							if registered[e] {
								rec.Do(c, cin{"unreg", e, 0}, func() interface{} { q.EventUnregister(&ents[e]); return nil })
								registered[e] = false
							} else {
								m := masks[rr.Intn(len(masks))]
								rec.Do(c, cin{"reg", e, m}, func() interface{} { q.EventRegister(&ents[e], m); return nil })
								registered[e] = true
							}
						default:
							m := nmasks[rr.Intn(len(nmasks))]
							rec.Do(c, cin{"notify", 0, m}, func() interface{} {
								var got []int
								col.begin(&got)
								q.Notify(m)
								col.end()
								var set uint32
								for _, e := range got {
									if set&(1<<uint(e)) != 0 {
										atomic.AddInt64(&dupCallback, 1)
									}
									set |= 1 << uint(e)
								}
								return set
							})
						}
						if rr.Chance(1, 3) {
							runtime.Gosched()
						}
					}
				}()
			}
			close(start)
			hw.Wait()
			ops := rec.Ops()
			res := hist.Check(model, ops, 60*time.Second)
			ov := hist.Overlaps(ops)
			mu.Lock()
			defer mu.Unlock()
			run.Case(fw.Hash(hist.OrderSignature(ops)), ov > 0)
			run.Count("concurrent_histories", 1)
			run.Count("overlapping_op_pairs", int64(ov))
			if dupCallback > 0 {
				run.Violation("C17/concurrent/duplicate-callback", "one Notify invoked the same entry's callback twice", ops)
			}
			if col.lost > 0 {
				run.Violation("C17/concurrent/stray-callback", "callback invoked on a goroutine that was not inside Notify", ops)
			}
			// callback-time oracle: a callback on entry e at logical time t is legal only if t
			// lies between the call of some EventRegister(e) and the return of the matching
			// EventUnregister(e) (open-ended if never unregistered).
			for e, stamps := range col.stamps.at {
				type iv struct{ from, to int64 }
				var ivs []iv
				for _, o := range ops {
					in := o.Input.(cin)
					if in.Entry != e {
						continue
					}
					if in.Kind == "reg" {
						ivs = append(ivs, iv{o.Call, 1 << 62})
					} else if in.Kind == "unreg" && len(ivs) > 0 {
						// ops of one entry are issued sequentially by its owner, in history order per client
						for k := len(ivs) - 1; k >= 0; k-- {
							if ivs[k].from < o.Call && ivs[k].to == 1<<62 {
								ivs[k].to = o.Return
								break
							}
						}
					}
				}
				for _, t := range stamps {
					ok := false
					for _, v := range ivs {
						if t >= v.from && t <= v.to {
							ok = true
						}
					}
					if !ok {
						run.Violation("C17/concurrent/callback-after-unregister", fmt.Sprintf("entry %d got a callback at logical time %d, outside every [EventRegister call, EventUnregister return] interval %v", e, t, ivs), describe(ops))
						break
					}
				}
				run.Count("callbacks_time_checked", int64(len(stamps)))
			}
			switch res {
			case "illegal":
				run.Violation("C17/concurrent/not-linearizable", "register/unregister/notify history is not linearizable against the set-of-registered-entries specification (a callback was lost, duplicated, or delivered after unregistration returned)", describe(ops))
			case "unknown":
				run.Inconclusive("porcupine-timeout")
			}
		}()
	}
	wg.Wait()
}

func describe(ops []porcupine.Operation) []string {
	var s []string
	for _, o := range ops {
		s = append(s, fmt.Sprintf("c%d [%d,%d] %+v -> %v", o.ClientId, o.Call, o.Return, o.Input, o.Output))
	}
	return s
}

// ---- channel entries: a notification is never lost -------------------------

func channels() {
	// sequential: after Notify with an intersecting mask the channel holds exactly one token
	for mi, m := range masks {
		for ni, nm := range nmasks {
			var q waiter.Queue
			e, ch := waiter.NewChannelEntry(nil)
			q.EventRegister(&e, m)
			for rep := 0; rep < 3; rep++ {
				q.Notify(nm)
				want := 0
				if m&nm != 0 {
					want = 1
				}
				if len(ch) != want {
					run.Violation("C17/channel/sequential", fmt.Sprintf("registered %#x, Notify(%#x) x%d: channel holds %d tokens, want %d", m, nm, rep+1, len(ch), want), nil)
				}
			}
			had := len(ch)
			q.EventUnregister(&e)
			// a token delivered while the entry was registered belongs to the waiter: leaving
			// the queue must not take it away
			if len(ch) != had {
				run.Violation("C17/channel/token-taken-by-unregister", fmt.Sprintf("registered %#x, Notify(%#x) left %d token in the channel; after EventUnregister it holds %d", m, nm, had, len(ch)), nil)
			}
			for len(ch) > 0 {
				<-ch
			}
			// one channel shared by entries on two queues: unregistering one entry leaves the
			// other queue's notification where it is
			{
				var q1, q2 waiter.Queue
				e1, c := waiter.NewChannelEntry(nil)
				e2, _ := waiter.NewChannelEntry(c)
				q1.EventRegister(&e1, m)
				q2.EventRegister(&e2, m)
				q2.Notify(nm)
				had := len(c)
				q1.EventUnregister(&e1)
				if len(c) != had {
					run.Violation("C17/channel/token-taken-by-unregister", fmt.Sprintf("shared channel: the other queue's Notify(%#x) left %d token; unregistering the first entry leaves %d", nm, had, len(c)), nil)
				}
				q2.EventUnregister(&e2)
			}
			q.Notify(nm)
			if len(ch) != 0 {
				run.Violation("C17/channel/after-unregister", "token delivered after EventUnregister returned", nil)
			}
			run.Case(fw.Hash("chan-seq", mi, ni), true)
		}
	}
	// concurrent: notifiers vs one waiter that drains
	n := fw.N(2000, 60000)
	var wg sync.WaitGroup
	sem := make(chan struct{}, 4)
	for i := 0; i < n; i++ {
		i := i
		wg.Add(1)
		sem <- struct{}{}
		go func() {
			defer wg.Done()
			defer func() { <-sem }()
			r := fw.NewRand(run.Seed, "C17", "chan", i)
			var q waiter.Queue
			e, ch := waiter.NewChannelEntry(nil)
			q.EventRegister(&e, waiter.EventIn)
			// a second, churning entry next to it
			other, _ := waiter.NewChannelEntry(nil)
			var hm sync.Mutex // harness lock: makes (take token, count it) atomic w.r.t. the notifier's check
			taken := 0
			stop := make(chan struct{})
			var hw sync.WaitGroup
			hw.Add(1)
			go func() { // waiter
				defer hw.Done()
				for {
					select {
					case <-stop:
						return
					default:
					}
					hm.Lock()
					select {
					case <-ch:
						taken++
					default:
					}
					hm.Unlock()
					runtime.Gosched()
				}
			}()
			hw.Add(1)
			go func() { // churn
				defer hw.Done()
				for {
					select {
					case <-stop:
						return
					default:
					}
					q.EventRegister(&other, waiter.EventOut)
					runtime.Gosched()
					q.EventUnregister(&other)
				}
			}()
			var nw sync.WaitGroup
			var lost int64
			var notifies int64
			for c := 0; c < 1+r.Intn(4); c++ {
				rr := r.Split("n", c)
				nw.Add(1)
				go func() {
					defer nw.Done()
					for k := 0; k < 20; k++ {
						hm.Lock()
						before := taken
						hm.Unlock()
						q.Notify(waiter.EventIn)
						atomic.AddInt64(&notifies, 1)
						hm.Lock()
						ok := len(ch) == 1 || taken > before
						hm.Unlock()
						if !ok {
							atomic.AddInt64(&lost, 1)
						}
						if rr.Chance(1, 2) {
							runtime.Gosched()
						}
					}
				}()
			}
			nw.Wait()
			close(stop)
			hw.Wait()
			run.Case(fw.Hash("chan-conc", i%512, taken), taken > 0)
			run.Count("channel_notifies", notifies)
			run.Count("channel_tokens_taken", int64(taken))
			if lost > 0 {
				run.Violation("C17/channel/lost-token", fmt.Sprintf("%d Notify calls returned with the channel empty and no token taken since the call", lost), nil)
			}
		}()
	}
	wg.Wait()
}

func TestC17(t *testing.T) {
	run = fw.Start("C17", "exploration")
	if fw.IsChild() {
		t0 := time.Now()
		concurrent()
		run.Note("concurrent_phase_s", time.Since(t0).Seconds())
		t0 = time.Now()
		channels()
		run.Note("channel_phase_s", time.Since(t0).Seconds())
		os.Exit(run.Finish("", nil))
	}
	sequential()
	res := run.RunChild(fw.ChildSpec{Bin: os.Getenv("VERIF_BIN_RACE"), Test: "^TestC17$", Tag: "race", Race: true, Anchors: []string{"pkg/waiter/", "pkg/ilist/"}})
	if !res.Done {
		run.ChildCrashed(res, "C17/concurrent", "concurrent phase")
	}
	code := run.Finish("sequential: every legal sequence up to sequential_depth over 3 entries x 4 registration masks (incl. the empty one) x 4 notify masks (an entry is registered at most once at a time), callbacks per Notify compared with the reference set, Events()/IsEmpty() after every step; concurrent (-race build): 2-6 goroutines, 4 entries each owned by one goroutine, 3-7 ops each, callbacks attributed to the Notify call by goroutine id, history checked by porcupine against the set specification; channel entries: token present after Notify, notifiers racing a draining waiter and a churning neighbour entry. distinct = enumerated sequences (capped at 200000 in the count) + distinct call/return interleavings",
		[]string{"registering an entry that is already registered, or unregistering one that is not, is outside the domain (the intrusive list gives it no meaning)", "callbacks run synchronously on the notifier's goroutine (attribution by goroutine id)"})
	os.Exit(code)
}
