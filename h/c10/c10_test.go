package c10

import (
	"fmt"
	"io"
	"log"
	"math/rand"
	"os"
	"runtime"
	"sync"
	"testing"
	"time"

	"github.com/anishathalye/porcupine"
	tcpip "github.com/brewlin/net-protocol/protocol"
	"github.com/brewlin/net-protocol/protocol/ports"
	"verifh/fw"
	"verifh/hist"
	"verifh/vt"
)

var (
	nets   = []tcpip.NetworkProtocolNumber{0x0800, 0x86dd}
	trs    = []tcpip.TransportProtocolNumber{6, 17}
	addrs  = []tcpip.Address{"", "\x0a\x00\x00\x01", "\x0a\x00\x00\x02"}
	portsP = []uint16{80, 8080, 20000}
)

// op on the port manager. NetMask: bit0 = v4, bit1 = v6.
type op struct {
	Kind    string `json:"k"` // reserve release avail
	NetMask int    `json:"nets"`
	Tr      int    `json:"tr"`
	Addr    int    `json:"addr"`
	Port    int    `json:"port"`
}

func (o op) networks() []tcpip.NetworkProtocolNumber {
	var n []tcpip.NetworkProtocolNumber
	for i := range nets {
		if o.NetMask>>uint(i)&1 == 1 {
			n = append(n, nets[i])
		}
	}
	return n
}

// Reference: per (transport, port) a 6-bit set of (net, addr) entries.
type refState uint8

func bit(net, addr int) refState { return 1 << uint(net*3+addr) }

func (s refState) available(netMask, addr int) bool {
	for n := 0; n < 2; n++ {
		if netMask>>uint(n)&1 == 0 {
			continue
		}
		row := (s >> uint(n*3)) & 7
		if addr == 0 {
			if row != 0 {
				return false
			}
		} else if row&1 != 0 || row&(1<<uint(addr)) != 0 {
			return false
		}
	}
	return true
}

func (s refState) step(o op) (refState, bool) {
	switch o.Kind {
	case "reserve":
		if !s.available(o.NetMask, o.Addr) {
			return s, false
		}
		for n := 0; n < 2; n++ {
			if o.NetMask>>uint(n)&1 == 1 {
				s |= bit(n, o.Addr)
			}
		}
		return s, true
	case "release":
		for n := 0; n < 2; n++ {
			if o.NetMask>>uint(n)&1 == 1 {
				s &^= bit(n, o.Addr)
			}
		}
		return s, true
	default:
		return s, s.available(o.NetMask, o.Addr)
	}
}

func apply(pm *ports.PortManager, o op) bool {
	switch o.Kind {
	case "reserve":
		p, err := pm.ReservePort(o.networks(), trs[o.Tr], addrs[o.Addr], portsP[o.Port])
		if err == nil && p != portsP[o.Port] {
			return false
		}
		return err == nil
	case "release":
		pm.ReleasePort(o.networks(), trs[o.Tr], addrs[o.Addr], portsP[o.Port])
		return true
	default:
		return pm.IsPortAvailable(o.networks(), trs[o.Tr], addrs[o.Addr], portsP[o.Port])
	}
}

func genOp(r *fw.Rand, nports int) op {
	k := []string{"reserve", "reserve", "release", "avail"}[r.Intn(4)]
	return op{Kind: k, NetMask: 1 + r.Intn(3), Tr: r.Intn(2), Addr: r.Intn(3), Port: r.Intn(nports)}
}

var run *fw.Run

func sequential() {
	n := fw.N(20000, 1000000)
	var wg sync.WaitGroup
	for w := 0; w < 16; w++ {
		w := w
		wg.Add(1)
		go func() {
			defer wg.Done()
			for i := w; i < n; i += 16 {
				r := fw.NewRand(run.Seed, "C10", "seq", i)
				pm := ports.NewPortManager()
				ref := map[[2]int]refState{}
				l := 1 + r.Intn(40)
				var seq []op
				shape := uint64(0)
				for j := 0; j < l; j++ {
					o := genOp(r, 3)
					seq = append(seq, o)
					key := [2]int{o.Tr, o.Port}
					ns, want := ref[key].step(o)
					ref[key] = ns
					got := apply(pm, o)
					shape = shape*31 + uint64(len(o.Kind)) + uint64(o.NetMask)*7 + uint64(o.Addr)*3
					if want {
						shape++
					}
					if got != want {
						run.Violation("C10/sequential/"+o.Kind, fmt.Sprintf("step %d %+v returned %v, reference table says %v", j, o, got, want), seq)
						return
					}
				}
				// final sweep: availability of every key must match the reference
				for tr := 0; tr < 2; tr++ {
					for p := 0; p < 3; p++ {
						for a := 0; a < 3; a++ {
							for nm := 1; nm <= 3; nm++ {
								o := op{"avail", nm, tr, a, p}
								if got, want := apply(pm, o), ref[[2]int{tr, p}].available(nm, a); got != want {
									run.Violation("C10/sequential/final", fmt.Sprintf("after the sequence %+v = %v, reference %v", o, got, want), seq)
									return
								}
							}
						}
					}
				}
				run.Case(shape, true)
				if i < 2 {
					run.Sample(seq)
				}
			}
		}()
	}
	wg.Wait()
}

type pin struct {
	o op
}

var model = porcupine.Model{
	Partition: func(h []porcupine.Operation) [][]porcupine.Operation {
		m := map[[2]int][]porcupine.Operation{}
		for _, o := range h {
			in := o.Input.(op)
			k := [2]int{in.Tr, in.Port}
			m[k] = append(m[k], o)
		}
		var out [][]porcupine.Operation
		for _, v := range m {
			out = append(out, v)
		}
		return out
	},
	Init: func() interface{} { return refState(0) },
	Step: func(st, in, out interface{}) (bool, interface{}) {
		ns, want := st.(refState).step(in.(op))
		return want == out.(bool), ns
	},
	DescribeOperation: func(in, out interface{}) string { return fmt.Sprintf("%+v -> %v", in, out) },
}

func concurrent() {
	n := fw.N(3000, 150000)
	var mu sync.Mutex
	var wg sync.WaitGroup
	sem := make(chan struct{}, 4)
	for i := 0; i < n; i++ {
		i := i
		wg.Add(1)
		sem <- struct{}{}
		go func() {
			defer wg.Done()
			defer func() { <-sem }()
			r := fw.NewRand(run.Seed, "C10", "conc", i)
			pm := ports.NewPortManager()
			rec := &hist.Recorder{}
			g := 2 + r.Intn(7)
			nports := 1 + r.Intn(2)
			var hw sync.WaitGroup
			start := make(chan struct{})
			for c := 0; c < g; c++ {
				c := c
				rr := r.Split("g", c)
				hw.Add(1)
				go func() {
					defer hw.Done()
					<-start
					for k := 0; k < 4+rr.Intn(4); k++ {
						o := genOp(rr, nports)
						rec.Do(c, o, func() interface{} { return apply(pm, o) })
						if rr.Chance(1, 3) {
							runtime.Gosched()
						}
					}
				}()
			}
			close(start)
			hw.Wait()
			ops := rec.Ops()
			res := hist.Check(model, ops, 60*time.Second)
			ov := hist.Overlaps(ops)
			mu.Lock()
			defer mu.Unlock()
			run.Case(fw.Hash(hist.OrderSignature(ops)), ov > 0)
			run.Count("concurrent_histories", 1)
			run.Count("overlapping_op_pairs", int64(ov))
			switch res {
			case "illegal":
				run.Violation("C10/concurrent/not-linearizable", "history of reserve/release/availability calls is not linearizable against the reservation table", ops)
			case "unknown":
				run.Inconclusive("porcupine-timeout")
			}
		}()
	}
	wg.Wait()
}

func ephemeral() {
	const first, last = 16000, 65535
	n := fw.N(1500, 40000)
	pm := ports.NewPortManager()
	modes := []string{"before-start", "after-start", "last-in-range", "first-in-range", "random", "none", "start", "two-before"}
	offsets := map[int]struct{}{}
	for i := 0; i < n; i++ {
		r := fw.NewRand(run.Seed, "C10", "eph", i)
		mode := modes[i%len(modes)]
		var probes int
		var firstProbe, accept int = -1, -1
		outOfRange := -1
		dup := false
		seen := make([]bool, 65536)
		got, err := pm.PickEphemeralPort(func(p uint16) (bool, *tcpip.Error) {
			if firstProbe < 0 {
				firstProbe = int(p)
				switch mode {
				case "before-start":
					accept = firstProbe - 1
					if accept < first {
						accept = last
					}
				case "two-before":
					accept = firstProbe - 2
					if accept < first {
						accept += last - first + 1
					}
				case "after-start":
					accept = firstProbe + 1
					if accept > last {
						accept = first
					}
				case "last-in-range":
					accept = last
				case "first-in-range":
					accept = first
				case "random":
					accept = first + r.Intn(last-first+1)
				case "start":
					accept = firstProbe
				}
			}
			probes++
			if int(p) < first {
				outOfRange = int(p)
			}
			if seen[p] {
				dup = true
			}
			seen[p] = true
			return int(p) == accept, nil
		})
		offsets[firstProbe] = struct{}{}
		rep := map[string]interface{}{"mode": mode, "first_probe": firstProbe, "acceptable": accept, "probes": probes, "returned": got, "err": fmt.Sprint(err)}
		run.Case(fw.Hash("eph", mode, firstProbe), true)
		if i < 3 {
			run.Sample(rep)
		}
		if outOfRange >= 0 {
			run.Violation("C10/ephemeral/probe-out-of-range", fmt.Sprintf("port %d outside [16000,65535] offered", outOfRange), rep)
		}
		if mode == "none" {
			if err != tcpip.ErrNoPortAvailable {
				run.Violation("C10/ephemeral/none", fmt.Sprintf("no port acceptable but got port %d err %v", got, err), rep)
			}
			continue
		}
		if err != nil {
			run.Violation("C10/ephemeral/not-found", fmt.Sprintf("port %d was acceptable (search started at %d) but PickEphemeralPort failed with %v after %d probes (revisited ports: %v)", accept, firstProbe, err, probes, dup), rep)
			continue
		}
		if int(got) != accept || got < first {
			run.Violation("C10/ephemeral/wrong-port", fmt.Sprintf("returned %d, the only acceptable port was %d", got, accept), rep)
		}
	}
	run.Count("ephemeral_calls", int64(n))
	run.Count("ephemeral_distinct_start_offsets", int64(len(offsets)))

	// Through ReservePort(port 0): reserve all ports but a few, ask for an ephemeral one.
	m := fw.N(6, 60)
	for i := 0; i < m; i++ {
		r := fw.NewRand(run.Seed, "C10", "eph-reserve", i)
		pm := ports.NewPortManager()
		free := map[int]bool{}
		for k := 0; k < 1+r.Intn(2); k++ {
			free[first+r.Intn(last-first+1)] = true
		}
		nw := nets[:1+r.Intn(2)]
		for p := first; p <= last; p++ {
			if !free[p] {
				if _, err := pm.ReservePort(nw, 6, "", uint16(p)); err != nil {
					run.Broken("setup reserve failed")
					return
				}
			}
		}
		// one address per round: the same port may rightly be handed out again for a
		// different specific address (an early version drew a new address per call and
		// reported that as a reserved port being returned - harness error)
		addr := addrs[r.Intn(3)]
		for len(free) > 0 {
			p, err := pm.ReservePort(nw, 6, addr, 0)
			rep := map[string]interface{}{"free_ports": fmt.Sprint(free), "returned": p, "err": fmt.Sprint(err)}
			run.Case(fw.Hash("eph-reserve", i, len(free)), true)
			if err != nil {
				run.Violation("C10/ephemeral/not-found", fmt.Sprintf("ReservePort(0) failed with %v although ports %v were free", err, free), rep)
				break
			}
			if !free[int(p)] {
				run.Violation("C10/ephemeral/wrong-port", fmt.Sprintf("ReservePort(0) returned %d which was reserved; free were %v", p, free), rep)
				break
			}
			delete(free, int(p))
		}
		if p, err := pm.ReservePort(nw, 6, addr, 0); err != tcpip.ErrNoPortAvailable {
			run.Violation("C10/ephemeral/none", fmt.Sprintf("every port reserved but ReservePort(0) returned %d, %v", p, err), nil)
		}
		// other transport unaffected
		if p, err := pm.ReservePort(nw, 17, "", 0); err != nil || p < first {
			run.Violation("C10/ephemeral/cross-transport", fmt.Sprintf("UDP ephemeral reservation failed (%d, %v) because TCP ports are taken", p, err), nil)
		}
	}
}

func TestC10(t *testing.T) {
	log.SetOutput(io.Discard)
	run = fw.Start("C10", "exploration")
	rand.Seed(run.Seed)
	if fw.IsChild() && os.Getenv("VERIF_PHASE") == "endpoints" { // virtual-time build: socket life cycles
		var lo, hi int
		fmt.Sscan(os.Getenv("VERIF_RANGE"), &lo, &hi)
		vt.Bubble(t, func() {
			for k := lo; k < hi && run.Violations() < 4; k++ {
				endpointScenario(k)
			}
			os.Exit(run.Finish("", nil))
		})
		return
	}
	if fw.IsChild() { // the -race build runs the concurrent phase
		concurrent()
		os.Exit(run.Finish("", nil))
	}
	sequential()
	ephemeral()
	res := run.RunChild(fw.ChildSpec{Bin: os.Getenv("VERIF_BIN_RACE"), Test: "^TestC10$", Tag: "race", Race: true, Anchors: []string{"protocol/ports/"}})
	if !res.Done {
		run.ChildCrashed(res, "C10/concurrent", "concurrent phase")
	}
	var wg sync.WaitGroup
	nep := fw.N(1600, 80000)
	for c := 0; c < 8; c++ {
		c := c
		wg.Add(1)
		go func() {
			defer wg.Done()
			res := run.RunChild(fw.ChildSpec{Bin: os.Getenv("VERIF_BIN_VT"), Test: "^TestC10$", Tag: fmt.Sprintf("ep%d", c), Env: []string{"VERIF_PHASE=endpoints", fmt.Sprintf("VERIF_RANGE=%d %d", nep*c/8, nep*(c+1)/8)}})
			if !res.Done {
				run.ChildCrashed(res, "C10/endpoints", c)
			}
		}()
	}
	wg.Wait()
	code := run.Finish("sequential: PRNG op sequences (<=40 ops) over 2 networks x 2 transports x {wildcard,a,b} x 3 ports, reference table in lock-step after every op and a full availability sweep at the end; concurrent: 2-8 goroutines x 4-7 ops on 1-2 ports, history checked by porcupine (partitioned by transport/port), non-trivial = at least one pair of overlapping ops, distinct = distinct call/return interleaving signatures; ephemeral: the acceptable port is chosen after the first probe is seen (just before / two before / just after the start, last, first, random, start, none), so every call forces a known fraction of a full cycle from the random offset; plus ReservePort(0) against a table with 1-2 free ports; endpoints (virtual time): TCP and UDP sockets of all families (IPv4, IPv6-only, dual-stack) are bound (wildcard, specific, ephemeral), connected to IPv4 / IPv6 / v4-mapped peers, listened on and closed in PRNG order: two live never-connected sockets with conflicting reservations cannot both have been bound, and once every socket is closed (plus three virtual minutes) every port ever used can be bound again on every transport and family Later additions: Binds that fail after the port was reserved (address not local, plain or v4-mapped; refusing commit callback) join the everything-released sweep. Directed prologue: bind + connect, a second socket takes the port, the first is closed, a third must still be refused.",
		[]string{"reference: 6-bit (network x address) set per (transport, port) (h/c10)", "logical clock for call/return stamps: one atomic counter (h/hist)", "release of an entry nobody holds is modelled as a no-op"})
	os.Exit(code)
}
