package c10

import (
	"fmt"
	"time"

	"github.com/brewlin/net-protocol/pkg/waiter"
	tcpip "github.com/brewlin/net-protocol/protocol"
	"github.com/brewlin/net-protocol/protocol/network/ipv4"
	"github.com/brewlin/net-protocol/protocol/network/ipv6"
	"github.com/brewlin/net-protocol/protocol/transport/tcp"
	"github.com/brewlin/net-protocol/protocol/transport/udp"
	"verifh/fw"
	"verifh/vt"
	"verifh/wire"
)

// Endpoint level: the reservations that sockets take in Bind / Connect / Listen and give
// back in Close. Sockets of both transports and all address families (IPv4, IPv6-only,
// dual-stack) are bound (wildcard, specific, ephemeral), connected to IPv4 / IPv6 /
// v4-mapped peers, listened on and closed in PRNG order.
//
// Judged: (a) two live sockets (TCP: never connected) whose bind-time reservations conflict (same
// transport and port, overlapping network protocols, either wildcard or same address)
// cannot both have been bound; (b) once every socket is closed, each port that was ever
// used can be bound again on every transport and family - a released reservation
// becomes available again.

type epSock struct {
	id        int
	tr        string // tcp udp
	fam       string // v4 v6only dual
	ep        tcpip.Endpoint
	bound     bool
	port      uint16
	addr      tcpip.Address
	connected bool
	closed    bool
}

func (s *epSock) nets() int { // bit0 v4, bit1 v6: what a wildcard / specific bind of this socket reserves
	switch s.fam {
	case "v4":
		return 1
	case "v6only":
		return 2
	}
	if s.addr == "" {
		return 3
	}
	if len(s.addr) == 4 || s.addr[:12] == "\x00\x00\x00\x00\x00\x00\x00\x00\x00\x00\xff\xff" {
		return 1
	}
	return 2
}

// plain strips the v4-mapped prefix.
func plain(a tcpip.Address) tcpip.Address {
	if len(a) == 16 && a[:12] == "\x00\x00\x00\x00\x00\x00\x00\x00\x00\x00\xff\xff" {
		return a[12:]
	}
	return a
}

func endpointScenario(k int) {
	r := fw.NewRand(run.Seed, "C10", "endpoints", k)
	h, err := wire.NewHost(wire.HostCfg{Name: "P", MTU: 1500, V4: []tcpip.Address{wire.AddrA4}, V6: []tcpip.Address{wire.AddrA6}})
	if err != nil {
		run.Broken("harness: " + err.Error())
		return
	}
	var socks []*epSock
	var trace []string
	tr := func(f string, a ...interface{}) { trace = append(trace, fmt.Sprintf(f, a...)) }
	bad := false
	viol := func(key, what string) {
		if !bad {
			run.Violation("C10/endpoints/"+key, what, map[string]interface{}{"k": k, "trace": trace})
		}
		bad = true
	}
	portPool := []uint16{3000, 3001, 0}
	used := map[uint16]bool{}
	mk := func(trn, fam string) tcpip.Endpoint {
		tp := tcp.ProtocolNumber
		if trn == "udp" {
			tp = udp.ProtocolNumber
		}
		np := ipv6.ProtocolNumber
		if fam == "v4" {
			np = ipv4.ProtocolNumber
		}
		ep, e := h.S.NewEndpoint(tp, np, &waiter.Queue{})
		if e != nil {
			run.Broken("harness: NewEndpoint: " + e.String())
			return nil
		}
		if fam == "v6only" {
			ep.SetSockOpt(tcpip.V6OnlyOption(1))
		}
		return ep
	}
	// directed prologue: a bound socket connects (TCP trades its reservation for the 4-tuple),
	// a second socket takes the port, the first one is closed - the second one's reservation
	// must still keep a third socket out
	if r.Chance(1, 2) {
		trn := []string{"tcp", "tcp", "udp"}[r.Intn(3)]
		fams := []string{"v4", "dual"}
		fa, fb, fc := fams[r.Intn(2)], fams[r.Intn(2)], fams[r.Intn(2)]
		a, b, c := mk(trn, fa), mk(trn, fb), mk(trn, fc)
		// the stack's IPv4 address as a socket of that family writes it (v4-mapped on a dual-stack socket)
		own4 := func(fam string) tcpip.Address {
			if fam == "dual" {
				return "\x00\x00\x00\x00\x00\x00\x00\x00\x00\x00\xff\xff" + wire.AddrA4
			}
			return wire.AddrA4
		}
		peer4 := tcpip.Address(wire.AddrB4)
		if fa == "dual" {
			peer4 = "\x00\x00\x00\x00\x00\x00\x00\x00\x00\x00\xff\xff" + wire.AddrB4
		}
		if a == nil || b == nil || c == nil {
			return
		}
		const pp = 3002
		used[pp] = true
		ea := a.Bind(tcpip.FullAddress{Port: pp}, nil)
		ec := a.Connect(tcpip.FullAddress{Addr: peer4, Port: 9})
		baddr := []tcpip.Address{"", own4(fb)}[r.Intn(2)]
		eb := b.Bind(tcpip.FullAddress{Addr: baddr, Port: pp}, nil)
		tr("prologue %s: A bind :%d -> %v, connect -> %v; B bind %v:%d -> %v", trn, pp, ea, ec, []byte(baddr), pp, eb)
		a.Close()
		tr("prologue: A closed")
		if eb == nil {
			caddr := []tcpip.Address{"", own4(fc)}[r.Intn(2)]
			if e3 := c.Bind(tcpip.FullAddress{Addr: caddr, Port: pp}, nil); e3 == nil {
				viol("conflicting-binds-both-succeeded", fmt.Sprintf("%s: socket B is bound to %v:%d; after socket A (bound to the same port earlier, then connected, now closed) was closed, socket C could bind %v:%d as well", trn, []byte(baddr), pp, []byte(caddr), pp))
			}
			run.Count("endpoint_prologue_third_bind_attempts", 1)
		}
		b.Close()
		c.Close()
	}
	for step := 0; step < 6+r.Intn(14) && !bad; step++ {
		var live []*epSock
		for _, s := range socks {
			if !s.closed {
				live = append(live, s)
			}
		}
		switch op := r.Intn(6); {
		case op <= 1 || len(live) == 0: // open + bind
			s := &epSock{id: len(socks), tr: []string{"tcp", "udp"}[r.Intn(2)], fam: []string{"v4", "v6only", "dual"}[r.Intn(3)]}
			if s.ep = mk(s.tr, s.fam); s.ep == nil {
				return
			}
			socks = append(socks, s)
			bind := tcpip.FullAddress{Port: portPool[r.Intn(len(portPool))]}
			if r.Chance(1, 3) {
				if s.fam == "v4" {
					bind.Addr = wire.AddrA4
				} else if s.fam == "dual" && r.Bool() {
					bind.Addr = "\x00\x00\x00\x00\x00\x00\x00\x00\x00\x00\xff\xff" + wire.AddrA4 // v4-mapped: reserves on IPv4
				} else {
					bind.Addr = wire.AddrA6
				}
			}
			// binds that fail after the port was reserved: an address that is not local (plain or
			// v4-mapped), or a commit callback that refuses. Whatever they reserved must be given back.
			var commit func() *tcpip.Error
			how := ""
			switch r.Intn(8) {
			case 0:
				how = " (address not local)"
				other := tcpip.Address("\x0a\x00\x00\x63")
				if s.fam == "v4" {
					bind.Addr = other
				} else if s.fam == "dual" && r.Bool() {
					bind.Addr = "\x00\x00\x00\x00\x00\x00\x00\x00\x00\x00\xff\xff" + other
				} else {
					bind.Addr = "\xfd\x00\x00\x00\x00\x00\x00\x00\x00\x00\x00\x00\x00\x00\x00\x63"
				}
			case 1:
				how = " (commit refuses)"
				commit = func() *tcpip.Error { return tcpip.ErrNoBufferSpace }
			}
			e := s.ep.Bind(bind, commit)
			tr("#%d %s/%s bind %v:%d%s -> %v", s.id, s.tr, s.fam, []byte(bind.Addr), bind.Port, how, e)
			if e != nil {
				if bind.Port != 0 {
					used[bind.Port] = true // part of the final "everything was given back" sweep
				}
				if how != "" {
					run.Count("endpoint_binds_failing_after_reservation", 1)
				}
				continue
			}
			if how != "" {
				viol("bind-that-must-fail-succeeded", fmt.Sprintf("socket #%d: bind %v:%d%s succeeded", s.id, []byte(bind.Addr), bind.Port, how))
				break
			}
			s.bound, s.addr = true, bind.Addr
			if la, e2 := s.ep.GetLocalAddress(); e2 == nil {
				s.port = la.Port
			}
			if s.port == 0 {
				viol("bound-to-port-0", fmt.Sprintf("socket #%d bound successfully but reports local port 0", s.id))
				break
			}
			if bind.Port == 0 && s.port < 16000 {
				viol("ephemeral-out-of-range", fmt.Sprintf("socket #%d asked for an ephemeral port and got %d", s.id, s.port))
			}
			used[s.port] = true
			// (a) conflict with a live, never-connected socket
			for _, o := range live {
				// (a UDP socket keeps its bind-time reservation when it connects; a TCP socket
				// trades it for the registration of its 4-tuple)
				if o.bound && (!o.connected || o.tr == "udp") && o.tr == s.tr && o.port == s.port && o.nets()&s.nets() != 0 && (o.addr == "" || s.addr == "" || plain(o.addr) == plain(s.addr)) {
					viol("conflicting-binds-both-succeeded", fmt.Sprintf("socket #%d (%s/%s %v:%d) was bound although live socket #%d (%s/%s %v:%d) holds a conflicting reservation", s.id, s.tr, s.fam, []byte(s.addr), s.port, o.id, o.tr, o.fam, []byte(o.addr), o.port))
				}
			}
			run.Count("endpoint_binds", 1)
		case op == 2: // connect
			s := live[r.Intn(len(live))]
			var to tcpip.FullAddress
			switch {
			case s.fam == "v4":
				to = tcpip.FullAddress{Addr: wire.AddrB4, Port: 9}
			case s.fam == "dual" && r.Bool():
				to = tcpip.FullAddress{Addr: "\x00\x00\x00\x00\x00\x00\x00\x00\x00\x00\xff\xff" + wire.AddrB4, Port: 9}
			default:
				to = tcpip.FullAddress{Addr: wire.AddrB6, Port: 9}
			}
			e := s.ep.Connect(to)
			tr("#%d connect %v -> %v", s.id, []byte(to.Addr), e)
			if e == nil || e == tcpip.ErrConnectStarted {
				s.connected = true
				if la, e2 := s.ep.GetLocalAddress(); e2 == nil && la.Port != 0 {
					s.port = la.Port
					used[s.port] = true
				}
				run.Count("endpoint_connects", 1)
			}
		case op == 3: // listen
			s := live[r.Intn(len(live))]
			if s.tr == "tcp" && s.bound && !s.connected {
				e := s.ep.Listen(4)
				tr("#%d listen -> %v", s.id, e)
			}
		default: // close
			s := live[r.Intn(len(live))]
			s.ep.Close()
			s.closed = true
			tr("#%d close", s.id)
		}
	}
	for _, s := range socks {
		if !s.closed {
			s.ep.Close()
			s.closed = true
		}
	}
	tr("all sockets closed")
	// connected TCP sockets are torn down by their protocol goroutine: let it finish
	// (virtual time: three minutes cost nothing)
	time.Sleep(3 * time.Minute)
	vt.Quiesce()
	// (b) everything released: each port ever used can be bound again, on every transport and family
	for p := range used {
		for _, trn := range []string{"tcp", "udp"} {
			for _, fam := range []string{"v4", "v6only", "dual"} {
				if bad {
					break
				}
				ep := mk(trn, fam)
				if ep == nil {
					return
				}
				e := ep.Bind(tcpip.FullAddress{Port: p}, nil)
				ep.Close()
				if e != nil {
					viol("released-port-not-available", fmt.Sprintf("every socket is closed, yet binding a fresh %s/%s socket to port %d fails with %v: a reservation was never given back", trn, fam, p, e))
				}
				run.Count("endpoint_rebinds_after_close", 1)
			}
		}
	}
	run.Case(fw.Hash("ep", len(socks), len(used)), len(used) > 0)
}
