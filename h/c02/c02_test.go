package c02

import (
	"encoding/json"
	"fmt"
	"io"
	"log"
	"os"
	"path/filepath"
	"sort"
	"strings"
	"sync"
	"testing"
	"time"

	"verifh/fw"
	"verifh/tcpx"
	"verifh/vt"
)

var run *fw.Run

// base exchanges: deterministic, fault-free configurations.
type base struct {
	Name string
	Sc   tcpx.Scenario
}

func bases() []base {
	var out []base
	add := func(name string, sc tcpx.Scenario) {
		sc.MTU = 1500
		sc.CC = "reno"
		sc.LatencyUs = 5000
		if sc.MaxChunk[0] == 0 {
			sc.MaxChunk[0] = 1 << 30
		}
		if sc.MaxChunk[1] == 0 {
			sc.MaxChunk[1] = 1 << 30
		}
		sc.Seed = fw.Hash(name)
		out = append(out, base{name, sc})
	}
	for _, cl := range []string{"AB", "BA", "sim"} {
		for _, sz := range [][2]int{{0, 0}, {1, 0}, {0, 1}, {1447, 1449}, {1448, 0}, {5000, 0}, {20000, 3000}, {3000, 20000}, {200000, 0}} {
			add(fmt.Sprintf("xfer-%d-%d-close-%s", sz[0], sz[1], cl), tcpx.Scenario{Bytes: sz, Close: cl, SACK: sz[0]%2 == 0})
		}
	}
	// half-close, then more data the other way: A sends little and shuts down first, B keeps sending a lot
	add("halfclose-A-then-B-data", tcpx.Scenario{Bytes: [2]int{100, 60000}, Close: "AB", PaceUs: [2]int{0, 2000}})
	add("halfclose-B-then-A-data", tcpx.Scenario{Bytes: [2]int{60000, 100}, Close: "BA", PaceUs: [2]int{2000, 0}})
	// closed receive window: small receive buffer and a reader that pauses, in two timings
	add("zero-window-exact-fit", tcpx.Scenario{Bytes: [2]int{20000, 0}, RcvBuf: [2]int{0, 4096}, PauseRead: [2]int{1, 0}, PauseMs: [2]int{3000, 0}, Close: "AB"})
	add("zero-window-overshoot", tcpx.Scenario{Bytes: [2]int{20000, 0}, RcvBuf: [2]int{0, 4096}, PauseRead: [2]int{1, 0}, PauseMs: [2]int{3000, 0}, MaxChunk: [2]int{1000, 0}, Close: "AB"})
	add("zero-window-reverse", tcpx.Scenario{Bytes: [2]int{0, 30000}, RcvBuf: [2]int{4096, 0}, PauseRead: [2]int{0, 1}, PauseMs: [2]int{0, 2000}, Close: "BA"})
	add("zero-window-both", tcpx.Scenario{Bytes: [2]int{15000, 15000}, RcvBuf: [2]int{4096, 4096}, PauseRead: [2]int{1, 1}, PauseMs: [2]int{1500, 2500}, Close: "sim"})
	// the application enlarges its receive buffer while the window is shut, then reads on
	add("zero-window-buffer-enlarged", tcpx.Scenario{Bytes: [2]int{40000, 0}, RcvBuf: [2]int{0, 4096}, PauseRead: [2]int{1, 0}, PauseMs: [2]int{3000, 0}, GrowRcvBuf: [2]int{65536, 0}, Close: "AB"})
	add("zero-window-buffer-enlarged-reverse", tcpx.Scenario{Bytes: [2]int{0, 40000}, RcvBuf: [2]int{4096, 0}, PauseRead: [2]int{0, 1}, PauseMs: [2]int{0, 2000}, GrowRcvBuf: [2]int{0, 1 << 20}, MaxChunk: [2]int{0, 1000}, Close: "BA"})
	// the right edge of the receive window crosses 2^32 (2^31) while its left edge is still below
	u := func(v uint32) *uint32 { return &v }
	add("zero-window-edge-crosses-2^32", tcpx.Scenario{Bytes: [2]int{30000, 0}, RcvBuf: [2]int{0, 4096}, ISS: u(1<<32 - 6001), Close: "AB"})
	add("zero-window-edge-crosses-2^32-30k", tcpx.Scenario{Bytes: [2]int{120000, 0}, RcvBuf: [2]int{0, 30000}, ISS: u(1<<32 - 40001), Close: "AB"})
	add("zero-window-edge-crosses-2^31", tcpx.Scenario{Bytes: [2]int{30000, 0}, RcvBuf: [2]int{0, 4096}, ISS: u(1<<31 - 6001), Close: "AB"})
	add("zero-window-edge-crosses-2^32-reverse", tcpx.Scenario{Bytes: [2]int{0, 60000}, RcvBuf: [2]int{8192, 0}, PassiveISS: u(1<<32 - 12001), Close: "BA"})
	// the same with receive buffers large enough for the stack to scale its own window
	add("zero-window-scaled", tcpx.Scenario{Bytes: [2]int{400000, 0}, RcvBuf: [2]int{0, 100000}, PauseRead: [2]int{1, 0}, PauseMs: [2]int{3000, 0}, Close: "AB"})
	add("zero-window-scaled-reverse", tcpx.Scenario{Bytes: [2]int{0, 700000}, RcvBuf: [2]int{262144, 0}, PauseRead: [2]int{0, 1}, PauseMs: [2]int{0, 2000}, MaxChunk: [2]int{0, 3000}, Close: "BA"})
	add("v6-cubic-xfer", tcpx.Scenario{Bytes: [2]int{30000, 30000}, V6: true, Close: "sim"})
	return out
}

// class of a packet identity (dir|flags|relseq|len or dir|ack|ackrel|wN)
func classify(key string, all []string) string {
	p := strings.Split(key, "|")
	dir := p[0]
	switch {
	case p[1] == "S" && dir == "0":
		return "syn"
	case p[1] == "S":
		return "synack"
	case strings.Contains(p[1], "F"):
		return "fin"
	case strings.Contains(p[1], "R"):
		return "rst"
	case p[1] == "ack":
		// window update: an earlier pure ACK of the same direction carried the same ack number
		for _, k := range all {
			if k == key {
				break
			}
			q := strings.Split(k, "|")
			if q[0] == dir && q[1] == "ack" && q[2] == p[2] {
				return "winupd"
			}
		}
		if p[2] == "1" && dir == "0" {
			return "hsack"
		}
		return "ack"
	}
	return "data"
}

type plan struct {
	Base   string           `json:"base"`
	Drops  []tcpx.DropRule  `json:"drops"`
	Delays []tcpx.DelayRule `json:"delays,omitempty"`
	Class  string           `json:"class"`
}

func judge(b *base, pl *plan, sc *tcpx.Scenario, res *tcpx.Result) {
	fired := 0
	_ = fired
	nontrivial := res.Connected || len(pl.Drops) > 0
	run.Case(fw.Hash(pl.Base, pl.Drops, pl.Delays), nontrivial)
	run.Count("runs", 1)
	run.Seen("drop_classes", pl.Class)
	for d := 0; d < 2; d++ {
		run.Count("retransmissions_seen", int64(res.Dir[d].Retrans))
		run.Count("bytes_delivered", res.Dir[d].Read)
	}
	replay := map[string]interface{}{"plan": pl, "scenario": sc, "result": res}
	if strings.HasPrefix(res.ConnectErr, "harness:") {
		run.Broken(res.ConnectErr)
		return
	}
	if res.Mismatch != "" {
		run.Violation("C02/content/"+pl.Base, res.Mismatch, replay)
	}
	if res.PastEOF != "" {
		run.Violation("C02/data-after-eof/"+pl.Base, res.PastEOF, replay)
	}
	if res.Stalled && !res.Connected && strings.HasPrefix(res.ConnectErr, "accept:") {
		if key, why, judged := halfOpen(res); judged {
			run.Violation(key, fmt.Sprintf("base %s, dropped %v: %s", b.Name, pl.Drops, why), replay)
		} else {
			run.Count("half_open_beyond_fault_bound(not judged)", 1)
		}
		return
	}
	if res.Stalled {
		key := "C02/stall/" + b.Name + "/drop=" + pl.Class
		if k2, _ := stallKey(sc, res); strings.HasPrefix(b.Name, "zero-window") && strings.HasPrefix(pl.Class, "delay") && strings.Contains(k2, "reordered-window-update") {
			key = k2
		} else if strings.HasPrefix(b.Name, "zero-window") && len(pl.Drops) > 0 && strings.Contains(k2, "lost-window-update") {
			// decided from the wire, whatever the plan called the dropped packet: the sender last
			// saw window 0 and the receiver's latest advertisement (window > 0) was the one dropped
			key = k2
		} else if strings.HasPrefix(b.Name, "zero-window") && strings.Contains(pl.Class, "winupd") {
			// the specific failing input: the receive window closed with nothing left in
			// flight, and the pure ACK that reopens it is lost
			key = "C02/stall/closed-window/lost-window-update"
		}
		run.Violation(key, fmt.Sprintf("base %s, dropped %v: after %v of virtual time the exchange has neither completed nor failed with an explicit error: read %d/%d and %d/%d bytes, end-of-stream %v/%v, connected=%v (%s); last packet emitted at %v / %v", b.Name, pl.Drops, res.Virtual, res.Dir[0].Read, sc.Bytes[0], res.Dir[1].Read, sc.Bytes[1], res.Dir[0].EOF, res.Dir[1].EOF, res.Connected, res.ConnectErr, res.LastTx[0], res.LastTx[1]), replay)
		return
	}
	if !res.Connected {
		run.Count("explicit_connect_failure:"+res.ConnectErr, 1)
		return
	}
	complete := res.Dir[0].EOF && res.Dir[1].EOF
	if !complete {
		run.Count("ended_with_explicit_error", 1)
		return
	}
	run.Count("completed", 1)
	// everything written before the shutdown was delivered, then end-of-stream
	for d := 0; d < 2; d++ {
		if res.Dir[d].Read != int64(sc.Bytes[d]) {
			run.Violation("C02/incomplete/"+pl.Base, fmt.Sprintf("direction %d reached end-of-stream after %d of %d bytes", d, res.Dir[d].Read, sc.Bytes[d]), replay)
		}
	}
	closingLost := strings.Contains(pl.Class, "fin") || strings.Contains(pl.Class, "ack")
	for i, m := range res.ClosedState {
		if m != "" {
			if closingLost {
				run.Count("closed_state_deviation_with_closing_packet_lost(recorded)", 1)
			} else {
				run.Violation("C02/closed-state/"+pl.Base, fmt.Sprintf("endpoint %d after an orderly close with no closing packet lost: %s", i, m), replay)
			}
		}
	}
	run.Count("closed_state_checked", 1)
}

// halfOpen classifies a run in which the active side's Connect succeeded but the passive
// side never handed a connection to Accept. judged=false: no segment of the active side
// reached the passive side although every delivered SYN-ACK was answered, and the fault
// plan dropped more than two handshake packets (answers and SYN-ACK retransmissions) -
// outside the property's fault bound; the passive side exhausted its retransmissions.
func halfOpen(res *tcpx.Result) (key, why string, judged bool) {
	h := res.Hs
	switch {
	case h.SynAckUnanswered:
		return "C02/stall/handshake/retransmitted-synack-unanswered", fmt.Sprintf("the active side is established, the passive side retransmitted its SYN-ACK (%d emitted, %d delivered) and the last one delivered drew no segment from the active side (%d emitted in all): the lost handshake ACK is never repeated", h.SynAckEmitted, h.SynAckDelivered, h.ClientEmitted), true
	case h.ClientDelivered > 0:
		return "C02/stall/handshake/ack-delivered-never-accepted", fmt.Sprintf("%d segments of the established active side reached the passive side (%d SYN-ACKs emitted), yet no connection was ever handed to Accept and nothing failed", h.ClientDelivered, h.SynAckEmitted), true
	case h.ClientDropped+h.SynAckDropped <= 2:
		return "C02/stall/handshake/not-recovered", fmt.Sprintf("only %d handshake segments of the active side and %d SYN-ACKs were lost (SYN-ACKs: %d emitted, %d delivered) and the passive side gave up or went quiet without the connection failing on the active side", h.ClientDropped, h.SynAckDropped, h.SynAckEmitted, h.SynAckDelivered), true
	}
	return "", fmt.Sprintf("%d handshake segments of the active side (all it emitted) and %d of %d SYN-ACKs were dropped by the fault plan", h.ClientDropped, h.SynAckDropped, h.SynAckEmitted), false
}

func stallKey(sc *tcpx.Scenario, res *tcpx.Result) (string, string) {
	// which direction still has data outstanding?
	// directions with unread data first; a direction whose only missing item is the
	// end-of-stream may simply not have been closed yet (close order), so it comes second
	for pass := 0; pass < 2; pass++ {
		for d := 0; d < 2; d++ {
			if pass == 0 && res.Dir[d].Read >= int64(sc.Bytes[d]) || pass == 1 && (res.Dir[d].Read < int64(sc.Bytes[d]) || res.Dir[d].EOF) {
				continue
			}
			if res.LastWndDelivered[d] == 0 && res.LastWndEmitted[d] == 0 && res.LastWndRefused[d] > 0 {
				// the receiver tried to reopen the window but its own link refused the packet
				// (device queue full): lost like any other window update
				return "C02/stall/closed-window/lost-window-update", fmt.Sprintf("direction %d: the sender last saw window 0; the receiver's window update (window %d) was refused by its link and never repeated", d, res.LastWndRefused[d])
			}
			if res.LastWndDelivered[d] == 0 && res.LastWndEmitted[d] > 0 {
				if res.LastWndDropped[d] {
					return "C02/stall/closed-window/lost-window-update", fmt.Sprintf("direction %d: the sender last saw window 0; the receiver's latest segment (window %d) was lost", d, res.LastWndEmitted[d])
				}
				return "C02/stall/closed-window/reordered-window-update", fmt.Sprintf("direction %d: the sender last saw window 0 although the receiver's latest segment advertises %d: an older zero-window ACK was delivered after the window update (no packet of that exchange was lost)", d, res.LastWndEmitted[d])
			}
		}
	}
	return "C02/stall/random-faults", "no closed-window explanation"
}

func randomChild(t *testing.T) {
	var lo, hi int
	fmt.Sscan(os.Getenv("VERIF_RANGE"), &lo, &hi)
	vt.Bubble(t, func() {
		for k := lo; k < hi; k++ {
			sc := tcpx.Gen(run.Seed, "C02", k, false)
			// keep these small: the point is the close/stall behaviour, not bulk transfer
			for d := 0; d < 2; d++ {
				if sc.Bytes[d] > 300000 {
					sc.Bytes[d] = 300000
				}
			}
			sc.Probe = true // the sender state at the last segment goes into the replay file
			res := tcpx.Run(sc, nil)
			run.Case(fw.Hash("random", k), res.Connected)
			run.Count("random_fault_runs", 1)
			if res.StillActive {
				run.Count("random_still_transferring_at_deadline(not judged)", 1)
			}
			if strings.HasPrefix(res.ConnectErr, "harness:") {
				run.Broken(res.ConnectErr)
			}
			if res.Stalled && !res.Connected && strings.HasPrefix(res.ConnectErr, "accept:") {
				if key, why, judged := halfOpen(&res); judged {
					run.Violation(key, fmt.Sprintf("random-fault scenario %d: %s", k, why), map[string]interface{}{"scenario": sc, "result": res})
				} else {
					run.Count("random_half_open_beyond_fault_bound(not judged)", 1)
					run.Sample(fmt.Sprintf("random scenario %d not judged: %s (SYN-ACKs emitted %d, delivered %d)", k, why, res.Hs.SynAckEmitted, res.Hs.SynAckDelivered))
				}
			} else if res.Stalled {
				key, why := stallKey(sc, &res)
				run.Violation(key, fmt.Sprintf("random-fault scenario %d: quiet for more than 6 virtual minutes with data or FIN outstanding and no explicit error (read %d/%d and %d/%d, last packets at %v / %v, deadline %v): %s", k, res.Dir[0].Read, sc.Bytes[0], res.Dir[1].Read, sc.Bytes[1], res.LastTx[0], res.LastTx[1], res.Virtual, why), map[string]interface{}{"scenario": sc, "result": res})
			} else if res.Connected && res.Dir[0].EOF && res.Dir[1].EOF {
				run.Count("random_completed", 1)
			} else {
				run.Count("random_explicit_error_or_slow", 1)
			}
			if run.Violations() >= 4 {
				break
			}
		}
		os.Exit(run.Finish("", nil))
	})
}

func child(t *testing.T) {
	if os.Getenv("VERIF_RANGE") != "" {
		randomChild(t)
		return
	}
	var plans []plan
	b, _ := os.ReadFile(os.Getenv("VERIF_PLANS"))
	json.Unmarshal(b, &plans)
	bs := map[string]*base{}
	for _, x := range bases() {
		x := x
		bs[x.Name] = &x
	}
	cur := filepath.Join(os.Getenv("VERIF_RUN_DIR"), os.Getenv("VERIF_TAG")+".current.json")
	vt.Bubble(t, func() {
		enumerate := os.Getenv("VERIF_ENUM") == "1"
		ids := map[string][]string{}
		for i := range plans {
			pl := &plans[i]
			bb := bs[pl.Base]
			sc := bb.Sc
			sc.K = i
			sc.Drops = pl.Drops
			sc.Delays = pl.Delays
			jb, _ := json.Marshal(pl)
			os.WriteFile(cur, jb, 0o644)
			res := tcpx.Run(&sc, nil)
			if enumerate {
				ids[pl.Base] = res.Identities
			}
			judge(bb, pl, &sc, &res)
			if run.Violations() >= 6 {
				break
			}
		}
		if enumerate {
			run.Note("identities", ids)
		}
		os.Remove(cur)
		os.Exit(run.Finish("", nil))
	})
}

func TestC02(t *testing.T) {
	log.SetOutput(io.Discard)
	tcpx.InstallSteering() // initial sequence numbers are placed by the scenario
	run = fw.Start("C02", "fault_enumeration")
	if fw.IsChild() {
		child(t)
		return
	}
	dir := os.Getenv("VERIF_RUN_DIR")
	bl := bases()
	// phase 1: fault-free runs enumerate the packet identities of every base exchange
	var p1 []plan
	for _, b := range bl {
		p1 = append(p1, plan{Base: b.Name, Class: "none"})
	}
	writePlans := func(name string, p []plan) string {
		f := filepath.Join(dir, name)
		b, _ := json.Marshal(p)
		os.WriteFile(f, b, 0o644)
		return f
	}
	ids := map[string][]string{}
	{
		// split the enumeration over a few children
		var wg sync.WaitGroup
		var mu sync.Mutex
		n := 8
		for c := 0; c < n; c++ {
			c := c
			wg.Add(1)
			go func() {
				defer wg.Done()
				part := p1[len(p1)*c/n : len(p1)*(c+1)/n]
				tag := fmt.Sprintf("enum%d", c)
				res := run.RunChild(fw.ChildSpec{Bin: os.Getenv("VERIF_BIN_VT"), Test: "^TestC02$", Tag: tag, Env: []string{"VERIF_PLANS=" + writePlans(tag+".plans.json", part), "VERIF_ENUM=1", "VERIF_TAG=" + tag}, Timeout: 10 * time.Minute})
				if !res.Done {
					run.ChildCrashed(res, "C02", nil)
					return
				}
				// identities come back through the child's notes
				b, err := os.ReadFile(filepath.Join(dir, tag+".out.json"))
				if err == nil {
					var d struct {
						Notes struct {
							Identities map[string][]string `json:"identities"`
						} `json:"notes"`
					}
					json.Unmarshal(b, &d)
					mu.Lock()
					for k, v := range d.Notes.Identities {
						ids[k] = v
					}
					mu.Unlock()
				}
			}()
		}
		wg.Wait()
	}
	run.Note("identities", nil)
	// phase 2: drop plans
	var plans []plan
	rng := fw.NewRand(run.Seed, "C02", "pairs")
	totalIDs := 0
	for _, b := range bl {
		all := ids[b.Name]
		totalIDs += len(all)
		// one representative per (class, position bucket): first, middle, last of each class + PRNG extras
		byClass := map[string][]string{}
		for _, k := range all {
			c := classify(k, all)
			byClass[c] = append(byClass[c], k)
		}
		var chosen []string
		classes := make([]string, 0, len(byClass))
		for c := range byClass {
			classes = append(classes, c)
		}
		sort.Strings(classes)
		for _, c := range classes {
			ks := byClass[c]
			pick := map[int]bool{0: true, len(ks) - 1: true, len(ks) / 2: true}
			extra := fw.N(1, 6)
			if fw.Thorough() && len(ks) <= 40 {
				for i := range ks {
					pick[i] = true
				}
			}
			for i := 0; i < extra; i++ {
				pick[rng.Intn(len(ks))] = true
			}
			idx := make([]int, 0, len(pick))
			for i := range pick {
				idx = append(idx, i)
			}
			sort.Ints(idx)
			for _, i := range idx {
				chosen = append(chosen, ks[i])
			}
		}
		for _, k := range chosen {
			for _, m := range []int{1, 2} {
				plans = append(plans, plan{Base: b.Name, Drops: []tcpx.DropRule{{Key: k, Times: m}}, Class: fmt.Sprintf("%sx%d", classify(k, all), m)})
			}
		}
		// pairs: across class pairs
		npairs := fw.N(6, 60)
		for i := 0; i < npairs && len(chosen) >= 2; i++ {
			a, c := chosen[rng.Intn(len(chosen))], chosen[rng.Intn(len(chosen))]
			if a == c {
				continue
			}
			ca, cc := classify(a, all), classify(c, all)
			if ca > cc {
				ca, cc = cc, ca
			}
			plans = append(plans, plan{Base: b.Name, Drops: []tcpx.DropRule{{Key: a, Times: 1}, {Key: c, Times: 1}}, Class: ca + "+" + cc})
		}
	}
	// reordering plans: hold back one ACK / window update / data segment so that it
	// arrives after its successors (the network may reorder; nothing is lost)
	for _, b := range bl {
		all := ids[b.Name]
		n := 0
		for _, k := range all {
			c := classify(k, all)
			if c != "ack" && c != "winupd" && c != "data" && c != "fin" {
				continue
			}
			zw := strings.HasSuffix(k, "|w0")
			if !zw && n >= fw.N(4, 40) {
				continue
			}
			n++
			for _, ms := range []int{40, 5000} {
				plans = append(plans, plan{Base: b.Name, Delays: []tcpx.DelayRule{{Key: k, Ms: ms}}, Class: fmt.Sprintf("delay-%s-%dms", c, ms)})
			}
		}
	}
	run.Count("base_exchanges", int64(len(bl)))
	run.Count("packet_identities_enumerated", int64(totalIDs))
	run.Count("drop_plans", int64(len(plans)))
	if len(plans) > 0 {
		run.Sample(plans[0])
		run.Sample(plans[len(plans)/2])
	}
	nchild := 16
	var wg sync.WaitGroup
	for c := 0; c < nchild; c++ {
		c := c
		wg.Add(1)
		go func() {
			defer wg.Done()
			var part []plan
			for i := c; i < len(plans); i += nchild {
				part = append(part, plans[i])
			}
			tag := fmt.Sprintf("drop%d", c)
			res := run.RunChild(fw.ChildSpec{Bin: os.Getenv("VERIF_BIN_VT"), Test: "^TestC02$", Tag: tag, Env: []string{"VERIF_PLANS=" + writePlans(tag+".plans.json", part), "VERIF_TAG=" + tag}, Timeout: time.Duration(fw.N(10, 120)) * time.Minute})
			if !res.Done {
				var pl interface{}
				if b, err := os.ReadFile(filepath.Join(dir, tag+".current.json")); err == nil {
					json.Unmarshal(b, &pl)
				}
				run.ChildCrashed(res, "C02", pl)
			}
		}()
	}
	nrand := fw.N(480, 30000)
	for c := 0; c < nchild; c++ {
		c := c
		wg.Add(1)
		go func() {
			defer wg.Done()
			tag := fmt.Sprintf("rand%d", c)
			res := run.RunChild(fw.ChildSpec{Bin: os.Getenv("VERIF_BIN_VT"), Test: "^TestC02$", Tag: tag, Env: []string{fmt.Sprintf("VERIF_RANGE=%d %d", nrand*c/nchild, nrand*(c+1)/nchild), "VERIF_TAG=" + tag}, Timeout: time.Duration(fw.N(10, 120)) * time.Minute})
			if !res.Done {
				run.ChildCrashed(res, "C02", tag)
			}
		}()
	}
	wg.Wait()
	code := run.Finish("fault enumeration in virtual time: each base exchange (sizes 0..200000 in both directions, three close orders, half-close then data, closed receive window in exact-fit / overshoot / reverse / both timings, IPv6+SACK variants) is run fault-free to enumerate its packet identities (direction, flags, relative sequence, length; pure ACKs by ack number and window); then, per class (SYN, SYN-ACK, handshake ACK, data, ACK, window update, FIN), the first/middle/last and PRNG-chosen identities (thorough: all when <= 40) are dropped once and twice, and PRNG-chosen pairs are dropped together. Verdict per run: completed (all bytes then end-of-stream on both sides, closed-state observables right) or explicit error by 30 virtual minutes; anything else is a stall. plus PRNG-configured scenarios with random per-packet drop/duplicate/delay/replay on both directions (as in C01), judged for silent stalls only (quiet for more than 6 virtual minutes without completion or explicit error). distinct = distinct (base, drop plan) + random scenarios Later additions: After an orderly close with no closing packet lost both endpoints must stay silent for a further virtual minute (an endpoint that still retransmits its FIN never reached the closed state). Further base exchanges: receive buffer enlarged at a closed window; the window's right edge crossing 2^32 / 2^31 with its left edge below (steered ISS); link refusal of packets in the random scenarios.",
		[]string{"'eventually' is restated as 'by 30 minutes of virtual time' (longest legitimate silence: the RTO ladder, about 3.5 min)", "buffer sizes stay within the stack's own limits (>= 4096)", "closed-state observables are judged only when no FIN/ACK of the exchange was dropped"})
	os.Exit(code)
}
