package vt

import "os"

// RepoDir is the source root of the code under test as it appears in stack traces:
// /repo, or VERIF_REPO when the harness is built against a scratch copy (h/go.mod's
// replace directive then points there too).
var RepoDir = func() string {
	if d := os.Getenv("VERIF_REPO"); d != "" {
		return d
	}
	return "/repo"
}()
