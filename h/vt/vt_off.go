//go:build !go1.25

package vt

import (
	"testing"
	"time"

	"github.com/brewlin/net-protocol/pkg/sleep"
)

const Virtual = false

func Bubble(t *testing.T, f func()) {
	sleep.VerifWaitReason = 9 // waitReasonSelect on go1.23.5
	f()
}

// Quiesce in real time is a short pause (used only by safety-only oracles).
func Quiesce() { time.Sleep(2 * time.Millisecond) }

// Tick is a no-op without virtual time.
func Tick() {}

// OnBusy is only used by the virtual-time build.
var OnBusy func(fn, frame, dump string)
