//go:build go1.25

// Package vt runs a function inside a testing/synctest bubble (virtual time).
package vt

import (
	"testing"
	"testing/synctest"

	"github.com/brewlin/net-protocol/pkg/sleep"
)

const Virtual = true

// Bubble runs f in a bubble. f must end the process itself (os.Exit) if it
// leaves goroutines behind - the stack's goroutines never exit.
func Bubble(t *testing.T, f func()) {
	sleep.VerifWaitReason = 14 // waitReasonSleep on go1.26.8: counted as idle by synctest
	synctest.Test(t, func(t *testing.T) { f() })
}

// Quiesce waits until every goroutine in the bubble is durably blocked.
func Quiesce() { synctest.Wait() }
