//go:build go1.25

// Package vt runs a function inside a testing/synctest bubble (virtual time).
package vt

import (
	"regexp"
	"runtime"
	"strings"
	"sync/atomic"
	"testing"
	"testing/synctest"
	"time"

	"github.com/brewlin/net-protocol/pkg/sleep"
)

const Virtual = true

var progress int64

// OnBusy is called (from outside the bubble) when the bubble has not reached quiescence
// for two minutes of real time and the same goroutine was found running in the same
// repository function in two goroutine dumps five seconds apart: the code under test
// spins. fn is that function, frame its file:line, dump the second goroutine dump.
var OnBusy func(fn, frame, dump string)

var goroutineRe = regexp.MustCompile(`^goroutine (\d+) [^\[]*\[(running|runnable|sync\.Mutex\.Lock|sync\.RWMutex\.R?Lock|semacquire)`)

// busy returns goroutine id -> (function, file:line, state) of the innermost repository
// frame of every goroutine that is running / runnable, or waiting for a sync mutex (which
// a bubble cannot wait out: virtual time stands still until the lock is released).
func busy(dump string) map[string][3]string {
	out := map[string][3]string{}
	for _, blk := range strings.Split(dump, "\n\n") {
		lines := strings.Split(blk, "\n")
		m := goroutineRe.FindStringSubmatch(lines[0])
		if m == nil {
			continue
		}
		for i := 1; i+1 < len(lines); i += 2 {
			file := strings.TrimSpace(lines[i+1])
			if strings.HasPrefix(file, RepoDir+"/") {
				fn := lines[i]
				if j := strings.LastIndex(fn, "("); j > 0 {
					fn = fn[:j]
				}
				if j := strings.Index(file, " "); j > 0 {
					file = file[:j]
				}
				out[m[1]] = [3]string{fn, file, m[2]}
				break
			}
			if !strings.Contains(file, "/src/runtime/") && !strings.Contains(file, "/src/sync/") && !strings.Contains(file, "/src/internal/") {
				break // innermost non-runtime frame is not repository code
			}
		}
	}
	return out
}

func monitor() {
	last, still := int64(-1), 0
	for {
		time.Sleep(10 * time.Second)
		p := atomic.LoadInt64(&progress)
		if p != last {
			last, still = p, 0
			continue
		}
		if still++; still < 12 {
			continue
		}
		stacks := func() string {
			buf := make([]byte, 32<<20)
			return string(buf[:runtime.Stack(buf, true)])
		}
		a := busy(stacks())
		time.Sleep(5 * time.Second)
		d2 := stacks()
		b := busy(d2)
		if atomic.LoadInt64(&progress) != last {
			last, still = -1, 0
			continue
		}
		for id, x := range a {
			if y, ok := b[id]; ok && x[0] == y[0] && x[2] == y[2] && OnBusy != nil {
				OnBusy(x[0], y[1]+" ["+y[2]+"]", d2)
				return
			}
		}
		still = 0
	}
}

// Bubble runs f in a bubble. f must end the process itself (os.Exit) if it
// leaves goroutines behind - the stack's goroutines never exit.
func Bubble(t *testing.T, f func()) {
	sleep.VerifWaitReason = 14 // waitReasonSleep on go1.26.8: counted as idle by synctest
	go monitor()
	synctest.Test(t, func(t *testing.T) { f() })
}

// Quiesce waits until every goroutine in the bubble is durably blocked.
func Quiesce() {
	synctest.Wait()
	atomic.AddInt64(&progress, 1)
}

// Tick tells the busy-loop monitor that the harness saw activity (a frame emitted or
// delivered, a step finished).
func Tick() { atomic.AddInt64(&progress, 1) }
