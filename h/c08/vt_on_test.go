//go:build go1.25

package c08

import (
	"bytes"
	"fmt"
	"testing"
	"testing/synctest"
	"time"

	"github.com/brewlin/net-protocol/protocol/network/fragmentation"
	"verifh/fw"
)

// vtPhase: the reassembly-timeout clause, in virtual time (API level).
func vtPhase(t *testing.T) {
	synctest.Test(t, func(t *testing.T) {
		n := fw.N(2000, 100000)
		for i := 0; i < n; i++ {
			r := fw.NewRand(run.Seed, "C08", "timeout", i)
			timeout := fragmentation.DefaultReassembleTimeout
			if i%2 == 1 {
				timeout = time.Duration(1+r.Intn(20000)) * time.Millisecond
			}
			f := fragmentation.NewFragmentation(fragmentation.HighFragThreshold, fragmentation.LowFragThreshold, timeout)
			ref := newRef(timeout)
			size := 16 + r.Intn(3000)
			key := uint32(900 + i%7)
			frs := genDatagram(r, key, size, 2+r.Intn(10))
			perm := r.Perm(len(frs))
			// pauses: mostly short, sometimes just below / at / just above the timeout
			var seq []frag
			var pauses []time.Duration
			for _, p := range perm {
				seq = append(seq, frs[p])
				var d time.Duration
				switch r.Intn(8) {
				case 0:
					d = timeout - time.Millisecond
				case 1:
					d = timeout
				case 2:
					d = timeout + time.Millisecond
				case 3:
					d = timeout + time.Duration(r.Intn(5000))*time.Millisecond
				default:
					d = time.Duration(r.Intn(int(timeout/8/time.Millisecond)+1)) * time.Millisecond
				}
				pauses = append(pauses, d)
			}
			// after the (possibly expired) first pass, a complete fresh set must be delivered
			fresh := genDatagram(r, key, size, 2+r.Intn(6))
			expired := 0
			step := func(fr frag, label string, idx int) bool {
				now := time.Now()
				before := ref.sets[fr.Key]
				if before != nil && now.Sub(before.created) > timeout {
					expired++
				}
				vv, done := f.Process(fr.Key, uint16(fr.Off), uint16(fr.End-1), fr.More, fragView(fr, 1))
				want, sz := ref.feed(fr, now)
				if done != want {
					run.Violation("C08/timeout/"+label, fmt.Sprintf("timeout %v: fragment %d %+v at +%v: delivered=%v but a complete unexpired set present=%v", timeout, idx, fr, now.Sub(time.Time{}), done, want), map[string]interface{}{"timeout_ms": timeout.Milliseconds(), "fragments": seq, "pauses_ms": pauses})
					return false
				}
				if done && !bytes.Equal(vv.ToView(), original(fr.Key, sz)) {
					run.Violation("C08/timeout/content", "reassembled content differs from the original", nil)
					return false
				}
				return true
			}
			ok := true
			for k, fr := range seq {
				if !step(fr, "combine-across-expiry", k) {
					ok = false
					break
				}
				time.Sleep(pauses[k])
			}
			if ok {
				time.Sleep(timeout + time.Second) // whatever is left is stale now
				for k, fr := range fresh {
					if !step(fr, "fresh-set-after-expiry", k) {
						break
					}
				}
			}
			run.Case(fw.Hash("timeout", timeout/time.Second, len(seq), expired), expired > 0)
			run.Count("timeout_scenarios", 1)
			run.Count("sets_expired_before_completion", int64(expired))
		}
	})
}
