//go:build go1.25

package c08

import (
	"bytes"
	"fmt"
	"os"
	"testing"
	"testing/synctest"
	"time"

	"github.com/brewlin/net-protocol/pkg/waiter"
	tcpip "github.com/brewlin/net-protocol/protocol"
	"github.com/brewlin/net-protocol/protocol/header"
	"github.com/brewlin/net-protocol/protocol/network/fragmentation"
	"github.com/brewlin/net-protocol/protocol/network/hash"
	"github.com/brewlin/net-protocol/protocol/network/ipv4"
	"github.com/brewlin/net-protocol/protocol/transport/udp"
	"verifh/fw"
	"verifh/rfc"
	"verifh/wire"
)

// vtPhase: the reassembly-timeout clause, in virtual time (API level).
func vtPhase(t *testing.T) {
	synctest.Test(t, func(t *testing.T) {
		endToEnd()
		n := fw.N(2000, 100000)
		for i := 0; i < n; i++ {
			r := fw.NewRand(run.Seed, "C08", "timeout", i)
			timeout := fragmentation.DefaultReassembleTimeout
			if i%2 == 1 {
				timeout = time.Duration(1+r.Intn(20000)) * time.Millisecond
			}
			f := fragmentation.NewFragmentation(fragmentation.HighFragThreshold, fragmentation.LowFragThreshold, timeout)
			ref := newRef(timeout)
			size := 16 + r.Intn(3000)
			key := uint32(900 + i%7)
			frs := genDatagram(r, key, size, 2+r.Intn(10))
			perm := r.Perm(len(frs))
			// pauses: mostly short, sometimes just below / at / just above the timeout
			var seq []frag
			var pauses []time.Duration
			for _, p := range perm {
				seq = append(seq, frs[p])
				var d time.Duration
				switch r.Intn(8) {
				case 0:
					d = timeout - time.Millisecond
				case 1:
					d = timeout
				case 2:
					d = timeout + time.Millisecond
				case 3:
					d = timeout + time.Duration(r.Intn(5000))*time.Millisecond
				default:
					d = time.Duration(r.Intn(int(timeout/8/time.Millisecond)+1)) * time.Millisecond
				}
				pauses = append(pauses, d)
			}
			// after the (possibly expired) first pass, a complete fresh set must be delivered
			fresh := genDatagram(r, key, size, 2+r.Intn(6))
			expired := 0
			step := func(fr frag, label string, idx int) bool {
				now := time.Now()
				before := ref.sets[fr.Key]
				if before != nil && now.Sub(before.created) > timeout {
					expired++
				}
				vv, done := f.Process(fr.Key, uint16(fr.Off), uint16(fr.End-1), fr.More, fragView(fr, 1))
				want, sz := ref.feed(fr, now)
				if done != want {
					run.Violation("C08/timeout/"+label, fmt.Sprintf("timeout %v: fragment %d %+v at +%v: delivered=%v but a complete unexpired set present=%v", timeout, idx, fr, now.Sub(time.Time{}), done, want), map[string]interface{}{"timeout_ms": timeout.Milliseconds(), "fragments": seq, "pauses_ms": pauses})
					return false
				}
				if done && !bytes.Equal(vv.ToView(), original(fr.Key, sz)) {
					run.Violation("C08/timeout/content", "reassembled content differs from the original", nil)
					return false
				}
				return true
			}
			ok := true
			for k, fr := range seq {
				if !step(fr, "combine-across-expiry", k) {
					ok = false
					break
				}
				time.Sleep(pauses[k])
			}
			if ok {
				time.Sleep(timeout + time.Second) // whatever is left is stale now
				for k, fr := range fresh {
					if !step(fr, "fresh-set-after-expiry", k) {
						break
					}
				}
			}
			run.Case(fw.Hash("timeout", timeout/time.Second, len(seq), expired), expired > 0)
			run.Count("timeout_scenarios", 1)
			run.Count("sets_expired_before_completion", int64(expired))
		}
		// the stack's goroutines never exit: leave the bubble by ending the process
		os.Exit(run.Finish("", nil))
	})
}

// ---- end to end: fragments injected as IPv4 packets for a bound UDP socket ------------

type dgram struct {
	src, dst [4]byte
	id       uint16
	proto    uint8
	sport    uint16
	payload  []byte
}

// pieces cuts the UDP datagram into fragments at 8-byte boundaries.
func (d dgram) pieces(r *fw.Rand, n int) [][]byte {
	u := rfc.UDP{SrcPort: d.sport, DstPort: 7000, Payload: d.payload}
	whole := u.Bytes4(d.src, d.dst, true)
	blocks := (len(whole) + 7) / 8
	if n > blocks {
		n = blocks
	}
	cut := map[int]bool{}
	for len(cut) < n-1 {
		cut[1+r.Intn(blocks-1)] = true
	}
	var out [][]byte
	st := 0
	for b := 1; b <= blocks; b++ {
		if cut[b] || b == blocks {
			e := b * 8
			if e > len(whole) {
				e = len(whole)
			}
			f := rfc.IPv4{TTL: 64, Proto: d.proto, ID: d.id, Src: d.src, Dst: d.dst, FragOff: uint16(st / 8), Payload: whole[st:e]}
			if e < len(whole) {
				f.Flags = 1
			}
			out = append(out, f.Bytes(true))
			st = e
		}
	}
	return out
}

func e2ePayload(tag uint32, n int) []byte {
	b := make([]byte, n)
	for i := range b {
		b[i] = byte(uint32(i)*2654435761>>24) ^ byte(tag*97)
	}
	b[0], b[1], b[2], b[3] = byte(tag>>24), byte(tag>>16), byte(tag>>8), byte(tag)
	return b
}

func endToEnd() {
	h, err := wire.NewHost(wire.HostCfg{Name: "F", MTU: 1500, V4: []tcpip.Address{wire.AddrA4, "\x0a\x00\x00\x05"}})
	if err != nil {
		run.Broken("harness: " + err.Error())
		return
	}
	ep, _ := h.S.NewEndpoint(udp.ProtocolNumber, ipv4.ProtocolNumber, &waiter.Queue{})
	ep.Bind(tcpip.FullAddress{Port: 7000}, nil)
	// linkPad: bytes the link appends behind each IP packet (minimum frame size, trailers);
	// they are not part of the packet and must not find their way into a datagram
	linkPad := 0
	inject := func(b []byte) {
		if linkPad > 0 {
			b = append([]byte(nil), b...)
			for i := 0; i < linkPad; i++ {
				b = append(b, byte(0xa5+i))
			}
		}
		h.L.Inject(ipv4.ProtocolNumber, b, "")
	}
	readAll := func() (got [][]byte) {
		for {
			v, _, e := ep.Read(nil)
			if e != nil {
				return
			}
			got = append(got, v)
		}
	}
	same := func(got [][]byte, want ...[]byte) bool {
		if len(got) != len(want) {
			return false
		}
		used := make([]bool, len(want))
		for _, g := range got {
			ok := false
			for i, w := range want {
				if !used[i] && bytes.Equal(g, w) {
					used[i], ok = true, true
					break
				}
			}
			if !ok {
				return false
			}
		}
		return true
	}
	a4 := func(a tcpip.Address) (r [4]byte) { copy(r[:], a); return }
	n := fw.N(400, 40000)
	for k := 0; k < n && run.Violations() < 4; k++ {
		r := fw.NewRand(run.Seed, "C08", "e2e", k)
		base := dgram{src: [4]byte{10, 0, 0, 2}, dst: a4(wire.AddrA4), id: uint16(r.U32()), proto: rfc.ProtoUDP, sport: 999, payload: e2ePayload(uint32(2*k), 64+r.Intn(3000))}
		other := base
		other.payload = e2ePayload(uint32(2*k+1), 64+r.Intn(3000))
		diff := []string{"id", "src", "dst", "src-last-octet"}[r.Intn(4)]
		switch diff {
		case "id":
			other.id = base.id + uint16(1+r.Intn(3))
		case "src":
			other.src = [4]byte{10, 0, byte(1 + r.Intn(200)), 2}
		case "src-last-octet":
			other.src = [4]byte{10, 0, 0, byte(3 + r.Intn(200))}
		case "dst":
			other.dst = [4]byte{10, 0, 0, 5}
		}
		pa, pb := base.pieces(r, 2+r.Intn(6)), other.pieces(r, 2+r.Intn(6))
		// interleave the two datagrams' fragments in PRNG order
		var seq [][]byte
		ia, ib := r.Perm(len(pa)), r.Perm(len(pb))
		for len(ia)+len(ib) > 0 {
			if len(ib) == 0 || (len(ia) > 0 && r.Bool()) {
				seq = append(seq, pa[ia[0]])
				ia = ia[1:]
			} else {
				seq = append(seq, pb[ib[0]])
				ib = ib[1:]
			}
		}
		mode := r.Intn(4)
		linkPad = 0
		if r.Chance(1, 4) {
			linkPad = []int{1, 7, 8, 18, 1 + r.Intn(60)}[r.Intn(5)]
			run.Count("e2e_rounds_with_link_padding", 1)
		}
		rep := map[string]interface{}{"k": k, "differs_in": diff, "fragments": []int{len(pa), len(pb)}, "mode": mode, "link_padding": linkPad}
		switch mode {
		case 0, 1: // both complete: both delivered intact, nothing mixed
			for _, f := range seq {
				inject(f)
			}
			if got := readAll(); !same(got, base.payload, other.payload) {
				lens := []int{}
				for _, g := range got {
					lens = append(lens, len(g))
				}
				run.Violation("C08/e2e/mixed-or-lost", fmt.Sprintf("two datagrams differing only in %s, fragments interleaved: socket returned %d datagrams of lengths %v; expected the two originals (%d and %d bytes) intact", diff, len(got), lens, len(base.payload), len(other.payload)), rep)
			}
			run.Count("e2e_interleaved_pairs", 1)
		case 2: // one fragment of B withheld: only A may be delivered
			skip := pb[r.Intn(len(pb))]
			for _, f := range seq {
				if &f[0] != &skip[0] {
					inject(f)
				}
			}
			if got := readAll(); !same(got, base.payload) {
				if len(got) == 1 {
					run.Violation("C08/e2e/mixed-or-lost", fmt.Sprintf("two datagrams differing only in %s, fragments interleaved, one fragment of the second withheld: the socket returned one datagram of %d bytes that is not the complete first one (%d bytes)", diff, len(got[0]), len(base.payload)), rep)
				} else {
					run.Violation("C08/e2e/incomplete-delivered", fmt.Sprintf("one fragment of the second datagram (differs in %s) never arrived, yet the socket returned %d datagrams", diff, len(got)), rep)
				}
			}
			// leftovers of B stay in the reassembler; let them age out so that they cannot meet a later datagram
			time.Sleep(31 * time.Second)
			run.Count("e2e_incomplete_sets", 1)
		case 3: // half of A, 31 virtual seconds, the other half: nothing; then a fresh complete set: delivered
			half := len(pa) / 2
			if half == 0 {
				half = 1
			}
			for _, f := range pa[:half] {
				inject(f)
			}
			time.Sleep(31 * time.Second)
			for _, f := range pa[half:] {
				inject(f)
			}
			if got := readAll(); len(got) != 0 {
				run.Violation("C08/e2e/combined-across-timeout", fmt.Sprintf("fragments separated by 31 s (reassembly timeout 30 s) were combined into a %d-byte datagram", len(got[0])), rep)
			}
			time.Sleep(31 * time.Second)
			for _, f := range pa {
				inject(f)
			}
			if got := readAll(); !same(got, base.payload) {
				run.Violation("C08/e2e/fresh-set-not-delivered", fmt.Sprintf("a complete fresh set after the stale fragments expired yielded %d datagrams", len(got)), rep)
			}
			run.Count("e2e_timeout_rounds", 1)
		}
		run.Case(fw.Hash("e2e", diff, mode, len(pa), len(pb)), true)
	}
	// the reassembly key is a 32-bit hash of (id, protocol, source, destination): look for two
	// different keys with the same hash (birthday search through the exported hash function)
	seen := map[uint32][2]uint32{}
	r := fw.NewRand(run.Seed, "C08", "collide")
	var ka, kb [2]uint32
	found := false
	for i := 0; i < 400000 && !found; i++ {
		id, last := r.U32()&0xffff, r.U32()
		hb := rfc.IPv4{TTL: 64, Proto: rfc.ProtoUDP, ID: uint16(id), Src: [4]byte{10, byte(last >> 16), byte(last >> 8), byte(last)}, Dst: a4(wire.AddrA4)}.Bytes(true)
		hv := hash.IPv4FragmentHash(header.IPv4(hb))
		key := [2]uint32{id, last & 0xffffff}
		if o, ok := seen[hv]; ok && o != key {
			ka, kb, found = o, key, true
		}
		seen[hv] = key
	}
	run.Count("hash_keys_sampled", int64(len(seen)))
	if found {
		mk := func(k [2]uint32, tag uint32) dgram {
			return dgram{src: [4]byte{10, byte(k[1] >> 16), byte(k[1] >> 8), byte(k[1])}, dst: a4(wire.AddrA4), id: uint16(k[0]), proto: rfc.ProtoUDP, sport: 999, payload: e2ePayload(tag, 200)}
		}
		da, db := mk(ka, 0xAAAA0001), mk(kb, 0xBBBB0002)
		pa, pb := da.pieces(r, 2), db.pieces(r, 2)
		inject(pa[0])
		inject(pb[1])
		inject(pb[0])
		inject(pa[1])
		got := readAll()
		if !same(got, da.payload, db.payload) {
			run.Violation("C08/e2e/hash-collision-mixes-datagrams", fmt.Sprintf("datagrams (id %d from 10.%d.%d.%d) and (id %d from 10.%d.%d.%d) differ in identification and source but share the 32-bit reassembly hash: with their fragments interleaved the socket returned %d datagrams, none or not both of them the originals", ka[0], ka[1]>>16, ka[1]>>8&255, ka[1]&255, kb[0], kb[1]>>16, kb[1]>>8&255, kb[1]&255, len(got)), map[string]interface{}{"key_a": ka, "key_b": kb})
		}
		run.Count("hash_collision_pairs_tested", 1)
	}
}
