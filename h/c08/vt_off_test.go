//go:build !go1.25

package c08

import "testing"

func vtPhase(t *testing.T) { run.Broken("virtual-time phase needs the go1.26.8 build") }
