package c08

import (
	"bytes"
	"fmt"
	"io"
	"log"
	"os"
	"runtime"
	"sync"
	"sync/atomic"
	"testing"
	"time"

	"github.com/brewlin/net-protocol/pkg/buffer"
	"github.com/brewlin/net-protocol/protocol/network/fragmentation"
	"verifh/fw"
)

var run *fw.Run

// frag is one fragment of datagram Key: bytes [Off, End) of the original.
type frag struct {
	Key  uint32 `json:"key"`
	Off  int    `json:"off"`
	End  int    `json:"end"`
	More bool   `json:"more"`
}

// payload byte at offset i of datagram key: key- and offset-coded, so mixing
// two datagrams or misplacing a fragment shows in the content.
func pbyte(key uint32, i int) byte {
	return byte(uint32(i)*2654435761>>24) ^ byte(key*40503>>8) ^ byte(i>>3)
}

func original(key uint32, size int) []byte {
	b := make([]byte, size)
	for i := range b {
		b[i] = pbyte(key, i)
	}
	return b
}

var origCache sync.Map // [2]uint32{key,size} -> []byte

func cachedOriginal(key uint32, size int) []byte {
	k := [2]uint32{key, uint32(size)}
	if v, ok := origCache.Load(k); ok {
		return v.([]byte)
	}
	b := original(key, size)
	origCache.Store(k, b)
	return b
}

func fragView(f frag, chunks int) buffer.VectorisedView {
	data := append([]byte(nil), cachedOriginal(f.Key, 65536)[f.Off:f.End]...)
	if chunks <= 1 || len(data) < 2 {
		return buffer.View(data).ToVectorisedView()
	}
	var views []buffer.View
	step := (len(data) + chunks - 1) / chunks
	for i := 0; i < len(data); i += step {
		e := i + step
		if e > len(data) {
			e = len(data)
		}
		views = append(views, buffer.View(append([]byte(nil), data[i:e]...)))
	}
	return buffer.NewVectorisedView(len(data), views)
}

// Reference: per key a coverage map and the end offset once the last fragment was seen.
type refSet struct {
	covered []bool
	end     int // -1 until a fragment with More=false arrived
	created time.Time
}

type reference struct {
	sets    map[uint32]*refSet
	timeout time.Duration
}

func newRef(timeout time.Duration) *reference {
	return &reference{sets: map[uint32]*refSet{}, timeout: timeout}
}

// feed returns (complete, size).
func (r *reference) feed(f frag, now time.Time) (bool, int) {
	s := r.sets[f.Key]
	if s != nil && r.timeout > 0 && now.Sub(s.created) > r.timeout {
		s = nil
	}
	if s == nil {
		s = &refSet{end: -1, created: now}
		r.sets[f.Key] = s
	}
	for len(s.covered) < f.End {
		s.covered = append(s.covered, false)
	}
	for i := f.Off; i < f.End; i++ {
		s.covered[i] = true
	}
	if !f.More {
		s.end = f.End
	}
	if s.end < 0 {
		return false, 0
	}
	for i := 0; i < s.end; i++ {
		if !s.covered[i] {
			return false, 0
		}
	}
	delete(r.sets, f.Key)
	return true, s.end
}

// runSeq feeds fragments to a fresh Fragmentation and the reference in lock-step.
func runSeq(seq []frag, sizes map[uint32]int, chunks int) (msg string, deliveries int) {
	f := fragmentation.NewFragmentation(fragmentation.HighFragThreshold, fragmentation.LowFragThreshold, fragmentation.DefaultReassembleTimeout)
	ref := newRef(0)
	defer func() {
		if r := recover(); r != nil {
			msg = fmt.Sprintf("panic: %v", r)
		}
	}()
	for i, fr := range seq {
		vv, done := f.Process(fr.Key, uint16(fr.Off), uint16(fr.End-1), fr.More, fragView(fr, chunks))
		want, size := ref.feed(fr, time.Time{})
		if done != want {
			return fmt.Sprintf("fragment %d %+v: delivered=%v, a complete set (incl. last fragment) present=%v", i, fr, done, want), deliveries
		}
		if done {
			deliveries++
			got := vv.ToView()
			if size != sizes[fr.Key] {
				return fmt.Sprintf("reference size %d != datagram size %d (harness)", size, sizes[fr.Key]), deliveries
			}
			if !bytes.Equal(got, cachedOriginal(fr.Key, 65536)[:size]) || vv.Size() != size {
				return fmt.Sprintf("fragment %d %+v completes datagram %d: reassembled %d bytes differ from the original %d bytes (first difference at %d)", i, fr, fr.Key, len(got), size, firstDiff(got, original(fr.Key, size))), deliveries
			}
		}
	}
	return "", deliveries
}

// endurance: one reassembler with the IPv4 endpoint's limits, as long-lived as an
// interface is: complete datagrams keep arriving until their cumulative size has passed
// the memory thresholds several times over. Nothing is ever left behind by a completed
// datagram, so each of them must be handed up - the first as well as the last.
func endurance() {
	f := fragmentation.NewFragmentation(fragmentation.HighFragThreshold, fragmentation.LowFragThreshold, fragmentation.DefaultReassembleTimeout)
	r := fw.NewRand(run.Seed, "C08", "endurance")
	n := fw.N(2600, 40000) // x ~4-8 KiB: 3-5 times HighFragThreshold in the quick tier
	total := 0
	for d := 0; d < n; d++ {
		key := uint32(0x10000 + d)
		size := 8 * (400 + r.Intn(600))
		cuts := []int{0, 8 * (1 + r.Intn(size/16)), 8 * (size/16 + 1 + r.Intn(size/16-1)), size}
		order := r.Perm(3)
		delivered := false
		for j, i := range order {
			fr := frag{Key: key, Off: cuts[i], End: cuts[i+1], More: i != 2}
			vv, done := f.Process(fr.Key, uint16(fr.Off), uint16(fr.End-1), fr.More, fragView(fr, 1+r.Intn(3)))
			if done != (j == 2) {
				run.Violation("C08/endurance/delivery", fmt.Sprintf("datagram #%d of a long-lived reassembler (%d bytes in 3 fragments, %d bytes reassembled before it): after fragment %d of 3 delivered=%v", d, size, total, j+1, done), map[string]interface{}{"datagram": d, "size": size, "reassembled_before": total})
				return
			}
			if done {
				delivered = true
				if got := vv.ToView(); !bytes.Equal(got, cachedOriginal(key, 65536)[:size]) {
					run.Violation("C08/endurance/content", fmt.Sprintf("datagram #%d of a long-lived reassembler: %d bytes handed up differ from the original %d bytes", d, len(got), size), map[string]interface{}{"datagram": d})
					return
				}
			}
		}
		if delivered {
			total += size
		}
		origCache.Delete([2]uint32{key, 65536})
	}
	run.AddEvals(int64(n))
	run.Count("endurance_datagrams_reassembled_by_one_instance", int64(n))
	run.Count("endurance_bytes_reassembled_by_one_instance", int64(total))
	run.Distinct(fw.Hash("endurance"))
}

func firstDiff(a, b []byte) int {
	for i := 0; i < len(a) && i < len(b); i++ {
		if a[i] != b[i] {
			return i
		}
	}
	if len(a) < len(b) {
		return len(a)
	}
	return len(b)
}

func permutations(n int, f func(p []int)) {
	p := make([]int, n)
	for i := range p {
		p[i] = i
	}
	var rec func(k int)
	rec = func(k int) {
		if k == n {
			f(p)
			return
		}
		for i := k; i < n; i++ {
			p[k], p[i] = p[i], p[k]
			rec(k + 1)
			p[k], p[i] = p[i], p[k]
		}
	}
	rec(0)
}

func exhaustive() {
	maxBlocks := fw.N(5, 6)
	var evals, deliv int64
	var wg sync.WaitGroup
	sem := make(chan struct{}, runtime.NumCPU())
	for nb := 1; nb <= maxBlocks; nb++ {
		for _, tail := range []int{8, 3} {
			size := (nb-1)*8 + tail
			for comp := 0; comp < 1<<uint(nb-1); comp++ {
				nb, size, comp := nb, size, comp
				wg.Add(1)
				sem <- struct{}{}
				go func() {
					defer wg.Done()
					defer func() { <-sem }()
					// composition: bit i set => cut after block i
					var frags []frag
					start := 0
					for b := 0; b < nb; b++ {
						if b == nb-1 || comp>>uint(b)&1 == 1 {
							end := (b + 1) * 8
							if b == nb-1 {
								end = size
							}
							frags = append(frags, frag{Key: 7, Off: start, End: end, More: end != size})
							start = end
						}
					}
					sizes := map[uint32]int{7: size}
					// extra fragments: duplicates and agreeing overlaps (any block-aligned range)
					var extras []frag
					for a := 0; a < nb; a++ {
						for b := a + 1; b <= nb; b++ {
							end := b * 8
							if b == nb {
								end = size
							}
							extras = append(extras, frag{Key: 7, Off: a * 8, End: end, More: end != size})
						}
					}
					var local, ld int64
					k := len(frags)
					permutations(k, func(p []int) {
						base := make([]frag, k)
						for i, x := range p {
							base[i] = frags[x]
						}
						check := func(seq []frag, kind string) {
							m, d := runSeq(seq, sizes, 1+len(seq)%3)
							local++
							ld += int64(d)
							if m != "" {
								run.Violation("C08/api/"+kind, m, map[string]interface{}{"size": size, "fragments": seq})
							}
						}
						check(base, "order")
						for _, e := range extras {
							for pos := 0; pos <= k; pos++ {
								seq := make([]frag, 0, k+1)
								seq = append(seq, base[:pos]...)
								seq = append(seq, e)
								seq = append(seq, base[pos:]...)
								check(seq, "dup-or-overlap")
							}
						}
					})
					atomic.AddInt64(&evals, local)
					atomic.AddInt64(&deliv, ld)
					run.Distinct(fw.Hash("comp", nb, size, comp))
				}()
			}
		}
	}
	wg.Wait()
	run.AddEvals(evals)
	run.Count("exhaustive_sequences", evals)
	run.Count("exhaustive_max_blocks", int64(maxBlocks))
	run.Count("deliveries_checked", deliv)
}

// genDatagram cuts a datagram into aligned fragments, possibly overlapping, with multiplicities.
func genDatagram(r *fw.Rand, key uint32, size int, maxFrags int) []frag {
	nblocks := (size + 7) / 8
	var cuts []int
	target := 1 + r.Intn(maxFrags)
	if target > nblocks {
		target = nblocks
	}
	cutset := map[int]bool{}
	for len(cutset) < target-1 {
		cutset[1+r.Intn(nblocks-1)] = true
	}
	for c := range cutset {
		cuts = append(cuts, c)
	}
	cuts = append(cuts, 0, nblocks)
	// sort
	for i := range cuts {
		for j := i + 1; j < len(cuts); j++ {
			if cuts[j] < cuts[i] {
				cuts[i], cuts[j] = cuts[j], cuts[i]
			}
		}
	}
	var out []frag
	for i := 0; i+1 < len(cuts); i++ {
		a, b := cuts[i]*8, cuts[i+1]*8
		if b > size {
			b = size
		}
		// overlap: extend the start backwards / the end forwards on block boundaries
		if r.Chance(1, 4) && cuts[i] > 0 {
			a -= 8 * (1 + r.Intn(cuts[i]))
			if a < 0 {
				a = 0
			}
		}
		if r.Chance(1, 4) && b < size {
			b += 8 * (1 + r.Intn(3))
			if b > size {
				b = size
			}
		}
		f := frag{Key: key, Off: a, End: b, More: b != size}
		mult := 1
		if r.Chance(1, 5) {
			mult += r.Intn(3)
		}
		for m := 0; m < mult; m++ {
			out = append(out, f)
		}
	}
	return out
}

func random() {
	n := fw.N(3000, 300000)
	var wg sync.WaitGroup
	for w := 0; w < 16; w++ {
		w := w
		wg.Add(1)
		go func() {
			defer wg.Done()
			for i := w; i < n; i += 16 {
				r := fw.NewRand(run.Seed, "C08", "rand", i)
				nd := 1 + r.Intn(8)
				sizes := map[uint32]int{}
				var pools [][]frag
				for d := 0; d < nd; d++ {
					key := uint32(100 + d)
					var size int
					switch r.Intn(4) {
					case 0:
						size = 1 + r.Intn(64)
					case 1:
						size = 1 + r.Intn(3000)
					case 2:
						size = 65515 - r.Intn(16)
					default:
						size = 1 + r.Intn(65515)
					}
					sizes[key] = size
					fr := genDatagram(r, key, size, 1+r.Intn(200))
					perm := r.Perm(len(fr))
					sh := make([]frag, len(fr))
					for a, b := range perm {
						sh[a] = fr[b]
					}
					pools = append(pools, sh)
				}
				// interleave
				var seq []frag
				for {
					alive := 0
					for _, p := range pools {
						if len(p) > 0 {
							alive++
						}
					}
					if alive == 0 {
						break
					}
					k := r.Intn(len(pools))
					if len(pools[k]) == 0 {
						continue
					}
					seq = append(seq, pools[k][0])
					pools[k] = pools[k][1:]
				}
				m, d := runSeq(seq, sizes, 1+r.Intn(4))
				run.Case(fw.Hash("rand", nd, len(seq)/8, d), d > 0)
				run.Count("deliveries_checked", int64(d))
				if i < 1 && len(seq) < 40 {
					run.Sample(seq)
				}
				if m != "" {
					if len(seq) > 60 {
						seq = seq[:60]
					}
					run.Violation("C08/api/random", m, map[string]interface{}{"sizes": fmt.Sprint(sizes), "fragments(first 60)": seq})
				}
			}
		}()
	}
	wg.Wait()
}

// concurrent: the fragments of several datagrams are delivered from several
// goroutines at once; every fragment exactly once, so every datagram must be
// delivered exactly once, intact.
func concurrent() {
	n := fw.N(1500, 100000)
	for i := 0; i < n; i++ {
		r := fw.NewRand(run.Seed, "C08", "conc", i)
		f := fragmentation.NewFragmentation(fragmentation.HighFragThreshold, fragmentation.LowFragThreshold, fragmentation.DefaultReassembleTimeout)
		nd := 1 + r.Intn(4)
		g := 2 + r.Intn(7)
		sizes := map[uint32]int{}
		var all []frag
		for d := 0; d < nd; d++ {
			key := uint32(500 + d)
			size := 8 + r.Intn(4000)
			sizes[key] = size
			// plain partition (no duplicates, no overlaps)
			nblocks := (size + 7) / 8
			a := 0
			for a < nblocks {
				b := a + 1 + r.Intn(8)
				if b > nblocks {
					b = nblocks
				}
				e := b * 8
				if e > size {
					e = size
				}
				all = append(all, frag{Key: key, Off: a * 8, End: e, More: e != size})
				a = b
			}
		}
		perm := r.Perm(len(all))
		buckets := make([][]frag, g)
		for k, p := range perm {
			buckets[k%g] = append(buckets[k%g], all[p])
		}
		var mu sync.Mutex
		delivered := map[uint32]int{}
		var bad string
		var wg sync.WaitGroup
		start := make(chan struct{})
		for c := 0; c < g; c++ {
			c := c
			wg.Add(1)
			go func() {
				defer wg.Done()
				defer func() {
					if r := recover(); r != nil {
						mu.Lock()
						bad = fmt.Sprintf("panic: %v", r)
						mu.Unlock()
					}
				}()
				<-start
				for _, fr := range buckets[c] {
					vv, done := f.Process(fr.Key, uint16(fr.Off), uint16(fr.End-1), fr.More, fragView(fr, 1+c%3))
					if done {
						got := vv.ToView()
						mu.Lock()
						delivered[fr.Key]++
						if !bytes.Equal(got, cachedOriginal(fr.Key, 65536)[:sizes[fr.Key]]) {
							bad = fmt.Sprintf("datagram %d delivered with %d bytes differing from the original %d (first difference at %d)", fr.Key, len(got), sizes[fr.Key], firstDiff(got, original(fr.Key, sizes[fr.Key])))
						}
						mu.Unlock()
					}
					if c%2 == 0 {
						runtime.Gosched()
					}
				}
			}()
		}
		close(start)
		wg.Wait()
		for key := range sizes {
			if delivered[key] != 1 && bad == "" {
				bad = fmt.Sprintf("datagram %d delivered %d times although each of its fragments arrived exactly once", key, delivered[key])
			}
		}
		run.Case(fw.Hash("conc", nd, g, len(all)/4), true)
		run.Count("concurrent_scenarios", 1)
		run.Count("concurrent_fragments", int64(len(all)))
		if bad != "" {
			run.Violation("C08/api/concurrent", bad, map[string]interface{}{"goroutines": g, "buckets": buckets})
			if run.Violations() > 3 {
				return
			}
		}
	}
}

// concurrentStream: a stream of datagrams with fresh keys, every fragment sent once by one
// goroutine and many of them a second time by another, all goroutines walking the stream
// in order - so duplicates of a datagram that has just completed race with the first
// fragments of the next ones. Whatever is handed up must be exactly one original datagram;
// every datagram (all of whose fragments arrived) is handed up at least once.
func concurrentStream() {
	n := fw.N(300, 20000)
	for i := 0; i < n; i++ {
		r := fw.NewRand(run.Seed, "C08", "stream", i)
		f := fragmentation.NewFragmentation(fragmentation.HighFragThreshold, fragmentation.LowFragThreshold, fragmentation.DefaultReassembleTimeout)
		nd := 8 + r.Intn(24)
		g := 3 + r.Intn(6)
		sizes := map[uint32]int{}
		buckets := make([][]frag, g)
		for d := 0; d < nd; d++ {
			key := uint32(2000 + d)
			size := 8 + r.Intn(600)
			sizes[key] = size
			nblocks := (size + 7) / 8
			for a := 0; a < nblocks; {
				b := a + 1 + r.Intn(6)
				if b > nblocks {
					b = nblocks
				}
				e := b * 8
				if e > size {
					e = size
				}
				fr := frag{Key: key, Off: a * 8, End: e, More: e != size}
				c := r.Intn(g)
				buckets[c] = append(buckets[c], fr)
				if r.Bool() {
					c2 := (c + 1 + r.Intn(g-1)) % g
					buckets[c2] = append(buckets[c2], fr)
				}
				a = b
			}
		}
		var mu sync.Mutex
		delivered := map[uint32]int{}
		var bad string
		var wg sync.WaitGroup
		start := make(chan struct{})
		for c := 0; c < g; c++ {
			c := c
			wg.Add(1)
			go func() {
				defer wg.Done()
				defer func() {
					if r := recover(); r != nil {
						mu.Lock()
						bad = fmt.Sprintf("panic: %v", r)
						mu.Unlock()
					}
				}()
				<-start
				for k, fr := range buckets[c] {
					vv, done := f.Process(fr.Key, uint16(fr.Off), uint16(fr.End-1), fr.More, fragView(fr, 1+c%3))
					if done {
						got := vv.ToView()
						mu.Lock()
						delivered[fr.Key]++
						if !bytes.Equal(got, cachedOriginal(fr.Key, 65536)[:sizes[fr.Key]]) && bad == "" {
							bad = fmt.Sprintf("datagram %d handed up with %d bytes that are not the original %d bytes (first difference at %d): fragments of different datagrams were mixed", fr.Key, len(got), sizes[fr.Key], firstDiff(got, original(fr.Key, sizes[fr.Key])))
						}
						mu.Unlock()
					}
					if (k+c)%3 == 0 {
						runtime.Gosched()
					}
				}
			}()
		}
		close(start)
		wg.Wait()
		for key := range sizes {
			if delivered[key] < 1 && bad == "" {
				bad = fmt.Sprintf("datagram %d was never handed up although each of its fragments arrived at least once", key)
			}
		}
		run.Case(fw.Hash("stream", nd/4, g), true)
		run.Count("concurrent_stream_scenarios", 1)
		if bad != "" {
			run.Violation("C08/api/concurrent-stream", bad, map[string]interface{}{"goroutines": g, "datagrams": nd})
			if run.Violations() > 3 {
				return
			}
		}
	}
}

func TestC08(t *testing.T) {
	log.SetOutput(io.Discard)
	run = fw.Start("C08", "exploration")
	if fw.IsChild() {
		switch os.Getenv("VERIF_PHASE") {
		case "concurrent":
			concurrent()
			concurrentStream()
		case "vt":
			vtPhase(t) // virtual-time clauses (go1.26.8 build only)
		}
		os.Exit(run.Finish("", nil))
	}
	exhaustive()
	random()
	endurance()
	var wg sync.WaitGroup
	wg.Add(2)
	go func() {
		defer wg.Done()
		res := run.RunChild(fw.ChildSpec{Bin: os.Getenv("VERIF_BIN_RACE"), Test: "^TestC08$", Tag: "race", Race: true, Anchors: []string{"protocol/network/fragmentation/", "protocol/network/hash/"}, Env: []string{"VERIF_PHASE=concurrent"}})
		if !res.Done {
			run.ChildCrashed(res, "C08/concurrent", "concurrent phase")
		}
	}()
	go func() {
		defer wg.Done()
		res := run.RunChild(fw.ChildSpec{Bin: os.Getenv("VERIF_BIN_VT"), Test: "^TestC08$", Tag: "vt", Env: []string{"VERIF_PHASE=vt"}})
		if !res.Done {
			run.ChildCrashed(res, "C08/vt", "virtual-time phase")
		}
	}()
	wg.Wait()
	code := run.Finish("API level: datagrams of up to exhaustive_max_blocks 8-byte blocks (+ragged tail): every composition into aligned fragments x every arrival order, alone and with every possible extra fragment (duplicate or content-agreeing overlap, any aligned range) inserted at every position; random: 1-8 interleaved datagrams up to 65515 bytes, up to 200 fragments, overlaps and multiplicities up to 3, 1-4 chunks per fragment; delivery is demanded exactly when the reference byte map is complete incl. the last fragment, content compared byte for byte (key- and offset-coded payload); concurrent (-race): fragments of 1-4 datagrams spread over 2-8 goroutines, each exactly once => exactly one intact delivery each; virtual time (go1.26.8 synctest): reassembly timeout at API level and end to end through the IPv4 endpoint. distinct = compositions / shape classes Later additions: End-to-end rounds with 1-60 bytes of link padding behind every fragment. Endurance: one reassembler with the IPv4 limits reassembles several times its memory threshold, every datagram must be handed up.",
		[]string{"reference: per-key coverage map + last-fragment flag (h/c08)", "only content-agreeing overlaps and fragments within the datagram are judged; total buffered bytes stay far below the 3 MiB eviction threshold", "after a delivery the set is forgotten: later duplicates start a new set (both in the reference and in the implementation)"})
	os.Exit(code)
}
