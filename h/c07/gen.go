package c07

import (
	"verifh/fw"
	"verifh/rfc"
)

// pkt is one network-layer packet to inject (ethertype + bytes).
type pkt struct {
	Proto uint16
	Data  []byte
}

type ctx struct {
	S4, P4       [4]byte
	S6, P6       [16]byte
	ListenPort   uint16
	UDPPort      uint16
	ConnL, ConnP uint16 // established connection: stack port, peer port
	ConnSeq      uint32 // next sequence number the peer would send
	ConnAck      uint32 // next sequence number expected from the stack
	// a second connection that the barrage addresses only through ICMP errors (so that it is
	// still alive, with data in flight, when such an error arrives)
	Conn2L, Conn2P uint16
	Conn2Ack       uint32
	SMAC, PMAC     [6]byte
}

func ip4(c *ctx, proto uint8, payload []byte, id uint16) []byte {
	return rfc.IPv4{TTL: 64, Proto: proto, ID: id, Src: c.P4, Dst: c.S4, Payload: payload}.Bytes(true)
}
func ip6(c *ctx, next uint8, payload []byte) []byte {
	return rfc.IPv6{Next: next, Hop: 64, Src: c.P6, Dst: c.S6, Payload: payload}.Bytes(true)
}

// corpus builds one valid packet of a PRNG-chosen kind.
func corpus(c *ctx, r *fw.Rand) pkt {
	switch r.Intn(16) {
	case 0: // ARP request for the stack's address
		a := rfc.ARP{HType: 1, PType: 0x0800, HLen: 6, PLen: 4, Op: uint16(1 + r.Intn(2)), SHA: c.PMAC, SPA: c.P4, TPA: c.S4}
		if r.Chance(1, 2) {
			// ... from / about one of the neighbours whose resolution may be pending or have failed
			a.SPA = [4]byte{10, 0, 0, byte(50 + r.Intn(4))}
			copy(a.SHA[:], []byte{2, 7, 7, 7, 7, a.SPA[3]})
		}
		return pkt{rfc.EthARP, a.Bytes()}
	case 1: // echo request v4
		m := rfc.ICMP{Type: 8, Rest: [4]byte{1, 2, 0, byte(r.U32())}, Payload: r.Bytes(r.Intn(100))}
		if r.Chance(1, 3) {
			// from a neighbour nobody has heard of: the reply needs a resolution that will fail
			src := [4]byte{10, 0, 0, byte(50 + r.Intn(4))}
			return pkt{rfc.EthIPv4, rfc.IPv4{TTL: 64, Proto: rfc.ProtoICMP, ID: uint16(r.U32()), Src: src, Dst: c.S4, Payload: m.BytesV4(true)}.Bytes(true)}
		}
		return pkt{rfc.EthIPv4, ip4(c, rfc.ProtoICMP, m.BytesV4(true), uint16(r.U32()))}
	case 2: // echo request v6
		m := rfc.ICMP{Type: 128, Rest: [4]byte{1, 2, 0, byte(r.U32())}, Payload: r.Bytes(r.Intn(100))}
		return pkt{rfc.EthIPv6, ip6(c, rfc.ProtoICMPv6, m.BytesV6(c.P6, c.S6, true))}
	case 3: // neighbour solicitation / advertisement
		t := uint8(135 + r.Intn(2))
		pl := append(append([]byte{}, c.S6[:]...), 1, 1, c.PMAC[0], c.PMAC[1], c.PMAC[2], c.PMAC[3], c.PMAC[4], c.PMAC[5])
		m := rfc.ICMP{Type: t, Payload: pl}
		return pkt{rfc.EthIPv6, ip6(c, rfc.ProtoICMPv6, m.BytesV6(c.P6, c.S6, true))}
	case 4: // UDP v4 to the bound socket
		u := rfc.UDP{SrcPort: uint16(1024 + r.Intn(60000)), DstPort: c.UDPPort, Payload: r.Bytes(r.Intn(200))}
		return pkt{rfc.EthIPv4, ip4(c, rfc.ProtoUDP, u.Bytes4(c.P4, c.S4, true), uint16(r.U32()))}
	case 5: // UDP v6
		u := rfc.UDP{SrcPort: uint16(1024 + r.Intn(60000)), DstPort: c.UDPPort, Payload: r.Bytes(r.Intn(200))}
		if r.Chance(1, 3) { // UDP v4 with trailing bytes beyond the UDP length (padding inside the IP payload)
			b := append(u.Bytes4(c.P4, c.S4, true), r.Bytes(1+r.Intn(1400))...)
			return pkt{rfc.EthIPv4, ip4(c, rfc.ProtoUDP, b, uint16(r.U32()))}
		}
		return pkt{rfc.EthIPv6, ip6(c, rfc.ProtoUDP, u.Bytes6(c.P6, c.S6, true))}
	case 6, 7: // SYN to the listener with options
		var o []byte
		for i := 0; i < r.Intn(5); i++ {
			switch r.Intn(6) {
			case 0:
				o = append(o, rfc.OptMSS(uint16(r.U32()))...)
			case 1:
				o = append(o, rfc.OptWS(uint8(r.U32()))...)
			case 2:
				o = append(o, rfc.OptTS(r.U32(), r.U32())...)
			case 3:
				o = append(o, rfc.OptSACKPerm()...)
			case 4:
				o = append(o, []byte{1, 0, 0, 1}[r.Intn(4)]) // NOP or end-of-option-list in the middle
			default:
				o = append(o, byte(r.U32()), byte(2+r.Intn(6)))
				o = append(o, r.Bytes(r.Intn(6))...)
			}
		}
		if len(o) > 40 {
			o = o[:40]
		}
		t := rfc.TCP{SrcPort: uint16(1024 + r.Intn(60000)), DstPort: c.ListenPort, Seq: r.U32(), Flags: rfc.SYN, Window: uint16(r.U32()), RawOpts: o}
		if r.Bool() {
			return pkt{rfc.EthIPv6, ip6(c, rfc.ProtoTCP, t.Bytes6(c.P6, c.S6, true))}
		}
		return pkt{rfc.EthIPv4, ip4(c, rfc.ProtoTCP, t.Bytes4(c.P4, c.S4, true), uint16(r.U32()))}
	case 8, 9, 10: // segment for the established connection, in or near the window
		// mostly segments that keep the connection alive (so that sequences of out-of-order
		// data, FINs with payload and gap fillers build up); one in six carries a flag
		// combination that may end it
		fl := []uint8{rfc.ACK, rfc.ACK | rfc.PSH, rfc.ACK | rfc.FIN, rfc.ACK | rfc.FIN | rfc.PSH, rfc.ACK | rfc.URG, rfc.ACK}[r.Intn(6)]
		if r.Chance(1, 6) {
			fl = []uint8{rfc.RST, rfc.RST | rfc.ACK, rfc.SYN, rfc.SYN | rfc.ACK, 0, 0x3f, rfc.FIN, rfc.SYN | rfc.FIN}[r.Intn(8)]
		}
		seq := c.ConnSeq + uint32(int32(r.Intn(2000))-200)
		if r.Chance(1, 4) {
			seq = r.U32()
		}
		ack := c.ConnAck + uint32(int32(r.Intn(3000))-1000)
		var o []byte
		if r.Chance(1, 3) {
			o = append([]byte{1, 1}, rfc.OptSACK([][2]uint32{{r.U32(), r.U32()}, {c.ConnAck, c.ConnAck + uint32(r.Intn(1000))}})...)
		}
		t := rfc.TCP{SrcPort: c.ConnP, DstPort: c.ConnL, Seq: seq, Ack: ack, Flags: fl, Window: uint16(r.U32()), Urg: uint16(r.U32()), Payload: r.Bytes(r.Intn(300)), RawOpts: o}
		return pkt{rfc.EthIPv4, ip4(c, rfc.ProtoTCP, t.Bytes4(c.P4, c.S4, true), uint16(r.U32()))}
	case 11: // IPv4 fragments of a UDP datagram
		u := rfc.UDP{SrcPort: 999, DstPort: c.UDPPort, Payload: r.Bytes(64 + r.Intn(200))}
		whole := u.Bytes4(c.P4, c.S4, true)
		off := 8 * (1 + r.Intn(len(whole)/8))
		first := r.Bool()
		p := rfc.IPv4{TTL: 64, Proto: rfc.ProtoUDP, ID: uint16(r.Intn(4)), Src: c.P4, Dst: c.S4}
		if first {
			p.Flags, p.Payload = 1, whole[:off]
		} else {
			p.FragOff, p.Payload = uint16(off/8), whole[off:]
		}
		return pkt{rfc.EthIPv4, p.Bytes(true)}
	case 12: // ICMPv4 error quoting a packet "sent" by the stack
		inner := rfc.TCP{SrcPort: c.ConnL, DstPort: c.ConnP, Seq: c.ConnAck, Flags: rfc.ACK}
		if c.Conn2L != 0 && r.Bool() {
			inner = rfc.TCP{SrcPort: c.Conn2L, DstPort: c.Conn2P, Seq: c.Conn2Ack, Flags: rfc.ACK}
		}
		ih := rfc.IPv4{TTL: 60, Proto: rfc.ProtoTCP, Src: c.S4, Dst: c.P4, Payload: inner.Bytes4(c.S4, c.P4, true)}.Bytes(true)
		q := ih
		if n := 20 + r.Intn(len(ih)-19); n < len(q) {
			q = q[:n]
		}
		m := rfc.ICMP{Type: 3, Code: uint8(r.Intn(6)), Rest: [4]byte{0, 0, byte(r.U32()), byte(r.U32())}, Payload: q}
		if r.Bool() { // fragmentation needed with boundary next-hop MTUs
			mtu := []uint16{0, 1, 20, 39, 40, 41, 48, 52, 60, 68, 100, 576, 1500, 65535}[r.Intn(14)]
			m.Code, m.Rest = 4, [4]byte{0, 0, byte(mtu >> 8), byte(mtu)}
		}
		return pkt{rfc.EthIPv4, ip4(c, rfc.ProtoICMP, m.BytesV4(true), uint16(r.U32()))}
	case 13: // ICMPv6 error / packet too big
		inner := rfc.TCP{SrcPort: c.ConnL, DstPort: c.ConnP, Seq: c.ConnAck, Flags: rfc.ACK}
		ih := rfc.IPv6{Next: rfc.ProtoTCP, Hop: 60, Src: c.S6, Dst: c.P6, Payload: inner.Bytes6(c.S6, c.P6, true)}.Bytes(true)
		m := rfc.ICMP{Type: uint8(1 + r.Intn(4)), Rest: [4]byte{0, 0, byte(r.U32()), byte(r.U32())}, Payload: ih[:20+r.Intn(len(ih)-19)]}
		return pkt{rfc.EthIPv6, ip6(c, rfc.ProtoICMPv6, m.BytesV6(c.P6, c.S6, true))}
	case 14: // IPv6 fragment header
		f := rfc.Frag6{Next: rfc.ProtoUDP, Off: uint16(r.Intn(100)), More: r.Bool(), ID: uint32(r.Intn(4)), Payload: r.Bytes(8 * r.Intn(20))}
		return pkt{rfc.EthIPv6, ip6(c, rfc.ProtoFrag6, f.Bytes())}
	default: // plain ACK to the listener / to nowhere
		t := rfc.TCP{SrcPort: uint16(1024 + r.Intn(60000)), DstPort: []uint16{c.ListenPort, 7, c.ConnL}[r.Intn(3)], Seq: r.U32(), Ack: r.U32(), Flags: uint8(r.Intn(64)), Window: uint16(r.U32()), Payload: r.Bytes(r.Intn(50))}
		if r.Bool() {
			// exactly the flag pattern that completes a SYN-cookie handshake, with an arbitrary
			// acknowledgement number: whatever a forged "cookie" decodes to must be survivable
			t.DstPort, t.Flags = c.ListenPort, rfc.ACK
			if r.Bool() {
				t.Payload = nil
			}
		}
		return pkt{rfc.EthIPv4, ip4(c, rfc.ProtoTCP, t.Bytes4(c.P4, c.S4, true), uint16(r.U32()))}
	}
}

// interesting 8/16-bit values for length/offset/count fields
var edge8 = []byte{0, 1, 2, 3, 4, 5, 6, 7, 8, 0x0f, 0x10, 0x14, 0x28, 0x3c, 0x40, 0x45, 0x46, 0x4f, 0x50, 0x5f, 0x60, 0x7f, 0x80, 0xf0, 0xfe, 0xff}

// mutate applies one structure-aware mutation.
func mutate(p pkt, r *fw.Rand, other func() pkt) pkt {
	b := append([]byte(nil), p.Data...)
	if len(b) == 0 {
		return p
	}
	switch r.Intn(9) {
	case 0: // truncate anywhere
		b = b[:r.Intn(len(b)+1)]
	case 1: // a header byte (first 60 bytes hold all length/offset/flag fields) set to an edge value
		i := r.Intn(minI(len(b), 64))
		b[i] = edge8[r.Intn(len(edge8))]
	case 2: // 16-bit field at an even offset set to an edge value
		i := 2 * r.Intn(minI(len(b), 64)/2+1)
		if i+1 < len(b) {
			v := []uint16{0, 1, 7, 8, 19, 20, 21, 27, 28, 39, 40, 41, 59, 60, 61, uint16(len(b) - 1), uint16(len(b)), uint16(len(b) + 1), 0x1fff, 0x2000, 0x3fff, 0x7fff, 0x8000, 0xfffe, 0xffff}[r.Intn(25)]
			b[i], b[i+1] = byte(v>>8), byte(v)
		}
	case 3: // bit flip
		i := r.Intn(len(b))
		b[i] ^= 1 << uint(r.Intn(8))
	case 4: // splice with another packet
		o := other().Data
		if len(o) > 0 {
			cut, cut2 := r.Intn(len(b)+1), r.Intn(len(o)+1)
			b = append(b[:cut], o[cut2:]...)
		}
	case 5: // extend with noise
		b = append(b, r.Bytes(r.Intn(64))...)
	case 6: // several byte edits
		for k := 0; k < 1+r.Intn(4); k++ {
			b[r.Intn(len(b))] = byte(r.U32())
		}
	case 7: // fix nothing, repeat as is (duplicates)
	case 8: // wrong ethertype for the content
		return pkt{[]uint16{rfc.EthIPv4, rfc.EthIPv6, rfc.EthARP, 0x1234}[r.Intn(4)], b}
	}
	if len(b) > 65535 {
		b = b[:65535]
	}
	return pkt{p.Proto, b}
}

func minI(a, b int) int {
	if a < b {
		return a
	}
	return b
}

// fragmentize splits a decodable IPv4 packet into 2-4 fragments, in order or
// shuffled, with cut points that need not be multiples of 8 (so pieces overlap).
func fragmentize(p pkt, r *fw.Rand) []pkt {
	if p.Proto != rfc.EthIPv4 || len(p.Data) < 29 || p.Data[0] != 0x45 {
		return []pkt{p}
	}
	var src, dst [4]byte
	copy(src[:], p.Data[12:16])
	copy(dst[:], p.Data[16:20])
	proto, id := p.Data[9], uint16(p.Data[4])<<8|uint16(p.Data[5])
	body := p.Data[20:]
	n := 2 + r.Intn(3)
	var out []pkt
	start := 0
	for i := 0; i < n && start < len(body); i++ {
		end := start + 1 + r.Intn(len(body)-start)
		if i == n-1 {
			end = len(body)
		}
		f := rfc.IPv4{TTL: 64, Proto: proto, ID: id, Src: src, Dst: dst, FragOff: uint16(start / 8), Payload: body[start:end]}
		if end < len(body) {
			f.Flags = 1
		}
		out = append(out, pkt{rfc.EthIPv4, f.Bytes(true)})
		// the next fragment starts on an 8-byte boundary at or before this one's end
		start = (end / 8) * 8
		if r.Chance(1, 3) && start >= 8 {
			start -= 8
		}
		if start == 0 {
			start = 8
		}
	}
	if r.Chance(1, 3) {
		for i := len(out) - 1; i > 0; i-- {
			j := r.Intn(i + 1)
			out[i], out[j] = out[j], out[i]
		}
	}
	return out
}

// batch builds the frames of one batch.
func batch(c *ctx, seed int64, idx int, n int) []pkt {
	r := fw.NewRand(seed, "C07", "batch", idx)
	var out []pkt
	mode := idx % 4
	for len(out) < n {
		switch {
		case mode == 3 && r.Chance(1, 2): // pure noise of every small length
			l := r.Intn(129)
			if r.Chance(1, 10) {
				l = r.Intn(2000)
			}
			out = append(out, pkt{[]uint16{rfc.EthIPv4, rfc.EthIPv6, rfc.EthARP}[r.Intn(3)], r.Bytes(l)})
		case mode == 0 && r.Chance(1, 3): // valid traffic interleaved
			out = append(out, corpus(c, r))
		case mode == 1 && r.Chance(1, 2): // valid or lightly mutated packets delivered as (overlapping) fragments
			p := corpus(c, r)
			if r.Chance(1, 3) {
				p = mutate(p, r, func() pkt { return corpus(c, r) })
			}
			out = append(out, fragmentize(p, r)...)
		default:
			p := corpus(c, r)
			for k := 0; k < 1+r.Intn(3); k++ {
				p = mutate(p, r, func() pkt { return corpus(c, r) })
			}
			out = append(out, p)
		}
	}
	return out
}

// fragSequences enumerates small fragment sequences exhaustively: offsets x lengths x MF.
func fragSequences(c *ctx, part, parts int) [][]pkt {
	offs := []uint16{0, 1, 2, 8191}
	lens := []int{0, 1, 8, 9, 16}
	type f struct {
		off uint16
		l   int
		mf  bool
		id  uint16
	}
	var alpha []f
	for _, o := range offs {
		for _, l := range lens {
			for _, m := range []bool{false, true} {
				alpha = append(alpha, f{o, l, m, 7})
			}
		}
	}
	mk := func(x f) pkt {
		p := rfc.IPv4{TTL: 64, Proto: rfc.ProtoUDP, ID: x.id, Src: c.P4, Dst: c.S4, FragOff: x.off, Payload: make([]byte, x.l)}
		if x.mf {
			p.Flags = 1
		}
		for i := range p.Payload {
			p.Payload[i] = byte(i)
		}
		return pkt{rfc.EthIPv4, p.Bytes(true)}
	}
	var out [][]pkt
	n := 0
	for _, a := range alpha {
		for _, b := range alpha {
			n++
			if n%parts != part {
				continue
			}
			out = append(out, []pkt{mk(a), mk(b)})
			// and every third element for a subset
			if (n/parts)%8 == 0 {
				for _, cc := range alpha {
					out = append(out, []pkt{mk(a), mk(b), mk(cc)})
				}
			}
		}
	}
	return out
}
