package c07

import (
	"bytes"
	"encoding/binary"
	"fmt"
	"io"
	"log"
	"os"
	"path/filepath"
	"sync"
	"sync/atomic"
	"syscall"
	"testing"
	"time"

	"github.com/brewlin/net-protocol/pkg/waiter"
	tcpip "github.com/brewlin/net-protocol/protocol"
	"github.com/brewlin/net-protocol/protocol/link/fdbased"
	"github.com/brewlin/net-protocol/protocol/network/arp"
	"github.com/brewlin/net-protocol/protocol/network/ipv4"
	"github.com/brewlin/net-protocol/protocol/network/ipv6"
	"github.com/brewlin/net-protocol/protocol/transport/tcp"
	"github.com/brewlin/net-protocol/protocol/transport/udp"
	"github.com/brewlin/net-protocol/stack"
	"verifh/fw"
	"verifh/rawpeer"
	"verifh/rfc"
	"verifh/vt"
	"verifh/wire"
)

var run *fw.Run

type target struct {
	h      *wire.Host
	p4, p6 *rawpeer.Peer
	lep    tcpip.Endpoint // dual-stack listener on port 80
	uep    tcpip.Endpoint // dual-stack UDP socket on port 5353
	conn   *rawpeer.Conn
	conn2  *rawpeer.Conn
	c      ctx
	probeN int
	mu     sync.Mutex
	other  []*wire.Frame
}

func newTarget() (*target, error) {
	// an Ethernet-like link: next hops must be resolved (replies to the scripted peer take
	// the link address of the frame they answer; replies to other sources start resolutions
	// that nobody answers)
	h, err := wire.NewHost(wire.HostCfg{Name: "T", MTU: 1500, V4: []tcpip.Address{wire.AddrA4}, V6: []tcpip.Address{wire.AddrA6}, SACK: true, WithARP: true, LinkAddr: tcpip.LinkAddress([]byte{2, 0, 0, 0, 0, 1}), Caps: stack.CapabilityResolutionRequired})
	if err != nil {
		return nil, err
	}
	t := &target{h: h}
	t.p4, t.p6 = rawpeer.New(h, false), rawpeer.New(h, true)
	copy(t.c.S4[:], wire.AddrA4)
	copy(t.c.P4[:], wire.AddrB4)
	copy(t.c.S6[:], wire.AddrA6)
	copy(t.c.P6[:], wire.AddrB6)
	t.c.PMAC = [6]byte{2, 0, 0, 0, 0, 2}
	t.p4.RemoteMAC, t.p6.RemoteMAC = tcpip.LinkAddress(t.c.PMAC[:]), tcpip.LinkAddress(t.c.PMAC[:])
	h.S.AddLinkAddress(1, wire.AddrB4, tcpip.LinkAddress(t.c.PMAC[:]))
	h.S.AddLinkAddress(1, wire.AddrB6, tcpip.LinkAddress(t.c.PMAC[:]))
	t.c.ListenPort, t.c.UDPPort = 80, 5353
	var e *tcpip.Error
	if t.lep, e = h.S.NewEndpoint(tcp.ProtocolNumber, ipv6.ProtocolNumber, &waiter.Queue{}); e != nil {
		return nil, fmt.Errorf("%v", e)
	}
	if e = t.lep.Bind(tcpip.FullAddress{Port: 80}, nil); e != nil {
		return nil, fmt.Errorf("bind: %v", e)
	}
	if e = t.lep.Listen(64); e != nil {
		return nil, fmt.Errorf("listen: %v", e)
	}
	if t.uep, e = h.S.NewEndpoint(udp.ProtocolNumber, ipv6.ProtocolNumber, &waiter.Queue{}); e != nil {
		return nil, fmt.Errorf("%v", e)
	}
	if e = t.uep.Bind(tcpip.FullAddress{Port: 5353}, nil); e != nil {
		return nil, fmt.Errorf("udp bind: %v", e)
	}
	return t, nil
}

// establish (re)creates the connection the barrage aims in-window segments at.
func (t *target) establish(idx int) {
	if t.conn != nil {
		t.conn.Close()
	}
	lp, pp := uint16(8000+idx%20000), uint16(40000+idx%20000)
	conn, _ := t.p4.Establish(rawpeer.EstOpts{LPort: lp, PPort: pp, PeerISS: uint32(idx) * 7919, MSS: 1460, WS: 2, SACK: true, Window: 30000})
	t.conn = conn
	if conn != nil {
		t.c.ConnL, t.c.ConnP = lp, pp
		t.c.ConnSeq, t.c.ConnAck = conn.IRS+1, conn.ISS+1
		// unacknowledged data in flight: retransmission timers are armed while the barrage runs
		conn.EP.Write(tcpip.SlicePayload(make([]byte, 3000)), tcpip.WriteOptions{})
		rawpeer.Settle()
	}
	// the quiet connection
	if t.conn2 != nil {
		t.conn2.Close()
	}
	c2, _ := t.p4.Establish(rawpeer.EstOpts{LPort: uint16(28000 + idx%20000), PPort: uint16(61000 + idx%90), PeerISS: uint32(idx)*104729 + 5, MSS: 1460, WS: 2, Window: 30000})
	t.conn2 = c2
	t.c.Conn2L = 0
	if c2 != nil {
		t.c.Conn2L, t.c.Conn2P, t.c.Conn2Ack = c2.LPort, c2.PPort, c2.ISS+1
		c2.EP.Write(tcpip.SlicePayload(make([]byte, 3000)), tcpip.WriteOptions{})
		rawpeer.Settle()
	}
	t.p4.Take()
}

func (t *target) inject(p pkt) {
	t.h.L.Inject(tcpip.NetworkProtocolNumber(p.Proto), p.Data, tcpip.LinkAddress(t.c.PMAC[:]))
}

func (t *target) drain() {
	for {
		ne, _, e := t.lep.Accept()
		if e != nil {
			break
		}
		ne.Close()
	}
	for {
		if _, _, e := t.uep.Read(nil); e != nil {
			break
		}
	}
	rawpeer.Settle()
	t.p4.Take()
	t.p6.Take()
	t.p4.TakeOther()
	t.p6.TakeOther()
}

// probes: the stack must still answer an echo request, complete a new TCP
// connection and deliver a UDP datagram. Returns "" or what failed.
func (t *target) probes(idx int) string {
	// let virtual time pass: retransmission and reassembly timers armed during the barrage fire
	// the application sends to neighbours that never answer: the resolutions fail during
	// the pause below, and the next batch brings ARP frames from exactly those addresses
	for i := 0; i < 2; i++ {
		t.uep.Write(tcpip.SlicePayload([]byte("anyone there?")), tcpip.WriteOptions{To: &tcpip.FullAddress{Addr: tcpip.Address([]byte{10, 0, 0, byte(50 + (idx+i)%4)}), Port: 9}})
	}
	time.Sleep(3500 * time.Millisecond) // long enough for a resolution nobody answers to fail (3 x 1 s)
	rawpeer.Settle()
	t.drain()
	t.probeN++
	n := t.probeN
	// 1. echo
	pl := []byte(fmt.Sprintf("probe-%d-%d", idx, n))
	m := rfc.ICMP{Type: 8, Rest: [4]byte{0x77, byte(n >> 8), 0, byte(n)}, Payload: pl}
	t.h.L.Inject(ipv4.ProtocolNumber, ip4(&t.c, rfc.ProtoICMP, m.BytesV4(true), uint16(n)), tcpip.LinkAddress(t.c.PMAC[:]))
	rawpeer.Settle()
	time.Sleep(time.Millisecond)
	rawpeer.Settle()
	replies := 0
	for _, f := range t.p4.TakeOther() {
		if f.Proto != ipv4.ProtocolNumber {
			continue
		}
		ip, err := rfc.ParseIPv4(f.Data)
		if err != nil || ip.Proto != rfc.ProtoICMP {
			continue
		}
		if mm, err := rfc.ParseICMPv4(ip.Payload); err == nil && mm.Type == 0 && mm.Rest == m.Rest && bytes.Equal(mm.Payload, pl) {
			replies++
		}
	}
	t.p6.TakeOther()
	if replies != 1 {
		return fmt.Sprintf("echo request drew %d matching replies", replies)
	}
	// 2. a new TCP connection to the listener, with data. The barrage uses source ports
	// below 61024; a mutated frame may still have hit a probe port and left a half-open
	// connection there (a SYN with another sequence number is then rightly refused), so
	// up to three fresh ports are tried.
	var pp uint16
	var y uint32
	iss := uint32(n) * 104729
	got := false
	for try := 0; try < 3 && !got; try++ {
		pp = uint16(61100 + (n*3+try)%4000)
		t.p4.Send(rfc.TCP{SrcPort: pp, DstPort: 80, Seq: iss, Flags: rfc.SYN, Window: 20000, RawOpts: rfc.OptMSS(1000)})
		for _, s := range t.p4.TakeFor(80, pp) {
			if s.Has(rfc.SYN|rfc.ACK) && s.Ack == iss+1 {
				y, got = s.Seq, true
			}
		}
	}
	if !got {
		return "a SYN to the listener drew no SYN-ACK (three fresh source ports tried)"
	}
	t.p4.Send(rfc.TCP{SrcPort: pp, DstPort: 80, Seq: iss + 1, Ack: y + 1, Flags: rfc.ACK, Window: 20000})
	t.p4.Send(rfc.TCP{SrcPort: pp, DstPort: 80, Seq: iss + 1, Ack: y + 1, Flags: rfc.ACK | rfc.PSH, Window: 20000, Payload: pl})
	var ne tcpip.Endpoint
	for i := 0; i < 20 && ne == nil; i++ {
		x, _, e := t.lep.Accept()
		if e != nil {
			break
		}
		ra, _ := x.GetRemoteAddress()
		if ra.Port == pp {
			ne = x
		} else {
			x.Close()
		}
	}
	if ne == nil {
		return "a completed handshake was not handed out by Accept"
	}
	rawpeer.Settle() // the accepted endpoint's protocol goroutine starts in Accept and then drains its queue
	v, _, e := ne.Read(nil)
	if e != nil || !bytes.Equal(v, pl) {
		ne.Close()
		return fmt.Sprintf("data on the new connection: Read returned %q, %v (sent %q); stack said %v", v, e, pl, t.p4.TakeFor(80, pp))
	}
	ne.Close()
	rawpeer.Settle()
	// 3. UDP
	u := rfc.UDP{SrcPort: pp, DstPort: 5353, Payload: pl}
	t.h.L.Inject(ipv4.ProtocolNumber, ip4(&t.c, rfc.ProtoUDP, u.Bytes4(t.c.P4, t.c.S4, true), uint16(n)), tcpip.LinkAddress(t.c.PMAC[:]))
	rawpeer.Settle()
	var from tcpip.FullAddress
	v, _, e = t.uep.Read(&from)
	if e != nil || !bytes.Equal(v, pl) || from.Port != pp {
		return fmt.Sprintf("UDP datagram: Read returned %q from port %d, %v (sent %q from port %d)", v, from.Port, e, pl, pp)
	}
	// 4. a UDP datagram that arrives in three fragments (reassembly still works). A mutated
	// frame may have left a fragment with the same identification behind, so up to three
	// identifications are tried.
	big := append(append([]byte(nil), pl...), bytes.Repeat([]byte{byte(n)}, 2400)...)
	whole := rfc.UDP{SrcPort: pp, DstPort: 5353, Payload: big}.Bytes4(t.c.P4, t.c.S4, true)
	okFrag := false
	for try := 0; try < 3 && !okFrag; try++ {
		id := uint16(40000 + (n*7+try*131)%20000)
		for _, c := range [][3]int{{0, 800, 1}, {800, 1600, 1}, {1600, len(whole), 0}} {
			fr := rfc.IPv4{TTL: 64, Proto: rfc.ProtoUDP, ID: id, Src: t.c.P4, Dst: t.c.S4, Flags: uint8(c[2]), FragOff: uint16(c[0] / 8), Payload: whole[c[0]:c[1]]}
			t.h.L.Inject(ipv4.ProtocolNumber, fr.Bytes(true), tcpip.LinkAddress(t.c.PMAC[:]))
		}
		rawpeer.Settle()
		v, _, e = t.uep.Read(&from)
		okFrag = e == nil && bytes.Equal(v, big) && from.Port == pp
	}
	if !okFrag {
		return fmt.Sprintf("a UDP datagram of %d bytes sent in three fragments was not delivered (three identifications tried): Read returned %d bytes, %v", len(big), len(v), e)
	}
	return ""
}

func writeBatch(path string, ps []pkt) {
	var b bytes.Buffer
	for _, p := range ps {
		var h [6]byte
		binary.BigEndian.PutUint16(h[0:], p.Proto)
		binary.BigEndian.PutUint32(h[2:], uint32(len(p.Data)))
		b.Write(h[:])
		b.Write(p.Data)
	}
	os.WriteFile(path, b.Bytes(), 0o644)
}

func readBatch(path string) []pkt {
	b, err := os.ReadFile(path)
	if err != nil {
		return nil
	}
	var out []pkt
	for len(b) >= 6 {
		n := int(binary.BigEndian.Uint32(b[2:]))
		if 6+n > len(b) {
			break
		}
		out = append(out, pkt{binary.BigEndian.Uint16(b), append([]byte(nil), b[6:6+n]...)})
		b = b[6+n:]
	}
	return out
}

// vtChild runs batches lo..hi in one bubble.
func vtChild(t *testing.T) {
	var lo, hi int
	fmt.Sscan(os.Getenv("VERIF_RANGE"), &lo, &hi)
	dir := os.Getenv("VERIF_RUN_DIR")
	tag := os.Getenv("VERIF_TAG")
	per := fw.N(1500, 6000)
	vt.Bubble(t, func() {
		tg, err := newTarget()
		if err != nil {
			run.Broken("harness: " + err.Error())
			os.Exit(run.Finish("", nil))
		}
		if m := tg.probes(-1); m != "" {
			run.Broken("probes fail before any hostile frame: " + m)
			os.Exit(run.Finish("", nil))
		}
		idxLog, _ := os.Create(filepath.Join(dir, tag+".index"))
		if os.Getenv("VERIF_CONTRADICT") == "1" {
			// megabytes of fragment sets that contradict themselves (two different "last"
			// fragments), each under its own identification: whatever the reassembler does with
			// them, it must give their memory back and go on serving
			sets := fw.N(240, 800)
			for i := 0; i < sets; i++ {
				id := uint16(1000 + i)
				// large sets first, then small ones (a large fragment that would take the
				// reassembler over its memory limit is evicted before its set is complete; small
				// ones use up whatever headroom is left)
				size := 65000
				if i%4 == 3 || i >= sets/2 {
					size = 600 + 8*(i%100)
				}
				if i >= 3*sets/4 {
					size = 8 * (1 + i%8)
				}
				for _, c := range [][3]int{{0, 8, 1}, {32, size, 0}, {8, 8, 0}} {
					fr := rfc.IPv4{TTL: 64, Proto: rfc.ProtoUDP, ID: id, Src: tg.c.P4, Dst: tg.c.S4, Flags: uint8(c[2]), FragOff: uint16(c[0] / 8), Payload: make([]byte, c[1])}
					tg.h.L.Inject(ipv4.ProtocolNumber, fr.Bytes(true), tcpip.LinkAddress(tg.c.PMAC[:]))
				}
				if i%16 == 15 {
					rawpeer.Settle()
					if m := tg.probes(i); m != "" {
						run.Violation("C07/not-serving", fmt.Sprintf("after %d contradictory fragment sets the stack no longer serves: %s", i+1, m), map[string]interface{}{"sets": i + 1})
						break
					}
					run.Count("probe_rounds_passed", 1)
				}
			}
			run.Count("contradictory_fragment_sets_injected", int64(sets))
			run.Case(fw.Hash("contradict"), true)
			os.Exit(run.Finish("", nil))
		}
		for b := lo; b < hi; b++ {
			tg.establish(b)
			var seqs [][]pkt
			if os.Getenv("VERIF_FRAGS") == "1" {
				seqs = fragSequences(&tg.c, b, fw.N(16, 1)*0+b-b+fragParts())
				_ = seqs
			}
			ps := batch(&tg.c, run.Seed, b, per)
			if os.Getenv("VERIF_FRAGS") == "1" {
				ps = ps[:0]
				for _, s := range fragSequences(&tg.c, b%fragParts(), fragParts()) {
					ps = append(ps, s...)
					ps = append(ps, pkt{0, nil}) // sequence separator: let the reassembly state of id 7 be reused
				}
			}
			// every eighth batch meets a promiscuous interface, and every other IPv4 / IPv6 frame of
			// it is re-addressed to a host that is not the stack: the hostile frames are handled by
			// temporary per-packet address objects (their own reassemblers, echo repliers, routes
			// held by half-open connections). Promiscuous mode ends before the probes.
			promisc := os.Getenv("VERIF_FRAGS") != "1" && b%8 == 5
			if promisc {
				for i := range ps {
					if i%2 == 0 && ps[i].Proto == 0x0800 && len(ps[i].Data) >= 20 {
						ps[i].Data = append([]byte(nil), ps[i].Data...)
						copy(ps[i].Data[16:20], []byte{10, 0, 0, byte(77 + i%3)})
					} else if i%2 == 0 && ps[i].Proto == 0x86dd && len(ps[i].Data) >= 40 {
						ps[i].Data = append([]byte(nil), ps[i].Data...)
						ps[i].Data[39] ^= byte(0x40 + i%3)
					}
				}
				if e := tg.h.S.SetPromiscuousMode(1, true); e != nil {
					run.Broken("harness: promiscuous mode: " + e.String())
				}
				run.Count("batches_received_by_a_promiscuous_interface", 1)
			}
			bf := filepath.Join(dir, fmt.Sprintf("%s.batch-%d.bin", tag, b))
			writeBatch(bf, ps)
			idxLog.WriteString(fmt.Sprintf("batch %d file %s\n", b, bf))
			var ib [4]byte
			for i, p := range ps {
				binary.BigEndian.PutUint32(ib[:], uint32(i))
				idxLog.Write(ib[:])
				if p.Proto == 0 {
					continue
				}
				tg.inject(p)
				if i == len(ps)/2 {
					// the second half arrives half a minute later: whatever per-datagram state the
					// first half left behind (reassembly, half-open handshakes) has aged by then
					rawpeer.Settle()
					time.Sleep(31 * time.Second)
				}
				if i%64 == 63 {
					rawpeer.Settle()
					tg.p4.Take()
					tg.p6.Take()
					tg.p4.TakeOther()
					tg.p6.TakeOther()
				}
			}
			rawpeer.Settle()
			if promisc {
				tg.h.S.SetPromiscuousMode(1, false)
			}
			run.Count("frames_injected", int64(len(ps)))
			run.Case(fw.Hash("batch", b), true)
			if m := tg.probes(b); m != "" {
				keep := filepath.Join(fw.VerifDir, "replays", fmt.Sprintf("C07-%d-batch-%d.bin", run.Seed, b))
				os.MkdirAll(filepath.Dir(keep), 0o755)
				writeBatch(keep, ps)
				run.Violation("C07/not-serving", fmt.Sprintf("after batch %d (%d frames) the stack no longer serves: %s", b, len(ps), m), map[string]interface{}{"batch_file": keep, "batch": b})
				break // the target is damaged; the parent restarts after this batch
			}
			os.Remove(bf)
			run.Count("probe_rounds_passed", 1)
		}
		os.Exit(run.Finish("", nil))
	})
}

func fragParts() int { return fw.N(24, 1) }

// ---------------------------------------------------------------------------
// fd-based Ethernet link over a socketpair, real time.

func fdChild(t *testing.T) {
	var lo, hi int
	fmt.Sscan(os.Getenv("VERIF_RANGE"), &lo, &hi)
	fds, err := syscall.Socketpair(syscall.AF_UNIX, syscall.SOCK_SEQPACKET, 0)
	if err != nil {
		run.Broken("socketpair: " + err.Error())
		os.Exit(run.Finish("", nil))
	}
	var closed int32
	smac := tcpip.LinkAddress([]byte{2, 0, 0, 0, 0, 1})
	pmac := [6]byte{2, 0, 0, 0, 0, 2}
	id := fdbased.New(&fdbased.Options{FD: fds[0], MTU: 1500, Address: smac, ResolutionRequired: true, CloseFunc: func(*tcpip.Error) { atomic.StoreInt32(&closed, 1) }})
	s := stack.New([]string{ipv4.ProtocolName, ipv6.ProtocolName, arp.ProtocolName}, []string{tcp.ProtocolName, udp.ProtocolName}, stack.Options{})
	s.CreateNIC(1, id)
	s.AddAddress(1, ipv4.ProtocolNumber, wire.AddrA4)
	s.AddAddress(1, ipv6.ProtocolNumber, wire.AddrA6)
	s.AddAddress(1, arp.ProtocolNumber, arp.ProtocolAddress)
	s.SetRouteTable([]tcpip.Route{{Destination: "\x00\x00\x00\x00", Mask: "\x00\x00\x00\x00", NIC: 1}, {Destination: tcpip.Address(make([]byte, 16)), Mask: tcpip.AddressMask(make([]byte, 16)), NIC: 1}})
	s.AddLinkAddress(1, wire.AddrB4, tcpip.LinkAddress(pmac[:]))
	var c ctx
	copy(c.S4[:], wire.AddrA4)
	copy(c.P4[:], wire.AddrB4)
	copy(c.S6[:], wire.AddrA6)
	copy(c.P6[:], wire.AddrB6)
	c.PMAC = pmac
	c.ListenPort, c.UDPPort, c.ConnL, c.ConnP = 80, 5353, 8080, 40000
	lep, _ := s.NewEndpoint(tcp.ProtocolNumber, ipv6.ProtocolNumber, &waiter.Queue{})
	lep.Bind(tcpip.FullAddress{Port: 80}, nil)
	lep.Listen(64)
	uep, _ := s.NewEndpoint(udp.ProtocolNumber, ipv6.ProtocolNumber, &waiter.Queue{})
	uep.Bind(tcpip.FullAddress{Port: 5353}, nil)
	// reader of everything the stack writes
	replies := make(chan []byte, 4096)
	go func() {
		buf := make([]byte, 70000)
		for {
			n, err := syscall.Read(fds[1], buf)
			if err != nil || n <= 0 {
				return
			}
			select {
			case replies <- append([]byte(nil), buf[:n]...):
			default:
			}
		}
	}()
	send := func(proto uint16, data []byte) {
		e := rfc.Eth{Type: proto, Payload: data}
		copy(e.Dst[:], smac)
		e.Src = pmac
		syscall.Sendto(fds[1], e.Bytes(), syscall.MSG_DONTWAIT, nil)
	}
	probeN := 0
	probe := func(idx int) string {
		probeN++
		pl := []byte(fmt.Sprintf("fd-probe-%d-%d", idx, probeN))
		m := rfc.ICMP{Type: 8, Rest: [4]byte{0x55, byte(probeN >> 8), 0, byte(probeN)}, Payload: pl}
		// a hostile ARP/NDP frame may have taught the stack another link address for the
		// peer: announce the real one again (an ARP request for the stack's address)
		a := rfc.ARP{HType: 1, PType: 0x0800, HLen: 6, PLen: 4, Op: 1, SHA: pmac, SPA: c.P4, TPA: c.S4}
		send(rfc.EthARP, a.Bytes())
		time.Sleep(20 * time.Millisecond)
		// drain old replies
		for len(replies) > 0 {
			<-replies
		}
		send(rfc.EthIPv4, ip4(&c, rfc.ProtoICMP, m.BytesV4(true), uint16(probeN)))
		deadline := time.After(20 * time.Second)
		for {
			select {
			case f := <-replies:
				e, err := rfc.ParseEth(f)
				if err != nil || e.Type != rfc.EthIPv4 {
					continue
				}
				ip, err := rfc.ParseIPv4(e.Payload)
				if err != nil || ip.Proto != rfc.ProtoICMP {
					continue
				}
				if mm, err := rfc.ParseICMPv4(ip.Payload); err == nil && mm.Type == 0 && mm.Rest == m.Rest && bytes.Equal(mm.Payload, pl) {
					if e.Dst != pmac {
						return fmt.Sprintf("echo reply sent to MAC %x, the requester is %x", e.Dst, pmac)
					}
					return ""
				}
			case <-deadline:
				if atomic.LoadInt32(&closed) == 1 {
					return "the link endpoint's dispatch loop has ended (its close callback fired): no frame is read any more"
				}
				return "watchdog"
			}
		}
	}
	if m := probe(-1); m != "" {
		run.Broken("fd-based probe fails before any hostile frame: " + m)
		os.Exit(run.Finish("", nil))
	}
	dir, tag := os.Getenv("VERIF_RUN_DIR"), os.Getenv("VERIF_TAG")
	for b := lo; b < hi; b++ {
		r := fw.NewRand(run.Seed, "C07", "fd", b)
		ps := batch(&c, run.Seed, 100000+b, 800)
		// Ethernet-level hostility: runts of every length 0..20 and oversize frames
		var raw [][]byte
		for _, p := range ps {
			e := rfc.Eth{Type: p.Proto, Payload: p.Data}
			copy(e.Dst[:], smac)
			e.Src = pmac
			fb := e.Bytes()
			if r.Chance(1, 12) {
				fb = fb[:r.Intn(minI(len(fb), 21)+0)+0]
			}
			raw = append(raw, fb)
		}
		bf := filepath.Join(dir, fmt.Sprintf("%s.batch-%d.bin", tag, b))
		var pk []pkt
		for _, f := range raw {
			pk = append(pk, pkt{0xffff, f})
		}
		writeBatch(bf, pk)
		stuck := false
		for _, f := range raw {
			if len(f) == 0 {
				continue // a zero-length write on a seqpacket socket reads as end-of-file, not as a frame
			}
			// non-blocking writes: when the stack stops reading the socket fills up
			for try := 0; ; try++ {
				werr := syscall.Sendto(fds[1], f, syscall.MSG_DONTWAIT, nil)
				if werr != syscall.EAGAIN {
					break
				}
				if atomic.LoadInt32(&closed) == 1 || try > 2000 {
					stuck = true
					break
				}
				time.Sleep(time.Millisecond)
			}
			if stuck {
				break
			}
		}
		run.Count("ethernet_frames_written", int64(len(raw)))
		run.Case(fw.Hash("fd", b), true)
		if m := probe(b); m == "watchdog" {
			run.Inconclusive("fd-probe-watchdog")
			break
		} else if m != "" {
			keep := filepath.Join(fw.VerifDir, "replays", fmt.Sprintf("C07-%d-fd-batch-%d.bin", run.Seed, b))
			writeBatch(keep, pk)
			key := "C07/fdbased/not-serving"
			if atomic.LoadInt32(&closed) == 1 {
				key = "C07/fdbased/dispatch-loop-ended"
			}
			run.Violation(key, fmt.Sprintf("fd-based link, after batch %d: %s", b, m), map[string]interface{}{"batch_file": keep})
			break
		}
		os.Remove(bf)
		run.Count("fd_probe_rounds_passed", 1)
	}
	os.Exit(run.Finish("", nil))
}

// raceChild: the same barrage from 4 goroutines at once (pinned toolchain, -race).
func raceChild(t *testing.T) {
	var lo, hi int
	fmt.Sscan(os.Getenv("VERIF_RANGE"), &lo, &hi)
	tg, err := newTarget()
	if err != nil {
		run.Broken("harness: " + err.Error())
		os.Exit(run.Finish("", nil))
	}
	dir, tag := os.Getenv("VERIF_RUN_DIR"), os.Getenv("VERIF_TAG")
	for b := lo; b < hi; b++ {
		tg.establish(b)
		ps := batch(&tg.c, run.Seed, 200000+b, 1200)
		bf := filepath.Join(dir, fmt.Sprintf("%s.batch-%d.bin", tag, b))
		writeBatch(bf, ps)
		var wg sync.WaitGroup
		for g := 0; g < 4; g++ {
			g := g
			wg.Add(1)
			go func() {
				defer wg.Done()
				for i := g; i < len(ps); i += 4 {
					tg.inject(ps[i])
				}
			}()
		}
		wg.Wait()
		time.Sleep(5 * time.Millisecond)
		tg.drain()
		os.Remove(bf)
		run.Count("frames_injected_concurrently", int64(len(ps)))
		run.Case(fw.Hash("race", b), true)
	}
	os.Exit(run.Finish("", nil))
}

func TestC07(t *testing.T) {
	log.SetOutput(io.Discard)
	run = fw.Start("C07", "exploration")
	if fw.IsChild() {
		switch os.Getenv("VERIF_PHASE") {
		case "fd":
			fdChild(t)
		case "race":
			raceChild(t)
		default:
			vtChild(t)
		}
		return
	}
	dir := os.Getenv("VERIF_RUN_DIR")
	var wg sync.WaitGroup
	// a crashed child is restarted after the crashing batch (at most 3 times per worker)
	worker := func(bin, phase, tag string, lo, hi int, race bool, extra []string) {
		defer wg.Done()
		for attempt := 0; attempt < 4 && lo < hi; attempt++ {
			atag := fmt.Sprintf("%s_%d", tag, attempt)
			res := run.RunChild(fw.ChildSpec{Bin: bin, Test: "^TestC07$", Tag: atag, Race: race, Anchors: []string{"stack/", "protocol/network/", "protocol/transport/", "protocol/header/", "protocol/link/fdbased", "pkg/buffer"},
				Env: append([]string{"VERIF_PHASE=" + phase, fmt.Sprintf("VERIF_RANGE=%d %d", lo, hi), "VERIF_TAG=" + atag}, extra...), Timeout: time.Duration(fw.N(8, 90)) * time.Minute})
			if res.Done {
				return
			}
			// find the batch and frame that was being injected
			crashedBatch := lo
			frame := -1
			var batchFile string
			if b, err := os.ReadFile(filepath.Join(dir, atag+".index")); err == nil {
				// text header lines "batch N file F\n" followed by 4-byte indices
				for {
					i := bytes.LastIndex(b, []byte("batch "))
					if i < 0 {
						break
					}
					rest := b[i:]
					nl := bytes.IndexByte(rest, '\n')
					if nl < 0 {
						break
					}
					fmt.Sscanf(string(rest[:nl]), "batch %d file %s", &crashedBatch, &batchFile)
					idx := rest[nl+1:]
					if len(idx) >= 4 {
						frame = int(binary.BigEndian.Uint32(idx[len(idx)-len(idx)%4-4:]))
					}
					break
				}
			}
			var witness interface{}
			if ps := readBatch(batchFile); frame >= 0 && frame < len(ps) {
				from := frame - 3
				if from < 0 {
					from = 0
				}
				var w []string
				for _, p := range ps[from : frame+1] {
					w = append(w, fmt.Sprintf("%04x:%x", p.Proto, p.Data))
				}
				keep := filepath.Join(fw.VerifDir, "replays", fmt.Sprintf("C07-%d-crash-batch-%d.bin", run.Seed, crashedBatch))
				os.MkdirAll(filepath.Dir(keep), 0o755)
				writeBatch(keep, ps[:frame+1])
				witness = map[string]interface{}{"batch": crashedBatch, "frame_index": frame, "last_frames_hex(ethertype:bytes)": w, "batch_file": keep}
			}
			run.ChildCrashed(res, "C07", witness)
			lo = crashedBatch + 1
		}
	}
	nb := fw.N(192, 9600) // batches of 1500 (quick) / 6000 (thorough) frames
	nchild := 16
	for c := 0; c < nchild; c++ {
		wg.Add(1)
		go worker(os.Getenv("VERIF_BIN_VT"), "vt", fmt.Sprintf("vt%d", c), nb*c/nchild, nb*(c+1)/nchild, false, nil)
	}
	wg.Wait()
	// exhaustive small-scope fragment sequences
	fp := fragParts()
	for c := 0; c < fp; c++ {
		wg.Add(1)
		go worker(os.Getenv("VERIF_BIN_VT"), "vt", fmt.Sprintf("frag%d", c), 1000000+c, 1000000+c+1, false, []string{"VERIF_FRAGS=1"})
	}
	wg.Add(1)
	go worker(os.Getenv("VERIF_BIN_VT"), "vt", "contradict", 2000000, 2000001, false, []string{"VERIF_CONTRADICT=1"})
	wg.Wait()
	for c := 0; c < 2; c++ {
		wg.Add(1)
		go worker(os.Getenv("VERIF_BIN_PLAIN"), "fd", fmt.Sprintf("fd%d", c), fw.N(20, 400)*c, fw.N(20, 400)*(c+1), false, nil)
	}
	for c := 0; c < 2; c++ {
		wg.Add(1)
		go worker(os.Getenv("VERIF_BIN_RACE"), "race", fmt.Sprintf("race%d", c), fw.N(8, 200)*c, fw.N(8, 200)*(c+1), true, nil)
	}
	wg.Wait()
	code := run.Finish("child processes host a real stack (listener, established connection, bound UDP socket, IPv4+IPv6+ARP); every batch of frames is written to disk before it is injected and the index of each frame is logged first, so a process death names the frame. Frames: valid ARP / echo / NDP / UDP / SYN with option soup / in- and near-window segments with all flag sets / fragments / ICMP errors quoting the stack's packets / IPv6 fragment headers, put through 1-3 structure-aware mutations (truncate anywhere, length/offset/flag bytes and 16-bit fields set to edge values, bit flips, splices, noise, wrong ethertype) plus pure noise of every length 0..128; exhaustive small scope: all IPv4 fragment pairs (and a subset of triples) over offsets {0,8,16,65528} x lengths {0,1,8,9,16} x MF. One child receives megabytes of self-contradictory fragment sets. After each batch, in virtual time: one matching echo reply, a new TCP handshake accepted with its data readable, a UDP datagram delivered intact, and a UDP datagram delivered from three fragments. Also: the fd-based Ethernet link over a socketpair in real time (runt frames 0..20 bytes; echo probe; the link's close callback), and the barrage from 4 goroutines under the race detector. distinct = batches Later additions: Every eighth batch meets a promiscuous interface with every other IP frame re-addressed to a foreign host (temporary per-packet address objects). Bare ACKs to the listener with arbitrary acknowledgement numbers (forged SYN cookies); half of each batch arrives 31 virtual seconds after the other half. One child receives hundreds of self-contradictory fragment sets (large, small, tiny); every probe round also needs a 2.4 KB datagram delivered from three fragments.",
		[]string{"a panic/fatal whose innermost non-runtime frame is under /repo is a violation keyed by that file; a watchdog expiry is inconclusive", "probes use fresh ports and drain queues first, so a legitimately reset or filled connection does not count against the stack"})
	os.Exit(code)
}
