package c06

import (
	"bytes"
	"fmt"
	"os"
	"runtime"
	"sync"
	"sync/atomic"
	"syscall"
	"time"

	"github.com/brewlin/net-protocol/pkg/waiter"
	tcpip "github.com/brewlin/net-protocol/protocol"
	"github.com/brewlin/net-protocol/protocol/link/fdbased"
	"github.com/brewlin/net-protocol/protocol/network/arp"
	"github.com/brewlin/net-protocol/protocol/network/ipv4"
	"github.com/brewlin/net-protocol/protocol/network/ipv6"
	"github.com/brewlin/net-protocol/protocol/transport/tcp"
	"github.com/brewlin/net-protocol/protocol/transport/udp"
	"github.com/brewlin/net-protocol/stack"
	"verifh/fw"
	"verifh/rfc"
)

// ---- sweep 4: the fd-based Ethernet link over a socketpair (real time) ----------
//
// The harness is the whole Ethernet segment: it answers ARP requests and
// neighbour solicitations for the neighbours it plays (an on-link host and a
// gateway, IPv4 and IPv6), injects echo requests / SYNs / ARP probes, and
// decodes every frame the stack writes to the descriptor.

var bcast = [6]byte{0xff, 0xff, 0xff, 0xff, 0xff, 0xff}

type fdFrame struct {
	eth  rfc.Eth
	info rfc.Info
	raw  []byte
}

type fdSeg struct {
	fd   int
	smac [6]byte
	k    int

	mu      sync.Mutex
	cond    *sync.Cond
	frames  []fdFrame
	neigh4  map[[4]byte][6]byte  // neighbours the harness plays -> the MAC it currently answers with
	neigh6  map[[16]byte][6]byte //
	everMAC map[[6]byte]bool     // every MAC the harness ever used
	fc      *rfc.FrameChecker
	own4    [4]byte
	own6    [16]byte
	stop    int32
	done    chan struct{}
	log     []string
}

func (g *fdSeg) send(src, dst [6]byte, typ uint16, payload []byte) {
	e := rfc.Eth{Dst: dst, Src: src, Type: typ, Payload: payload}
	for try := 0; try < 5000; try++ {
		if err := syscall.Sendto(g.fd, e.Bytes(), syscall.MSG_DONTWAIT, nil); err != syscall.EAGAIN {
			return
		}
		time.Sleep(time.Millisecond)
	}
}

func (g *fdSeg) violation(key, what string, f []byte) {
	if len(f) > 120 {
		f = f[:120]
	}
	run.Violation("C06/fd/"+key, fmt.Sprintf("fd-based link, scenario %d: %s; frame=%x", g.k, what, f), map[string]interface{}{"scenario": g.k, "frame_hex": fmt.Sprintf("%x", f)})
}

// reader decodes every frame the stack emits, judges what can be judged
// without context and answers resolution requests.
func (g *fdSeg) reader() {
	defer close(g.done)
	buf := make([]byte, 70000)
	for {
		n, err := syscall.Read(g.fd, buf)
		if err != nil || n <= 0 {
			return
		}
		if atomic.LoadInt32(&g.stop) == 1 {
			return
		}
		raw := append([]byte(nil), buf[:n]...)
		e, err := rfc.ParseEth(raw)
		if err != nil {
			g.violation("runt", err.Error(), raw)
			continue
		}
		run.Count("fd_frames", 1)
		if e.Type != rfc.EthARP && e.Type != rfc.EthIPv4 && e.Type != rfc.EthIPv6 {
			g.violation("ethertype", fmt.Sprintf("EtherType %#04x", e.Type), raw)
			continue
		}
		in, err := g.fc.Check(e.Type, e.Payload)
		if err != nil {
			g.violation("decode/"+in.Kind, err.Error(), raw)
		}
		if e.Src != g.smac {
			g.violation("eth-source/"+in.Kind, fmt.Sprintf("Ethernet source %x, the interface's address is %x", e.Src, g.smac), raw)
		}
		g.mu.Lock()
		// a destination that is neither broadcast/multicast nor a MAC any neighbour ever had
		if e.Dst != bcast && !(e.Dst[0] == 0x33 && e.Dst[1] == 0x33) && !g.everMAC[e.Dst] {
			g.mu.Unlock()
			g.violation("eth-destination-unknown/"+in.Kind, fmt.Sprintf("Ethernet destination %x was never announced by any neighbour", e.Dst), raw)
			g.mu.Lock()
		}
		// resolution requests
		switch {
		case in.Kind == "arp" && err == nil && in.ARP.Op == 1:
			if e.Dst != bcast {
				g.mu.Unlock()
				g.violation("arp-request-not-broadcast", fmt.Sprintf("ARP request sent to %x", e.Dst), raw)
				g.mu.Lock()
			}
			if in.ARP.SHA != g.smac || in.ARP.SPA != g.own4 {
				g.mu.Unlock()
				g.violation("arp-request-sender", fmt.Sprintf("ARP request carries sender %x / %v", in.ARP.SHA, in.ARP.SPA), raw)
				g.mu.Lock()
			}
			if mac, ok := g.neigh4[in.ARP.TPA]; ok {
				rep := rfc.ARP{HType: 1, PType: 0x0800, HLen: 6, PLen: 4, Op: 2, SHA: mac, SPA: in.ARP.TPA, THA: in.ARP.SHA, TPA: in.ARP.SPA}
				g.mu.Unlock()
				g.send(mac, g.smac, rfc.EthARP, rep.Bytes())
				g.mu.Lock()
			}
		case in.Kind == "icmp6" && err == nil && in.ICMP.Type == 135 && len(in.ICMP.Payload) >= 16:
			var tgt [16]byte
			copy(tgt[:], in.ICMP.Payload[:16])
			if e.Dst != bcast && !(e.Dst[0] == 0x33 && e.Dst[1] == 0x33) {
				g.mu.Unlock()
				g.violation("ns-not-multicast", fmt.Sprintf("neighbour solicitation sent to MAC %x", e.Dst), raw)
				g.mu.Lock()
			}
			if mac, ok := g.neigh6[tgt]; ok {
				adv := rfc.ICMP{Type: 136, Rest: [4]byte{0x60, 0, 0, 0}, Payload: append(append([]byte{}, tgt[:]...), 2, 1, mac[0], mac[1], mac[2], mac[3], mac[4], mac[5])}
				ip := rfc.IPv6{Next: rfc.ProtoICMPv6, Hop: 255, Src: tgt, Dst: g.own6, Payload: adv.BytesV6(tgt, g.own6, true)}
				g.mu.Unlock()
				g.send(mac, g.smac, rfc.EthIPv6, ip.Bytes(true))
				g.mu.Lock()
			}
		}
		g.frames = append(g.frames, fdFrame{e, in, raw})
		g.cond.Broadcast()
		g.mu.Unlock()
	}
}

// wait returns the first frame at or after *cursor for which pred holds (and
// moves the cursor behind it); ok=false after the wall-clock watchdog.
func (g *fdSeg) wait(cursor *int, pred func(f *fdFrame) bool) (fdFrame, bool) {
	deadline := time.Now().Add(15 * time.Second)
	tm := time.AfterFunc(15*time.Second, func() { g.mu.Lock(); g.cond.Broadcast(); g.mu.Unlock() })
	defer tm.Stop()
	g.mu.Lock()
	defer g.mu.Unlock()
	for {
		for *cursor < len(g.frames) {
			f := &g.frames[*cursor]
			*cursor++
			if pred(f) {
				return *f, true
			}
		}
		if time.Now().After(deadline) {
			return fdFrame{}, false
		}
		g.cond.Wait()
	}
}

func (g *fdSeg) neighbours() string {
	g.mu.Lock()
	defer g.mu.Unlock()
	out := ""
	for ip, m := range g.neigh4 {
		out += fmt.Sprintf("%v=%x ", ip, m)
	}
	for ip, m := range g.neigh6 {
		out += fmt.Sprintf("%x=%x ", ip[14:], m)
	}
	return out + fmt.Sprintf("log: %v", g.log)
}

func (g *fdSeg) mark() int {
	g.mu.Lock()
	defer g.mu.Unlock()
	return len(g.frames)
}

func fdScenario(k int) {
	r := fw.NewRand(run.Seed, "C06", "fd", k)
	fds, err := syscall.Socketpair(syscall.AF_UNIX, syscall.SOCK_SEQPACKET, 0)
	if err != nil {
		run.Broken("socketpair: " + err.Error())
		return
	}
	// fds[0] stays open until the process ends: the stack of this scenario keeps
	// its descriptor number, which must not be reused by a later socketpair.
	mkmac := func() (m [6]byte) {
		copy(m[:], r.Bytes(6))
		m[0] = m[0]&^1 | 2
		return
	}
	g := &fdSeg{fd: fds[1], k: k, smac: mkmac(), neigh4: map[[4]byte][6]byte{}, neigh6: map[[16]byte][6]byte{}, everMAC: map[[6]byte]bool{}, fc: rfc.NewFrameChecker(), done: make(chan struct{})}
	g.cond = sync.NewCond(&g.mu)
	mtu := []uint32{1500, 1500, 1280, 2000, 9000, 576 + uint32(r.Intn(900))}[r.Intn(6)]
	a4 := [4]byte{10, 0, 0, 1}
	b4 := [4]byte{10, 0, 0, byte(2 + r.Intn(200))}
	gw4 := [4]byte{10, 0, 0, 254}
	x4 := [4]byte{byte(11 + r.Intn(200)), byte(r.Intn(256)), byte(r.Intn(256)), byte(1 + r.Intn(250))}
	var a6, b6, gw6, x6 [16]byte
	a6[0], a6[15] = 0xfd, 1
	b6[0], b6[15] = 0xfd, byte(2+r.Intn(200))
	gw6[0], gw6[15] = 0xfd, 0xfe
	copy(x6[:], []byte{0x20, 0x01, 0x0d, 0xb8})
	x6[15] = byte(1 + r.Intn(250))
	g.own4, g.own6 = a4, a6
	setMAC := func(v6 bool, ip4 [4]byte, ip6 [16]byte, m [6]byte) {
		g.mu.Lock()
		if v6 {
			g.neigh6[ip6] = m
		} else {
			g.neigh4[ip4] = m
		}
		g.everMAC[m] = true
		g.mu.Unlock()
	}
	setMAC(false, b4, b6, mkmac())
	setMAC(false, gw4, gw6, mkmac())
	setMAC(true, b4, b6, mkmac())
	setMAC(true, gw4, gw6, mkmac())

	var closed int32
	id := fdbased.New(&fdbased.Options{FD: fds[0], MTU: mtu, Address: tcpip.LinkAddress(g.smac[:]), ResolutionRequired: true, CloseFunc: func(*tcpip.Error) { atomic.StoreInt32(&closed, 1) }})
	s := stack.New([]string{ipv4.ProtocolName, ipv6.ProtocolName, arp.ProtocolName}, []string{tcp.ProtocolName, udp.ProtocolName}, stack.Options{})
	s.CreateNIC(1, id)
	s.AddAddress(1, ipv4.ProtocolNumber, tcpip.Address(a4[:]))
	s.AddAddress(1, ipv6.ProtocolNumber, tcpip.Address(a6[:]))
	s.AddAddress(1, arp.ProtocolNumber, arp.ProtocolAddress)
	m6 := make([]byte, 16)
	for i := 0; i < 8; i++ {
		m6[i] = 0xff
	}
	net6 := make([]byte, 16)
	net6[0] = 0xfd
	table := []tcpip.Route{
		{Destination: tcpip.Address([]byte{10, 0, 0, 0}), Mask: tcpip.AddressMask([]byte{255, 255, 255, 0}), NIC: 1},
		{Destination: "\x00\x00\x00\x00", Mask: "\x00\x00\x00\x00", Gateway: tcpip.Address(gw4[:]), NIC: 1},
		{Destination: tcpip.Address(net6), Mask: tcpip.AddressMask(m6), NIC: 1},
		{Destination: tcpip.Address(make([]byte, 16)), Mask: tcpip.AddressMask(make([]byte, 16)), Gateway: tcpip.Address(gw6[:]), NIC: 1},
	}
	rt := make([]tcpip.Route, len(table))
	for i, j := range r.Perm(len(table)) {
		rt[i] = table[j]
	}
	crowded := k%8 == 5 // more neighbours on the segment than the stack's neighbour cache holds
	if crowded {
		table[0].Mask = tcpip.AddressMask([]byte{255, 255, 0, 0})
		copy(rt, table) // on-link route first: every neighbour is its own next hop
	}
	s.SetRouteTable(rt)
	// reference next hop: first matching entry; its gateway if it has one
	nextHop := func(dst []byte) []byte {
		for _, e := range rt {
			if len(e.Destination) != len(dst) {
				continue
			}
			ok := true
			for i := range dst {
				if dst[i]&e.Mask[i] != e.Destination[i] {
					ok = false
				}
			}
			if ok {
				if e.Gateway != "" {
					return []byte(e.Gateway)
				}
				return dst
			}
		}
		return nil
	}
	macOf := func(hop []byte) ([6]byte, bool) {
		g.mu.Lock()
		defer g.mu.Unlock()
		if len(hop) == 4 {
			var x [4]byte
			copy(x[:], hop)
			m, ok := g.neigh4[x]
			return m, ok
		}
		var x [16]byte
		copy(x[:], hop)
		m, ok := g.neigh6[x]
		return m, ok
	}
	go g.reader()

	wq := &waiter.Queue{}
	u4, _ := s.NewEndpoint(udp.ProtocolNumber, ipv4.ProtocolNumber, wq)
	u6, _ := s.NewEndpoint(udp.ProtocolNumber, ipv6.ProtocolNumber, wq)
	u4.Bind(tcpip.FullAddress{Port: 5000}, nil)
	u6.Bind(tcpip.FullAddress{Port: 5001}, nil)
	lep, _ := s.NewEndpoint(tcp.ProtocolNumber, ipv6.ProtocolNumber, &waiter.Queue{})
	lep.Bind(tcpip.FullAddress{Port: 80}, nil)
	lep.Listen(16)

	missing := 0
	maxUDP4, maxUDP6 := int(mtu)-28, int(mtu)-48
	if crowded {
		n := 513 + r.Intn(60)
		ips := make([][4]byte, n)
		for i := range ips {
			ips[i] = [4]byte{10, 0, byte(1 + i/250), byte(1 + i%250)}
			m := mkmac()
			setMAC(false, ips[i], [16]byte{}, m)
			rq := rfc.ARP{HType: 1, PType: 0x0800, HLen: 6, PLen: 4, Op: 1, SHA: m, SPA: ips[i], TPA: a4}
			pc := g.mark()
			g.send(m, bcast, rfc.EthARP, rq.Bytes())
			if i%40 == 39 {
				// pace the burst: the stack writes its answers without blocking, a full
				// socket buffer would lose them
				ip := ips[i]
				g.wait(&pc, func(f *fdFrame) bool { return f.info.Kind == "arp" && f.info.ARP.Op == 2 && f.info.ARP.TPA == ip })
			}
		}
		// barrier: the last announcement once more, both answers seen
		cur := g.mark()
		last := ips[n-1]
		lm, _ := macOf(last[:])
		rq := rfc.ARP{HType: 1, PType: 0x0800, HLen: 6, PLen: 4, Op: 1, SHA: lm, SPA: last, TPA: a4}
		g.send(lm, bcast, rfc.EthARP, rq.Bytes())
		g.send(lm, bcast, rfc.EthARP, rq.Bytes())
		isRep := func(f *fdFrame) bool { return f.info.Kind == "arp" && f.info.ARP.Op == 2 && f.info.ARP.TPA == last }
		ok := true
		for i := 0; i < 2 && ok; i++ { // at least the answers to the two repeats come after the mark
			_, ok = g.wait(&cur, isRep)
		}
		if !ok {
			dbg(k, -1, -1, last[:])
			missing++
		}
		// datagrams to the oldest (evicted from the cache of 512) and the newest neighbours
		for j, idx := range []int{0, 1, 2, n / 2, n - 2, n - 1, 0} {
			dport := uint16(9000 + j)
			payload := r.Bytes(1 + r.Intn(200))
			var werr *tcpip.Error
			cur := g.mark()
			for try := 0; try < 4; try++ {
				var ch <-chan struct{}
				_, ch, werr = u4.Write(tcpip.SlicePayload(payload), tcpip.WriteOptions{To: &tcpip.FullAddress{Addr: tcpip.Address(ips[idx][:]), Port: dport}})
				if werr == nil || ch == nil {
					break
				}
				select {
				case <-ch:
				case <-time.After(10 * time.Second):
				}
			}
			if werr != nil {
				run.Count("fd_udp_write_errors:"+werr.String(), 1)
				continue
			}
			f, ok := g.wait(&cur, func(f *fdFrame) bool { return f.info.Kind == "udp4" && f.info.DstPort == dport })
			if !ok {
				dbg(k, j, -2, ips[idx][:])
				missing++
				continue
			}
			want, _ := macOf(ips[idx][:])
			if f.eth.Dst != want {
				g.violation("eth-destination/crowded-segment", fmt.Sprintf("UDP datagram for neighbour #%d of %d (%v) leaves with destination MAC %x; that neighbour announced %x (the neighbour cache holds 512 entries)", idx, n, ips[idx], f.eth.Dst, want), f.raw)
			}
			run.Count("fd_crowded_segment_datagrams_checked", 1)
		}
	}
	nact := 30
	sig := []interface{}{"fd", mtu, rt[0].Gateway != "", rt[0].Destination[0]}
	kinds := map[string]bool{}
	for a := 0; a < nact && run.Violations() < 4; a++ {
		v6 := r.Chance(1, 3)
		far := r.Chance(1, 3) // peer beyond the gateway
		var peer []byte
		switch {
		case v6 && far:
			peer = x6[:]
		case v6:
			peer = b6[:]
		case far:
			peer = x4[:]
		default:
			peer = b4[:]
		}
		hop := nextHop(peer)
		hopMAC, known := macOf(hop)
		if !known {
			continue
		}
		var p4 [4]byte
		var p6 [16]byte
		copy(p4[:], peer)
		copy(p6[:], peer)
		etype := uint16(rfc.EthIPv4)
		if v6 {
			etype = rfc.EthIPv6
		}
		cur := g.mark()
		checkL2 := func(what string, f fdFrame) {
			if f.eth.Dst != hopMAC {
				g.violation("eth-destination/"+what, fmt.Sprintf("%s for %v leaves with destination MAC %x; the next hop %v resolved to %x (neighbours played: %s)", what, peer, f.eth.Dst, hop, hopMAC, g.neighbours()), f.raw)
			}
			if f.eth.Type != etype {
				g.violation("ethertype/"+what, fmt.Sprintf("%s for %v leaves with EtherType %#04x", what, peer, f.eth.Type), f.raw)
			}
			if v6 && (f.info.Src6 != a6 || f.info.Dst6 != p6) || !v6 && (f.info.Src4 != a4 || f.info.Dst4 != p4) {
				g.violation("ip-addresses/"+what, fmt.Sprintf("%s for %v: IP addresses %v>%v / %x>%x", what, peer, f.info.Src4, f.info.Dst4, f.info.Src6, f.info.Dst6), f.raw)
			}
		}
		act := r.Intn(7)
		g.mu.Lock()
		g.log = append(g.log, fmt.Sprintf("%d:act%d/v6=%v/far=%v", a, act, v6, far))
		g.mu.Unlock()
		switch act {
		case 0, 1: // unconnected UDP write
			max := maxUDP4
			if v6 {
				max = maxUDP6
			}
			plen := []int{0, 1, 2, 3, 17, 18, 19, 511, max - 1, max, r.Intn(max + 1)}[r.Intn(11)]
			payload := r.Bytes(plen)
			dport := uint16(10000 + a)
			ep := u4
			if v6 {
				ep = u6
			}
			var werr *tcpip.Error
			for try := 0; try < 4; try++ {
				var ch <-chan struct{}
				_, ch, werr = ep.Write(tcpip.SlicePayload(payload), tcpip.WriteOptions{To: &tcpip.FullAddress{Addr: tcpip.Address(peer), Port: dport}})
				if werr == nil || ch == nil {
					break
				}
				select {
				case <-ch:
				case <-time.After(10 * time.Second):
				}
			}
			if werr != nil {
				run.Count("fd_udp_write_errors:"+werr.String(), 1)
				break
			}
			kind := "udp4"
			if v6 {
				kind = "udp6"
			}
			f, ok := g.wait(&cur, func(f *fdFrame) bool { return f.info.Kind == kind && f.info.DstPort == dport })
			if !ok {
				dbg(k, a, act, peer)
				missing++
				break
			}
			kinds[kind] = true
			checkL2("UDP datagram", f)
			if !bytes.Equal(f.info.UDP.Payload, payload) || f.info.SrcPort != map[bool]uint16{false: 5000, true: 5001}[v6] {
				g.violation("udp-content", fmt.Sprintf("UDP datagram of %d bytes from port %d arrives with %d bytes from port %d", plen, map[bool]uint16{false: 5000, true: 5001}[v6], len(f.info.UDP.Payload), f.info.SrcPort), f.raw)
			}
			if want := 14 + map[bool]int{false: 28, true: 48}[v6] + plen; len(f.raw) != want {
				g.violation("frame-length", fmt.Sprintf("UDP datagram of %d bytes leaves in a frame of %d bytes, expected %d", plen, len(f.raw), want), f.raw)
			}
		case 2, 3: // echo request from the peer (through the gateway if far)
			plen := []int{0, 1, 2, 3, 8, 55, 56, 57, 512, 1000}[r.Intn(10)]
			pl := r.Bytes(plen)
			rest := [4]byte{byte(r.U32()), byte(r.U32()), byte(a), byte(k)}
			if v6 {
				m := rfc.ICMP{Type: 128, Rest: rest, Payload: pl}
				g.send(hopMAC, g.smac, rfc.EthIPv6, rfc.IPv6{Next: rfc.ProtoICMPv6, Hop: 64, Src: p6, Dst: a6, Payload: m.BytesV6(p6, a6, true)}.Bytes(true))
			} else {
				m := rfc.ICMP{Type: 8, Rest: rest, Payload: pl}
				g.send(hopMAC, g.smac, rfc.EthIPv4, rfc.IPv4{TTL: 64, Proto: rfc.ProtoICMP, ID: uint16(r.U32()), Src: p4, Dst: a4, Payload: m.BytesV4(true)}.Bytes(true))
			}
			kind, typ := "icmp4", uint8(0)
			if v6 {
				kind, typ = "icmp6", 129
			}
			f, ok := g.wait(&cur, func(f *fdFrame) bool {
				return f.info.Kind == kind && f.info.ICMP.Type == typ && f.info.ICMP.Rest == rest
			})
			if !ok {
				dbg(k, a, act, peer)
				missing++
				break
			}
			kinds[kind+"-echo"] = true
			checkL2("echo reply", f)
			if !bytes.Equal(f.info.ICMP.Payload, pl) {
				g.violation("echo-content", fmt.Sprintf("echo reply carries %d payload bytes, the request had %d", len(f.info.ICMP.Payload), plen), f.raw)
			}
		case 4: // SYN from the peer to the listener, then data, then RST
			sport := uint16(20000 + a)
			iss := r.U32()
			syn := rfc.TCP{SrcPort: sport, DstPort: 80, Seq: iss, Flags: rfc.SYN, Window: 20000, RawOpts: append(append(rfc.OptMSS(1000), rfc.OptSACKPerm()...), 1, 1)}
			sendTCP := func(t rfc.TCP) {
				if v6 {
					g.send(hopMAC, g.smac, rfc.EthIPv6, rfc.IPv6{Next: rfc.ProtoTCP, Hop: 64, Src: p6, Dst: a6, Payload: t.Bytes6(p6, a6, true)}.Bytes(true))
				} else {
					g.send(hopMAC, g.smac, rfc.EthIPv4, rfc.IPv4{TTL: 64, Proto: rfc.ProtoTCP, ID: uint16(r.U32()), Src: p4, Dst: a4, Payload: t.Bytes4(p4, a4, true)}.Bytes(true))
				}
			}
			kind := "tcp4"
			if v6 {
				kind = "tcp6"
			}
			sendTCP(syn)
			f, ok := g.wait(&cur, func(f *fdFrame) bool {
				return f.info.Kind == kind && f.info.DstPort == sport && f.info.TCP.Flags&rfc.SYN != 0
			})
			if !ok {
				dbg(k, a, act, peer)
				missing++
				break
			}
			kinds[kind+"-synack"] = true
			checkL2("SYN-ACK", f)
			if f.info.SrcPort != 80 || f.info.TCP.Ack != iss+1 {
				g.violation("synack-fields", fmt.Sprintf("SYN-ACK from port %d acknowledging %d, expected 80 / %d", f.info.SrcPort, f.info.TCP.Ack, iss+1), f.raw)
			}
			irs := f.info.TCP.Seq
			data := r.Bytes(1 + r.Intn(900))
			sendTCP(rfc.TCP{SrcPort: sport, DstPort: 80, Seq: iss + 1, Ack: irs + 1, Flags: rfc.ACK, Window: 20000})
			// the accepted endpoint's goroutine only starts with Accept
			var ne tcpip.Endpoint
			for try := 0; try < 3000 && ne == nil; try++ {
				if x, _, e := lep.Accept(); e == nil {
					ne = x
				} else {
					time.Sleep(5 * time.Millisecond)
				}
			}
			if ne == nil {
				dbg(k, a, act, peer)
				missing++
				sendTCP(rfc.TCP{SrcPort: sport, DstPort: 80, Seq: iss + 1, Flags: rfc.RST})
				break
			}
			sendTCP(rfc.TCP{SrcPort: sport, DstPort: 80, Seq: iss + 1, Ack: irs + 1, Flags: rfc.ACK | rfc.PSH, Window: 20000, Payload: data})
			f, ok = g.wait(&cur, func(f *fdFrame) bool {
				return f.info.Kind == kind && f.info.DstPort == sport && f.info.TCP.Flags&rfc.SYN == 0 && f.info.TCP.Ack == iss+1+uint32(len(data))
			})
			if ok {
				checkL2("TCP acknowledgement", f)
				kinds[kind+"-ack"] = true
			} else {
				dbg(k, a, act, peer)
				missing++
			}
			back := r.Bytes(1 + r.Intn(800))
			ne.Write(tcpip.SlicePayload(back), tcpip.WriteOptions{})
			f, ok = g.wait(&cur, func(f *fdFrame) bool {
				return f.info.Kind == kind && f.info.DstPort == sport && len(f.info.TCP.Payload) > 0
			})
			if ok {
				checkL2("TCP data segment", f)
				kinds[kind+"-data"] = true
				if f.info.TCP.Seq != irs+1 || !bytes.HasPrefix(back, f.info.TCP.Payload) {
					g.violation("tcp-data", fmt.Sprintf("first data segment: seq %d (expected %d), %d bytes that are not a prefix of what was written", f.info.TCP.Seq, irs+1, len(f.info.TCP.Payload)), f.raw)
				}
			} else {
				dbg(k, a, act, peer)
				missing++
			}
			sendTCP(rfc.TCP{SrcPort: sport, DstPort: 80, Seq: iss + 1 + uint32(len(data)), Flags: rfc.RST})
			ne.Close()
		case 5: // active open toward the peer; the peer refuses
			dport := uint16(30000 + a)
			proto := ipv4.ProtocolNumber
			if v6 {
				proto = ipv6.ProtocolNumber
			}
			cwq := &waiter.Queue{}
			ce, e := s.NewEndpoint(tcp.ProtocolNumber, proto, cwq)
			if e != nil {
				break
			}
			ce.Connect(tcpip.FullAddress{Addr: tcpip.Address(peer), Port: dport})
			kind := "tcp4"
			if v6 {
				kind = "tcp6"
			}
			f, ok := g.wait(&cur, func(f *fdFrame) bool {
				return f.info.Kind == kind && f.info.DstPort == dport && f.info.TCP.Flags == rfc.SYN
			})
			if !ok {
				dbg(k, a, act, peer)
				missing++
				ce.Close()
				break
			}
			kinds[kind+"-syn"] = true
			checkL2("SYN", f)
			rst := rfc.TCP{SrcPort: dport, DstPort: f.info.SrcPort, Ack: f.info.TCP.Seq + 1, Flags: rfc.RST | rfc.ACK}
			if v6 {
				g.send(hopMAC, g.smac, rfc.EthIPv6, rfc.IPv6{Next: rfc.ProtoTCP, Hop: 64, Src: p6, Dst: a6, Payload: rst.Bytes6(p6, a6, true)}.Bytes(true))
			} else {
				g.send(hopMAC, g.smac, rfc.EthIPv4, rfc.IPv4{TTL: 64, Proto: rfc.ProtoTCP, Src: p4, Dst: a4, Payload: rst.Bytes4(p4, a4, true)}.Bytes(true))
			}
			time.Sleep(2 * time.Millisecond)
			ce.Close()
		case 6: // the neighbour at the next hop changes its MAC and announces it by asking for the stack's address
			nm := mkmac()
			var hop4 [4]byte
			var hop6 [16]byte
			copy(hop4[:], hop)
			copy(hop6[:], hop)
			g.mu.Lock()
			g.everMAC[nm] = true
			g.mu.Unlock()
			if v6 {
				ns := rfc.ICMP{Type: 135, Payload: append(append([]byte{}, a6[:]...), 1, 1, nm[0], nm[1], nm[2], nm[3], nm[4], nm[5])}
				// the stack answers first and learns afterwards: the answer to a second,
				// identical solicitation proves that the first one has been handled completely
				nsf := rfc.IPv6{Next: rfc.ProtoICMPv6, Hop: 255, Src: hop6, Dst: a6, Payload: ns.BytesV6(hop6, a6, true)}.Bytes(true)
				g.send(nm, g.smac, rfc.EthIPv6, nsf)
				isNA := func(f *fdFrame) bool { return f.info.Kind == "icmp6" && f.info.ICMP.Type == 136 && f.info.Dst6 == hop6 }
				f, ok := g.wait(&cur, isNA)
				if ok {
					g.send(nm, g.smac, rfc.EthIPv6, nsf)
					_, ok = g.wait(&cur, isNA)
				}
				if !ok {
					dbg(k, a, act, peer)
					missing++
					break
				}
				kinds["neighbour-advert"] = true
				if f.eth.Dst != nm {
					g.violation("eth-destination/neighbour advertisement", fmt.Sprintf("advertisement answering a solicitation from MAC %x is sent to %x", nm, f.eth.Dst), f.raw)
				}
				if f.info.Src6 != a6 || len(f.info.ICMP.Payload) < 24 || !bytes.Equal(f.info.ICMP.Payload[:16], a6[:]) || !bytes.Equal(f.info.ICMP.Payload[18:24], g.smac[:]) {
					g.violation("advert-fields", "neighbour advertisement does not carry the solicited target and the interface's link address", f.raw)
				}
			} else {
				rq := rfc.ARP{HType: 1, PType: 0x0800, HLen: 6, PLen: 4, Op: 1, SHA: nm, SPA: hop4, TPA: a4}
				g.send(nm, bcast, rfc.EthARP, rq.Bytes())
				isRep := func(f *fdFrame) bool { return f.info.Kind == "arp" && f.info.ARP.Op == 2 && f.info.ARP.TPA == hop4 }
				f, ok := g.wait(&cur, isRep)
				if ok { // see above: answer first, learn afterwards
					g.send(nm, bcast, rfc.EthARP, rq.Bytes())
					_, ok = g.wait(&cur, isRep)
				}
				if !ok {
					dbg(k, a, act, peer)
					missing++
					break
				}
				kinds["arp-reply"] = true
				if f.eth.Dst != nm || f.info.ARP.THA != nm {
					g.violation("eth-destination/ARP reply", fmt.Sprintf("reply to a request from MAC %x is sent to %x (target hardware address %x)", nm, f.eth.Dst, f.info.ARP.THA), f.raw)
				}
				if f.info.ARP.SHA != g.smac || f.info.ARP.SPA != a4 {
					g.violation("arp-reply-fields", fmt.Sprintf("ARP reply carries sender %x / %v", f.info.ARP.SHA, f.info.ARP.SPA), f.raw)
				}
				if len(f.raw) != 14+28 {
					g.violation("frame-length", fmt.Sprintf("ARP reply in a frame of %d bytes", len(f.raw)), f.raw)
				}
			}
			// the reply proves the announcement was processed: from here on the new MAC is the resolved one
			setMAC(v6, hop4, hop6, nm)
		}
	}
	atomic.StoreInt32(&g.stop, 1)
	if missing > 0 {
		run.Count("fd_expected_frames_not_seen_within_15s", int64(missing))
		run.Inconclusive("fd-frame-watchdog")
	}
	for kd := range kinds {
		run.Seen("fd_frame_classes", kd)
	}
	run.Case(fw.Hash(sig...), len(kinds) > 0)
	u4.Close()
	u6.Close()
	lep.Close()
	syscall.Shutdown(fds[1], syscall.SHUT_RDWR) // ends the stack's dispatch loop and the reader
	<-g.done
	syscall.Close(fds[1])
	_ = closed
}

func dbg(k, a, act int, peer []byte) {
	_, file, line, _ := runtime.Caller(1)
	fmt.Fprintf(os.Stderr, "fd scenario %d action %d kind %d peer %v: expected frame not seen (%s:%d)\n", k, a, act, peer, file, line)
}

func fdSweep(lo, hi int) {
	for k := lo; k < hi && run.Violations() < 4; k++ {
		fdScenario(k)
	}
}
