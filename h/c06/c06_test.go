package c06

import (
	"bytes"
	"fmt"
	"io"
	"log"
	"os"
	"sync"
	"testing"
	"time"

	"github.com/brewlin/net-protocol/pkg/waiter"
	tcpip "github.com/brewlin/net-protocol/protocol"
	"github.com/brewlin/net-protocol/protocol/network/ipv4"
	"github.com/brewlin/net-protocol/protocol/network/ipv6"
	"github.com/brewlin/net-protocol/protocol/transport/tcp"
	"github.com/brewlin/net-protocol/protocol/transport/udp"
	"github.com/brewlin/net-protocol/stack"
	"verifh/fw"
	"verifh/rawpeer"
	"verifh/rfc"
	"verifh/tcpx"
	"verifh/vt"
	"verifh/wire"
)

var run *fw.Run

func ethType(p tcpip.NetworkProtocolNumber) uint16 { return uint16(p) }

func kindCount(fc *rfc.FrameChecker) {
	for k, v := range fc.ByKind {
		run.Count("frames:"+k, v)
	}
}

// ---- sweep 1: two-stack TCP scenarios, every frame of both links checked -------

func tcpSweep(lo, hi int) {
	for k := lo; k < hi && run.Violations() < 4; k++ {
		sc := tcpx.Gen(run.Seed, "C06", k, false)
		for d := 0; d < 2; d++ {
			if sc.Bytes[d] > 60000 {
				sc.Bytes[d] = 60000
			}
		}
		fcs := [2]*rfc.FrameChecker{rfc.NewFrameChecker(), rfc.NewFrameChecker()}
		addr := [2][]byte{[]byte(wire.AddrA4), []byte(wire.AddrB4)}
		addr6 := [2][]byte{[]byte(wire.AddrA6), []byte(wire.AddrB6)}
		var firstErr string
		var mu sync.Mutex
		res := tcpx.Run(sc, func(dir int, f *wire.Frame) string {
			in, err := fcs[dir].Check(ethType(f.Proto), f.Data)
			m := ""
			if err != nil {
				m = fmt.Sprintf("link %d: %v", dir, err)
			} else {
				// addressing: source = the emitting stack's address, destination = the peer's
				var okAddr bool
				if in.V6 {
					okAddr = bytes.Equal(in.Src6[:], addr6[dir]) && bytes.Equal(in.Dst6[:], addr6[1-dir])
				} else {
					okAddr = bytes.Equal(in.Src4[:], addr[dir]) && bytes.Equal(in.Dst4[:], addr[1-dir])
				}
				if !okAddr {
					m = fmt.Sprintf("link %d: %s packet with source/destination %v>%v %v>%v; the connection is between %v and %v", dir, in.Kind, in.Src4, in.Dst4, in.Src6, in.Dst6, addr[dir], addr[1-dir])
				}
				if (in.Kind == "tcp4" || in.Kind == "tcp6") && m == "" {
					if dir == 0 && in.DstPort != 80 || dir == 1 && in.SrcPort != 80 {
						m = fmt.Sprintf("link %d: TCP segment with ports %d>%d on a connection to port 80", dir, in.SrcPort, in.DstPort)
					}
				}
			}
			if m != "" {
				mu.Lock()
				if firstErr == "" {
					firstErr = fmt.Sprintf("%s  frame=%x", m, f.Data[:minInt(len(f.Data), 80)])
				}
				mu.Unlock()
			}
			return m
		})
		run.Case(fw.Hash("tcp", sc.V6, sc.SACK, sc.MTU, sc.Bytes[0]%7, sc.Bytes[1]%7, res.Dir[0].Retrans > 0), res.Frames > 0)
		kindCount(fcs[0])
		kindCount(fcs[1])
		if firstErr != "" {
			run.Violation("C06/tcp-sweep", firstErr, map[string]interface{}{"scenario": sc})
		}
	}
}

func minInt(a, b int) int {
	if a < b {
		return a
	}
	return b
}

// ---- sweep 2: scripted-peer connections: option combinations incl. SACK blocks ----

func optionSweep(lo, hi int) {
	for k := lo; k < hi && run.Violations() < 4; k++ {
		r := fw.NewRand(run.Seed, "C06", "opt", k)
		v6 := r.Chance(1, 3)
		mtu := []uint32{1500, 1280, 9000, 65535, 65536}[r.Intn(5)] // 65536: the bundled loopback link's MTU
		h, err := rawpeer.NewHost(mtu, true, "reno")
		if err != nil {
			run.Broken("harness: " + err.Error())
			return
		}
		p := rawpeer.New(h, v6)
		fc := rfc.NewFrameChecker()
		var firstErr string
		p.OnFrame = func(f *wire.Frame) {
			if _, err := fc.Check(ethType(f.Proto), f.Data); err != nil && firstErr == "" {
				firstErr = fmt.Sprintf("%v  frame=%x", err, f.Data[:minInt(len(f.Data), 100)])
			}
		}
		ts, sack, ws := r.Bool(), r.Bool(), []int{-1, 0, 5, 14}[r.Intn(4)]
		own := r.U32()
		mss := []uint16{0, 536, 1460, 9000}[r.Intn(4)]
		// packets at the 16-bit limit of the IPv4 total-length field: a link without a smaller
		// MTU (loopback-like), a peer that accepts segments of any size, a write larger than one
		big := mtu >= 65535 && r.Bool()
		if big {
			mss = 65535
			run.Count("option_sweep_connections_with_maximum_sized_segments", 1)
		}
		conn, _ := p.Establish(rawpeer.EstOpts{Active: r.Bool(), LPort: 80, PPort: uint16(20000 + k%20000), PeerISS: r.U32(), OwnISS: &own, MSS: mss, WS: ws, TS: ts, SACK: sack, Window: 65535})
		if conn != nil {
			// out-of-order data creates 1..4 SACK blocks on the stack's ACKs
			off := int64(0)
			for b := 0; b < 1+r.Intn(5); b++ {
				off += int64(10 + r.Intn(500))
				n := 1 + r.Intn(300)
				conn.Send(off, 0, rfc.ACK, 65535, r.Bytes(n), nil)
				off += int64(n)
			}
			// payload lengths: every odd/even length near boundaries over the sweep
			n := (k * 7) % 3000
			if big {
				n += 66000
			}
			conn.EP.Write(tcpip.SlicePayload(r.Bytes(n+1)), tcpip.WriteOptions{})
			rawpeer.Settle()
			// acknowledgements that end inside a segment (possibly after covering whole ones),
			// then silence: the remainder is retransmitted and must still be a well-formed frame
			if r.Bool() {
				for i, a := 0, int64(0); i < 1+r.Intn(3) && a < int64(n); i++ {
					a += 1 + int64(r.Intn(n+1))/2
					if a > int64(n+1) {
						a = int64(n + 1)
					}
					conn.Send(0, a, rfc.ACK, 65535, nil, nil)
					time.Sleep(time.Duration(300+r.Intn(1500)) * time.Millisecond)
					rawpeer.Settle()
				}
				run.Count("option_sweep_partial_ack_rounds", 1)
			}
			conn.Send(0, 0, rfc.ACK, 65535, r.Bytes(1+r.Intn(100)), nil) // fill the first hole partially
			conn.EP.Write(tcpip.SlicePayload(r.Bytes(1+k%17)), tcpip.WriteOptions{})
			rawpeer.Settle()
			conn.EP.Shutdown(tcpip.ShutdownWrite)
			rawpeer.Settle()
			conn.Close()
			rawpeer.Settle()
		}
		run.Case(fw.Hash("opt", v6, ts, sack, ws, mtu), fc.Frames > 0)
		kindCount(fc)
		if firstErr != "" {
			run.Violation("C06/option-sweep", firstErr, map[string]interface{}{"k": k, "v6": v6, "ts": ts, "sack": sack, "ws": ws})
		}
	}
}

// ---- sweep 3: UDP / echo / several interfaces and routes ------------------------

type nicSpec struct {
	id   tcpip.NICID
	v4   tcpip.Address
	v6   tcpip.Address
	link *wire.Link
	fc   *rfc.FrameChecker
}

func multiNIC(lo, hi int) {
	for k := lo; k < hi && run.Violations() < 4; k++ {
		r := fw.NewRand(run.Seed, "C06", "nic", k)
		s := stack.New([]string{ipv4.ProtocolName, ipv6.ProtocolName}, []string{tcp.ProtocolName, udp.ProtocolName}, stack.Options{})
		nn := 1 + r.Intn(3)
		var nics []*nicSpec
		var mu sync.Mutex
		type emitted struct {
			nic int
			in  rfc.Info
		}
		var out []emitted
		var firstErr string
		for i := 0; i < nn; i++ {
			i := i
			n := &nicSpec{id: tcpip.NICID(i + 1), fc: rfc.NewFrameChecker()}
			n.v4 = tcpip.Address([]byte{10, byte(i + 1), 0, 1})
			v6 := make([]byte, 16)
			v6[0], v6[1], v6[15] = 0xfd, byte(i+1), 1
			n.v6 = tcpip.Address(v6)
			n.link = wire.NewLink(fmt.Sprintf("n%d", i), 1500, "", 0)
			n.link.AddTap(func(f *wire.Frame) {
				in, err := n.fc.Check(ethType(f.Proto), f.Data)
				mu.Lock()
				if err != nil && firstErr == "" {
					firstErr = fmt.Sprintf("NIC %d: %v frame=%x", i+1, err, f.Data[:minInt(len(f.Data), 80)])
				}
				out = append(out, emitted{i, in})
				mu.Unlock()
			})
			s.CreateNIC(n.id, n.link.ID)
			s.AddAddress(n.id, ipv4.ProtocolNumber, n.v4)
			s.AddAddress(n.id, ipv6.ProtocolNumber, n.v6)
			if r.Chance(1, 3) { // a second, non-primary address
				s.AddAddress(n.id, ipv4.ProtocolNumber, tcpip.Address([]byte{10, byte(i + 1), 0, 77}))
			}
			nics = append(nics, n)
		}
		// route table: PRNG order of specific and default routes, overlapping prefixes
		var table []tcpip.Route
		for i := 0; i < nn; i++ {
			table = append(table, tcpip.Route{Destination: tcpip.Address([]byte{10, byte(i + 1), 0, 0}), Mask: tcpip.AddressMask([]byte{255, 255, 0, 0}), NIC: tcpip.NICID(i + 1)})
			d6, m6 := make([]byte, 16), make([]byte, 16)
			d6[0], d6[1] = 0xfd, byte(i+1)
			m6[0], m6[1] = 0xff, 0xff
			table = append(table, tcpip.Route{Destination: tcpip.Address(d6), Mask: tcpip.AddressMask(m6), NIC: tcpip.NICID(i + 1)})
		}
		table = append(table, tcpip.Route{Destination: tcpip.Address([]byte{10, 0, 0, 0}), Mask: tcpip.AddressMask([]byte{255, 0, 0, 0}), NIC: tcpip.NICID(1 + r.Intn(nn))})
		table = append(table, tcpip.Route{Destination: "\x00\x00\x00\x00", Mask: "\x00\x00\x00\x00", NIC: tcpip.NICID(1 + r.Intn(nn))})
		table = append(table, tcpip.Route{Destination: tcpip.Address(make([]byte, 16)), Mask: tcpip.AddressMask(make([]byte, 16)), NIC: tcpip.NICID(1 + r.Intn(nn))})
		perm := r.Perm(len(table))
		rt := make([]tcpip.Route, len(table))
		for i, j := range perm {
			rt[i] = table[j]
		}
		s.SetRouteTable(rt)
		// reference route choice
		choose := func(dst []byte) int {
			for _, e := range rt {
				if len(e.Destination) != len(dst) {
					continue
				}
				ok := true
				for i := range dst {
					if dst[i]&e.Mask[i] != e.Destination[i] {
						ok = false
					}
				}
				if ok {
					return int(e.NIC) - 1
				}
			}
			return -1
		}
		wq := &waiter.Queue{}
		ep4, _ := s.NewEndpoint(udp.ProtocolNumber, ipv4.ProtocolNumber, wq)
		ep6, _ := s.NewEndpoint(udp.ProtocolNumber, ipv6.ProtocolNumber, wq)
		ep4.Bind(tcpip.FullAddress{Port: 5000}, nil)
		ep6.Bind(tcpip.FullAddress{Port: 5001}, nil)
		for i := 0; i < 24; i++ {
			v6 := r.Chance(1, 3)
			var dst []byte
			if v6 {
				dst = make([]byte, 16)
				dst[0], dst[1], dst[15] = 0xfd, byte(1+r.Intn(nn+1)), byte(2+r.Intn(200))
			} else {
				dst = []byte{10, byte(r.Intn(nn + 2)), byte(r.Intn(3)), byte(2 + r.Intn(200))}
				if r.Chance(1, 5) {
					dst = []byte{byte(11 + r.Intn(200)), 1, 2, 3}
				}
			}
			plen := []int{0, 1, 2, 3, 7, 8, 9, 511, 512, 1471, 1472, (k*24 + i) % 1473}[r.Intn(12)]
			payload := r.Bytes(plen)
			dport := uint16(1 + r.Intn(65535))
			// every sixth datagram is crafted so that its computed checksum is 0x0000, which
			// must go out as 0xffff (RFC 768; zero means "no checksum", illegal over IPv6)
			if w := choose(dst); plen >= 2 && w >= 0 && r.Chance(1, 6) {
				payload[0], payload[1] = 0, 0
				var sum uint16
				if v6 {
					var s6, d6 [16]byte
					copy(s6[:], nics[w].v6)
					copy(d6[:], dst)
					b := rfc.UDP{SrcPort: 5001, DstPort: dport, Len: uint16(8 + plen), Payload: payload}.Bytes6(s6, d6, false)
					sum = ^rfc.UDP{SrcPort: 5001, DstPort: dport, Payload: payload}.CsumOf6(b, s6, d6)
				} else {
					var s4, d4 [4]byte
					copy(s4[:], nics[w].v4)
					copy(d4[:], dst)
					b := rfc.UDP{SrcPort: 5000, DstPort: dport, Len: uint16(8 + plen), Payload: payload}.Bytes4(s4, d4, false)
					sum = ^rfc.UDP{}.CsumOf4(b, s4, d4)
				}
				// sum = one's-complement sum with a zero checksum field and two zero payload bytes
				payload[0], payload[1] = byte(^sum>>8), byte(^sum)
				run.Count("udp_datagrams_crafted_for_checksum_zero", 1)
			}
			mu.Lock()
			out = out[:0]
			mu.Unlock()
			ep := ep4
			if v6 {
				ep = ep6
			}
			_, _, werr := ep.Write(tcpip.SlicePayload(payload), tcpip.WriteOptions{To: &tcpip.FullAddress{Addr: tcpip.Address(dst), Port: dport}})
			want := choose(dst)
			mu.Lock()
			got := append([]emitted(nil), out...)
			mu.Unlock()
			rep := map[string]interface{}{"k": k, "routes": fmt.Sprint(rt), "dst": dst, "payload_len": plen}
			if werr != nil {
				if len(got) != 0 {
					run.Violation("C06/route/failed-write-emitted", fmt.Sprintf("Write failed with %v but %d packets were emitted", werr, len(got)), rep)
				}
				run.Count("udp_writes_failed:"+werr.String(), 1)
				continue
			}
			if len(got) != 1 {
				run.Violation("C06/route/packet-count", fmt.Sprintf("one UDP write to %v emitted %d packets", dst, len(got)), rep)
				continue
			}
			g := got[0]
			if g.nic != want {
				run.Violation("C06/route/wrong-interface", fmt.Sprintf("datagram to %v left through NIC %d; the first matching route entry points to NIC %d", dst, g.nic+1, want+1), rep)
				continue
			}
			var srcOK bool
			if v6 {
				srcOK = bytes.Equal(g.in.Src6[:], []byte(nics[want].v6)) && bytes.Equal(g.in.Dst6[:], dst)
			} else {
				srcOK = bytes.Equal(g.in.Src4[:], []byte(nics[want].v4)) && bytes.Equal(g.in.Dst4[:], dst)
			}
			wantSport := uint16(5000)
			if v6 {
				wantSport = 5001
			}
			if !srcOK || g.in.SrcPort != wantSport || g.in.DstPort != dport || !bytes.Equal(g.in.UDP.Payload, payload) {
				run.Violation("C06/route/addressing", fmt.Sprintf("datagram to %v:%d from socket port %d: emitted %v>%v / %v>%v ports %d>%d payload %d bytes; expected source %v (NIC %d)", dst, dport, wantSport, g.in.Src4, g.in.Dst4, g.in.Src6, g.in.Dst6, g.in.SrcPort, g.in.DstPort, len(g.in.UDP.Payload), []byte(nics[want].v4), want+1), rep)
			}
			run.Count("udp_datagrams_checked", 1)
		}
		// sockets bound to one interface's address: the datagram leaves through the first
		// matching route entry whose interface owns that address, with that address as source
		for j := 0; j < 6; j++ {
			bi := r.Intn(nn)
			epb, e := s.NewEndpoint(udp.ProtocolNumber, ipv4.ProtocolNumber, &waiter.Queue{})
			if e != nil {
				break
			}
			if e := epb.Bind(tcpip.FullAddress{Addr: nics[bi].v4, Port: uint16(5100 + j)}, nil); e != nil {
				epb.Close()
				continue
			}
			dst := []byte{10, byte(r.Intn(nn + 2)), byte(r.Intn(3)), byte(2 + r.Intn(200))}
			if r.Chance(1, 4) {
				dst = []byte{byte(11 + r.Intn(200)), 1, 2, 3}
			}
			want := -1
			for _, en := range rt {
				if len(en.Destination) != 4 || int(en.NIC)-1 != bi {
					continue
				}
				ok := true
				for i := range dst {
					if dst[i]&en.Mask[i] != en.Destination[i] {
						ok = false
					}
				}
				if ok {
					want = bi
					break
				}
			}
			payload := r.Bytes(1 + r.Intn(100))
			dport := uint16(1 + r.Intn(65535))
			mu.Lock()
			out = out[:0]
			mu.Unlock()
			_, _, werr := epb.Write(tcpip.SlicePayload(payload), tcpip.WriteOptions{To: &tcpip.FullAddress{Addr: tcpip.Address(dst), Port: dport}})
			mu.Lock()
			got := append([]emitted(nil), out...)
			mu.Unlock()
			epb.Close()
			rep := map[string]interface{}{"k": k, "routes": fmt.Sprint(rt), "dst": dst, "bound_to": []byte(nics[bi].v4)}
			switch {
			case werr != nil && len(got) != 0:
				run.Violation("C06/route/failed-write-emitted", fmt.Sprintf("Write from a socket bound to %v failed with %v but %d packets were emitted", []byte(nics[bi].v4), werr, len(got)), rep)
			case werr != nil:
				run.Count("bound_socket_writes_failed:"+werr.String(), 1)
			case len(got) != 1:
				run.Violation("C06/route/packet-count", fmt.Sprintf("one UDP write from a socket bound to %v emitted %d packets", []byte(nics[bi].v4), len(got)), rep)
			case want < 0:
				run.Violation("C06/route/bound-socket-no-route", fmt.Sprintf("socket bound to %v (NIC %d) wrote to %v: no route entry of that interface matches, yet a packet left through NIC %d with source %v", []byte(nics[bi].v4), bi+1, dst, got[0].nic+1, got[0].in.Src4), rep)
			case got[0].nic != want || !bytes.Equal(got[0].in.Src4[:], []byte(nics[bi].v4)) || !bytes.Equal(got[0].in.Dst4[:], dst) || got[0].in.SrcPort != uint16(5100+j):
				run.Violation("C06/route/bound-socket-addressing", fmt.Sprintf("socket bound to %v:%d (NIC %d) wrote to %v: the packet left through NIC %d as %v:%d > %v", []byte(nics[bi].v4), 5100+j, bi+1, dst, got[0].nic+1, got[0].in.Src4, got[0].in.SrcPort, got[0].in.Dst4), rep)
			default:
				run.Count("bound_socket_datagrams_checked", 1)
			}
		}
		// a connected UDP socket: plain writes go to the connected peer, sendto overrides
		// address and port (same host / other port, other host, exactly the peer)
		{
			epc, _ := s.NewEndpoint(udp.ProtocolNumber, ipv4.ProtocolNumber, &waiter.Queue{})
			epc.Bind(tcpip.FullAddress{Port: 5002}, nil)
			peer := tcpip.FullAddress{Addr: tcpip.Address([]byte{10, 1, 0, 9}), Port: uint16(2000 + r.Intn(1000))}
			if e := epc.Connect(peer); e == nil {
				for i := 0; i < 8; i++ {
					to := peer
					var opts tcpip.WriteOptions
					switch r.Intn(4) {
					case 0: // plain write
					case 1:
						to.Port = uint16(3000 + r.Intn(1000))
						opts.To = &to
					case 2:
						to.Addr = tcpip.Address([]byte{10, 1, 0, byte(10 + r.Intn(50))})
						to.Port = uint16(3000 + r.Intn(1000))
						opts.To = &to
					case 3:
						opts.To = &to
					}
					mu.Lock()
					out = out[:0]
					mu.Unlock()
					payload := r.Bytes(1 + r.Intn(40))
					if _, _, werr := epc.Write(tcpip.SlicePayload(payload), opts); werr != nil {
						continue
					}
					mu.Lock()
					got := append([]emitted(nil), out...)
					mu.Unlock()
					if len(got) != 1 || !bytes.Equal(got[0].in.Dst4[:], []byte(to.Addr)) || got[0].in.DstPort != to.Port || got[0].in.SrcPort != 5002 {
						d := "nothing"
						if len(got) > 0 {
							d = fmt.Sprintf("%v:%d from port %d", got[0].in.Dst4, got[0].in.DstPort, got[0].in.SrcPort)
						}
						run.Violation("C06/connected-udp/addressing", fmt.Sprintf("socket connected to %v:%d, write addressed to %v:%d (sendto=%v): emitted %s", []byte(peer.Addr), peer.Port, []byte(to.Addr), to.Port, opts.To != nil, d), map[string]interface{}{"k": k})
						break
					}
					run.Count("connected_udp_writes_checked", 1)
				}
			}
			epc.Close()
		}
		// echo requests to each NIC address: replies must leave from the pinged address
		for i, n := range nics {
			for _, plen := range []int{0, 1, 7, 64, 1001} {
				mu.Lock()
				out = out[:0]
				mu.Unlock()
				var src [4]byte
				copy(src[:], []byte{10, byte(i + 1), 0, 9})
				var dst [4]byte
				copy(dst[:], n.v4)
				// (some requests carry a non-zero code or a wrong checksum of their own: whatever
				// the stack answers must still be a well-formed, correctly summed reply)
				m := rfc.ICMP{Type: 8, Code: []uint8{0, 0, 0, 9}[r.Intn(4)], Rest: [4]byte{byte(k), byte(k >> 8), 0, byte(plen)}, Payload: r.Bytes(plen)}
				mb := m.BytesV4(true)
				if r.Chance(1, 5) {
					mb[3] ^= 0x21
				}
				ip := rfc.IPv4{TTL: 64, Proto: rfc.ProtoICMP, ID: uint16(k), Src: src, Dst: dst, Payload: mb}
				n.link.Inject(ipv4.ProtocolNumber, ip.Bytes(true), "")
				time.Sleep(time.Millisecond)
				vt.Quiesce()
				mu.Lock()
				got := append([]emitted(nil), out...)
				mu.Unlock()
				for _, g := range got {
					if g.in.Kind == "icmp4" && g.in.ICMP.Type == 0 {
						if g.in.Src4 != dst || g.in.Dst4 != src {
							run.Violation("C06/echo/addressing", fmt.Sprintf("echo reply %v>%v for a request %v>%v", g.in.Src4, g.in.Dst4, src, dst), nil)
						}
						run.Count("echo_replies_checked", 1)
					}
				}
			}
		}
		for _, n := range nics {
			kindCount(n.fc)
		}
		run.Case(fw.Hash("nic", nn, perm), true)
		if firstErr != "" {
			run.Violation("C06/nic-sweep", firstErr, map[string]interface{}{"k": k})
		}
	}
}

func child(t *testing.T) {
	var lo, hi int
	fmt.Sscan(os.Getenv("VERIF_RANGE"), &lo, &hi)
	if os.Getenv("VERIF_PHASE") == "fd" { // real time, pinned toolchain
		fdSweep(lo, hi)
		os.Exit(run.Finish("", nil))
	}
	vt.Bubble(t, func() {
		switch os.Getenv("VERIF_PHASE") {
		case "tcp":
			tcpSweep(lo, hi)
		case "opt":
			optionSweep(lo, hi)
		case "nic":
			multiNIC(lo, hi)
		}
		os.Exit(run.Finish("", nil))
	})
}

func TestC06(t *testing.T) {
	log.SetOutput(io.Discard)
	tcpx.InstallSteering()
	run = fw.Start("C06", "exploration")
	if fw.IsChild() {
		child(t)
		return
	}
	var wg sync.WaitGroup
	launch := func(phase string, n, parts int) {
		for c := 0; c < parts; c++ {
			c := c
			wg.Add(1)
			go func() {
				defer wg.Done()
				tag := fmt.Sprintf("%s%d", phase, c)
				bin := os.Getenv("VERIF_BIN_VT")
				if phase == "fd" {
					bin = os.Getenv("VERIF_BIN_PLAIN")
				}
				res := run.RunChild(fw.ChildSpec{Bin: bin, Test: "^TestC06$", Tag: tag, Env: []string{"VERIF_PHASE=" + phase, fmt.Sprintf("VERIF_RANGE=%d %d", n*c/parts, n*(c+1)/parts)}, Timeout: time.Duration(fw.N(10, 90)) * time.Minute})
				if !res.Done {
					run.ChildCrashed(res, "C06", tag)
				}
			}()
		}
	}
	launch("tcp", fw.N(160, 8000), 8)
	launch("opt", fw.N(1200, 60000), 4)
	launch("nic", fw.N(400, 20000), 4)
	launch("fd", fw.N(480, 24000), 4)
	wg.Wait()
	code := run.Finish("every frame emitted in three sweeps is decoded by the independent codec h/rfc (IPv4 version/IHL/total length/header checksum/TTL, IPv6 payload length, TCP data offset/checksum with pseudo-header/option grammar/padding/SYN-only options, UDP length/checksum, ICMPv4/ICMPv6 checksums, ARP sizes, differing IP identification on consecutive packets > 68 bytes of one flow) and its addressing compared with the socket / answered packet / first matching route. Sweeps: (1) two-stack TCP scenarios as in C01 (IPv4/IPv6, SACK, MTUs, faults, retransmissions), both links; (2) scripted-peer connections over all option combinations (timestamps x SACK x window scale x MSS, 1-5 out-of-order pieces => SACK blocks, every payload length class, FIN/RST); (3) stacks with 1-3 interfaces, PRNG-ordered overlapping route tables, UDP datagrams of boundary lengths to in- and off-subnet destinations over IPv4 and IPv6 (interface and source address compared with an independent first-match route lookup), echo requests to every interface address; (4) the fd-based Ethernet link over a socketpair (real time, pinned toolchain): the harness plays an on-link host and a gateway (IPv4 and IPv6), answers ARP requests / neighbour solicitations, injects echo requests, SYNs + data, refusals of active opens and announcements of changed MACs; every Ethernet frame read from the descriptor must carry the interface's MAC as source, a known EtherType matching its payload, the frame length implied by the IP length, and as destination the MAC most recently resolved for the next hop of an independent first-match route lookup (gateway if the entry has one; broadcast for ARP requests; the requester for ARP replies and neighbour advertisements). distinct = configuration classes; frames per kind are counted Later additions: The option sweep also runs on links with the bundled loopback link's MTU, 65536. On MTU 65535 / 65536 (loopback) links: MSS 65535 and writes larger than one segment while SACK blocks are attached (packets at the 16-bit total-length limit).",
		[]string{"transport checksums are demanded because the harness link does not declare checksum offload", "fd-based sweep: an expected frame not seen within 15 s of wall clock makes the run inconclusive, it is not judged here (C02/C11/C13 own delivery)"})
	os.Exit(code)
}
