// Package script plays relative TCP scripts (peer data in and out of order,
// overlapping pieces, cumulative and selective acknowledgements inside and
// across segments, application writes and reads, waits) against one real stack
// through the scripted raw peer, with both initial sequence numbers chosen by
// the caller. Used by C14 (transcripts must not depend on the ISS) and C01
// (content of what is read and of what is emitted).
package script

import (
	"fmt"
	"sort"
	"time"

	tcpip "github.com/brewlin/net-protocol/protocol"
	"github.com/brewlin/net-protocol/protocol/transport/tcp"
	"verifh/fw"
	"verifh/rawpeer"
	"verifh/rfc"
	"verifh/tcpx"
)

// Step is one action of a scripted exchange, in numbers relative to the two ISS.
type Step struct {
	Kind string     `json:"k"` // data, ack, write, read, wait, pmtu (Len = next-hop MTU), span (Off = generator's next in-order byte, Len = bytes behind the left edge, Ms = bytes beyond the right edge)
	Off  int64      `json:"off,omitempty"`
	Len  int        `json:"len,omitempty"`
	Ack  int64      `json:"ack,omitempty"`
	Sack [][2]int64 `json:"sack,omitempty"`
	Ms   int        `json:"ms,omitempty"`
}

// Script is one relative script.
type Script struct {
	K      int    `json:"k"`
	Active bool   `json:"active"`
	TS     bool   `json:"ts"`
	SACK   bool   `json:"sack"`
	Steps  []Step `json:"steps"`
	// passive scripts only: the listener answers with a SYN cookie, and/or the ACK that
	// completes the handshake already carries the first AckData bytes of the peer's stream
	// (which the script's first data step sends again)
	Cookie  bool `json:"cookie,omitempty"`
	AckData int  `json:"ack_data,omitempty"`
	RcvBuf  int  `json:"rcvbuf,omitempty"` // small receive buffer: a window that one segment can span
}

// Gen builds script k of the family named by label.
func Gen(seed int64, label string, k int) Script {
	r := fw.NewRand(seed, label, "script", k)
	sc := Script{K: k, Active: r.Chance(1, 3), TS: r.Bool(), SACK: r.Bool()}
	var peerNext int64 // next in-order byte of the peer
	var written int64
	pmtu := false
	for i := 0; i < 12+r.Intn(30); i++ {
		switch r.Intn(10) {
		case 9: // a router on the path reports a smaller MTU: what is outstanding no longer fits
			if written == 0 || pmtu {
				continue
			}
			pmtu = true
			if r.Bool() {
				// a backlog the congestion window holds back: many small writes, then a large one
				for j := 0; j < 10+r.Intn(6); j++ {
					n := 50 + r.Intn(150)
					sc.Steps = append(sc.Steps, Step{Kind: "write", Len: n})
					written += int64(n)
				}
				sc.Steps = append(sc.Steps, Step{Kind: "write", Len: 3000})
				written += 3000
			}
			sc.Steps = append(sc.Steps, Step{Kind: "pmtu", Len: []int{576, 800, 300, 1006}[r.Intn(4)]})
		case 0, 1: // in-order peer data
			n := 1 + r.Intn(700)
			sc.Steps = append(sc.Steps, Step{Kind: "data", Off: peerNext, Len: n})
			peerNext += int64(n)
		case 2: // out-of-order piece ahead
			gap := int64(1 + r.Intn(900))
			sc.Steps = append(sc.Steps, Step{Kind: "data", Off: peerNext + gap, Len: 1 + r.Intn(500)})
		case 3: // overlapping / duplicate piece behind or across the edge
			back := int64(r.Intn(400))
			if back > peerNext {
				back = peerNext
			}
			sc.Steps = append(sc.Steps, Step{Kind: "data", Off: peerNext - back, Len: 1 + r.Intn(800)})
			if e := peerNext - back + int64(sc.Steps[len(sc.Steps)-1].Len); e > peerNext {
				// the new part extends the in-order stream only if it closes no hole wrongly; keep the
				// model simple: treat it as in-order data up to its end
				peerNext = e
			}
		case 4: // application writes
			n := 1 + r.Intn(3000)
			sc.Steps = append(sc.Steps, Step{Kind: "write", Len: n})
			written += int64(n)
		case 5: // peer acknowledges part of what was written, maybe with SACK blocks
			if written == 0 {
				continue
			}
			a := int64(r.Intn(int(written) + 1))
			st := Step{Kind: "ack", Ack: a}
			if r.Chance(1, 3) && written-a > 10 {
				s0 := a + 1 + int64(r.Intn(int(written-a-1)))
				st.Sack = [][2]int64{{s0, s0 + 1 + int64(r.Intn(int(written-s0)+1))}}
			}
			sc.Steps = append(sc.Steps, st)
		case 6:
			sc.Steps = append(sc.Steps, Step{Kind: "read"})
		case 7:
			sc.Steps = append(sc.Steps, Step{Kind: "wait", Ms: []int{50, 250, 1100, 3000}[r.Intn(4)]})
		case 8: // duplicate ACKs
			if written == 0 {
				continue
			}
			for j := 0; j < 3; j++ {
				sc.Steps = append(sc.Steps, Step{Kind: "ack", Ack: -1})
			}
		}
	}
	if r.Chance(1, 3) {
		// a small receive buffer, and at PRNG-chosen places one segment that starts behind the
		// window's left edge and ends beyond its right edge (a coalesced retransmission by a
		// peer that overruns the window): it shares every sequence number of the window
		sc.RcvBuf = []int{2048, 4096, 8192}[r.Intn(3)]
		for j := 0; j < 1+r.Intn(3); j++ {
			at := r.Intn(len(sc.Steps) + 1)
			st := Step{Kind: "span", Len: 1 + r.Intn(600), Ms: 1 + r.Intn(600)}
			sc.Steps = append(sc.Steps[:at], append([]Step{st}, sc.Steps[at:]...)...)
		}
	}
	sc.Steps = append(sc.Steps, Step{Kind: "read"}, Step{Kind: "wait", Ms: 1500})
	if !sc.Active && r.Chance(1, 4) { // drawn last: the steps above are the same with and without
		sc.Cookie = r.Bool()
		sc.AckData = 1 + r.Intn(200)
	}
	return sc
}

// play runs the script with the given initial sequence numbers and returns the
// stack's transcript in relative terms, one entry per step.
func Play(sc Script, ownISS, peerISS uint32) ([]string, string) {
	h, err := rawpeer.NewHost(1500, sc.SACK, "reno")
	if err != nil {
		return nil, "harness: " + err.Error()
	}
	p := rawpeer.New(h, false)
	own := ownISS
	tcp.SynRcvdCountThreshold = 1000
	if sc.Cookie {
		tcp.SynRcvdCountThreshold = 0
	}
	var ackData []byte
	for i := 0; i < sc.AckData; i++ {
		ackData = append(ackData, tcpx.PByte(uint64(sc.K), 1, int64(i)))
	}
	conn, emsg := p.Establish(rawpeer.EstOpts{Active: sc.Active, LPort: 80, PPort: 33333, PeerISS: peerISS, OwnISS: &own, MSS: 1000, WS: 3, TS: sc.TS, SACK: sc.SACK, Window: 60000, AckData: ackData, RcvBuf: sc.RcvBuf})
	tcp.SynRcvdCountThreshold = 1000
	if conn == nil {
		return nil, emsg
	}
	defer conn.Close()
	if sc.Active && conn.ISS != ownISS {
		return nil, "iss-steering-missed"
	}
	var out []string
	var lastAck int64
	var readTotal, nearSeq, nearAck, written int64
	var lastEdge int64 // right edge of the stack's latest window advertisement
	var genNext int64  // the generator's count of the peer's in-order stream
	var adj int64      // runtime offset of the peer's stream against that count (span segments move it)
	sendErr := ""
	render := func(segs []rawpeer.Seg) string {
		var l []string
		for _, s := range segs {
			if s.Err != nil {
				l = append(l, "undecodable")
				continue
			}
			rs, ra := conn.RelSeq(s, nearSeq), conn.RelAck(s, nearAck)
			// what the stack sends at stream offset rs must be what the application wrote there
			for i, b := range s.Payload {
				if o := rs + int64(i); sendErr == "" && (o < 0 || o >= written || b != tcpx.PByte(uint64(sc.K), 0, o)) {
					sendErr = fmt.Sprintf("emitted segment carries byte %#x at stream offset %d; the application wrote %d bytes and byte %#x there", b, o, written, tcpx.PByte(uint64(sc.K), 0, o))
				}
			}
			if rs > nearSeq {
				nearSeq = rs
			}
			if ra > nearAck {
				nearAck = ra
			}
			if !s.Has(rfc.SYN) && s.Has(rfc.ACK) {
				ws := uint(0)
				if conn.WSok {
					ws = uint(conn.OwnWS)
				}
				lastEdge = ra + int64(s.Window)<<ws
			}
			e := fmt.Sprintf("f%02x s%d a%d l%d w%d", s.Flags, rs, ra, len(s.Payload), s.Window)
			if d, ok := s.Opt(5); ok {
				for i := 0; i+8 <= len(d); i += 8 {
					e += fmt.Sprintf(" [%d,%d)", int64(rfc.Be32(d[i:])-(conn.IRS+1)), int64(rfc.Be32(d[i+4:])-(conn.IRS+1)))
				}
			}
			l = append(l, e)
		}
		sort.Strings(l) // emission order inside one quiescent step is scheduling, not arithmetic
		return fmt.Sprint(l)
	}
	for _, st := range sc.Steps {
		switch st.Kind {
		case "data":
			pl := make([]byte, st.Len)
			for i := range pl {
				pl[i] = tcpx.PByte(uint64(sc.K), 1, st.Off+adj+int64(i))
			}
			conn.Send(st.Off+adj, lastAck, rfc.ACK|rfc.PSH, 60000, pl, nil)
			if e := st.Off + int64(st.Len); st.Off <= genNext && e > genNext {
				genNext = e
			}
		case "pmtu":
			conn.FragNeeded(lastAck, st.Len, uint16(len(out)))
		case "span":
			start, end := nearAck-int64(st.Len), lastEdge+int64(st.Ms)
			if start < 0 {
				start = 0
			}
			if lastEdge <= nearAck || nearAck != genNext+adj || end-start > 60000 {
				// closed window, in-order data not (yet) acknowledged, or too much for one packet
				out = append(out, "span skipped")
				continue
			}
			pl := make([]byte, end-start)
			for i := range pl {
				pl[i] = tcpx.PByte(uint64(sc.K), 1, start+int64(i))
			}
			before, edge := nearAck, lastEdge
			conn.Send(start, lastAck, rfc.ACK|rfc.PSH, 60000, pl, nil)
			segs := conn.Take()
			line := render(segs)
			if nearAck <= before {
				time.Sleep(300 * time.Millisecond)
				rawpeer.Settle()
				line += render(conn.Take())
			}
			out = append(out, fmt.Sprintf("span [%d,%d) over window [%d,%d) -> %s", start, end, before, edge, line))
			if nearAck <= before {
				return out, fmt.Sprintf("overlap: a segment covering stream bytes [%d,%d) shares every sequence number of the receive window [%d,%d), yet none of it was accepted: the cumulative acknowledgement stays at %d", start, end, before, edge, before)
			}
			// the peer continues from what the stack acknowledged
			adj = nearAck - genNext
			continue
		case "ack":
			a := st.Ack
			if a < 0 {
				a = lastAck
			}
			if a > lastAck {
				lastAck = a
			}
			var extra []byte
			if len(st.Sack) > 0 && conn.SACKok {
				var bl [][2]uint32
				for _, b := range st.Sack {
					bl = append(bl, [2]uint32{conn.ISS + 1 + uint32(b[0]), conn.ISS + 1 + uint32(b[1])})
				}
				extra = append([]byte{1, 1}, rfc.OptSACK(bl)...)
			}
			conn.Send(0, a, rfc.ACK, 60000, nil, extra)
		case "write":
			buf := make([]byte, st.Len)
			for i := range buf {
				buf[i] = tcpx.PByte(uint64(sc.K), 0, written+int64(i))
			}
			n, _, _ := conn.EP.Write(tcpip.SlicePayload(buf), tcpip.WriteOptions{})
			written += int64(n)
			rawpeer.Settle()
		case "read":
			for {
				v, _, e := conn.EP.Read(nil)
				if e != nil {
					break
				}
				for i, b := range v {
					if b != tcpx.PByte(uint64(sc.K), 1, readTotal+int64(i)) {
						return out, fmt.Sprintf("content mismatch at stream offset %d", readTotal+int64(i))
					}
				}
				readTotal += int64(len(v))
			}
			rawpeer.Settle()
		case "wait":
			time.Sleep(time.Duration(st.Ms) * time.Millisecond)
			rawpeer.Settle()
		}
		out = append(out, fmt.Sprintf("%s -> %s read=%d", st.Kind, render(conn.Take()), readTotal))
		if sendErr != "" {
			return out, "content mismatch (send side): " + sendErr
		}
	}
	return out, ""
}
