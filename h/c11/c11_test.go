package c11

import (
	"bytes"
	"encoding/binary"
	"fmt"
	"io"
	"log"
	"os"
	"runtime"
	"sync"
	"testing"

	"github.com/brewlin/net-protocol/pkg/waiter"
	tcpip "github.com/brewlin/net-protocol/protocol"
	"github.com/brewlin/net-protocol/protocol/network/ipv4"
	"github.com/brewlin/net-protocol/protocol/network/ipv6"
	"github.com/brewlin/net-protocol/protocol/transport/udp"
	"verifh/fw"
	"verifh/rfc"
	"verifh/wire"
)

var run *fw.Run

// datagram payload: 8-byte id (sender, counter) + length + pattern, so every
// datagram is self-identifying and self-checking.
func mkPayload(sender, counter uint32, n int) []byte {
	b := make([]byte, n)
	for i := range b {
		b[i] = byte(uint32(i)*2654435761>>24) ^ byte(sender*31+counter*7)
	}
	if n >= 12 {
		binary.BigEndian.PutUint32(b[0:], sender)
		binary.BigEndian.PutUint32(b[4:], counter)
		binary.BigEndian.PutUint32(b[8:], uint32(n))
	}
	return b
}

func checkPayload(b []byte) (sender, counter uint32, ok bool) {
	if len(b) < 12 {
		return 0, 0, false
	}
	sender, counter = binary.BigEndian.Uint32(b[0:]), binary.BigEndian.Uint32(b[4:])
	if int(binary.BigEndian.Uint32(b[8:])) != len(b) {
		return sender, counter, false
	}
	return sender, counter, bytes.Equal(b, mkPayload(sender, counter, len(b)))
}

type host struct {
	h   *wire.Host
	mu  sync.Mutex
	out []*wire.Frame
}

func newHost(mtu uint32) *host {
	h, err := wire.NewHost(wire.HostCfg{Name: "U", MTU: mtu, V4: []tcpip.Address{wire.AddrA4, "\x0a\x00\x00\x05"}, V6: []tcpip.Address{wire.AddrA6}})
	if err != nil {
		run.Broken("harness: " + err.Error())
		return nil
	}
	x := &host{h: h}
	h.L.AddTap(func(f *wire.Frame) {
		x.mu.Lock()
		x.out = append(x.out, f)
		x.mu.Unlock()
	})
	return x
}

func (x *host) take() []*wire.Frame {
	x.mu.Lock()
	defer x.mu.Unlock()
	r := x.out
	x.out = nil
	return r
}

type sender struct {
	id    uint32
	v6    bool
	addr4 [4]byte
	addr6 [16]byte
	port  uint16
}

// injectFragmented delivers an IPv4 datagram as nfrag fragments in the given order.
func (s sender) injectFragmented(x *host, dst4 [4]byte, dport uint16, payload []byte, ipid uint16, nfrag int, r *fw.Rand) [][]byte {
	return s.fragments(x, dst4, dport, payload, ipid, nfrag, r, r)
}

// fragments cuts the datagram at cut points drawn from cr; with r == nil the fragments are
// returned instead of injected.
func (s sender) fragments(x *host, dst4 [4]byte, dport uint16, payload []byte, ipid uint16, nfrag int, cr, r *fw.Rand) [][]byte {
	u := rfc.UDP{SrcPort: s.port, DstPort: dport, Payload: payload}
	whole := u.Bytes4(s.addr4, dst4, true)
	blocks := (len(whole) + 7) / 8
	if nfrag > blocks {
		nfrag = blocks
	}
	// cut points in 8-byte blocks
	cuts := map[int]bool{}
	for len(cuts) < nfrag-1 {
		cuts[1+cr.Intn(blocks-1)] = true
	}
	var pts []int
	for b := 1; b < blocks; b++ {
		if cuts[b] {
			pts = append(pts, b*8)
		}
	}
	pts = append(pts, len(whole))
	var frags [][]byte
	start := 0
	for _, e := range pts {
		f := rfc.IPv4{TTL: 64, Proto: rfc.ProtoUDP, ID: ipid, Src: s.addr4, Dst: dst4, FragOff: uint16(start / 8), Payload: whole[start:e]}
		if e < len(whole) {
			f.Flags = 1
		}
		frags = append(frags, f.Bytes(true))
		start = e
	}
	if r == nil {
		return frags
	}
	for _, i := range r.Perm(len(frags)) {
		x.h.L.Inject(ipv4.ProtocolNumber, frags[i], "")
	}
	return nil
}

func (s sender) inject(x *host, dst4 [4]byte, dst6 [16]byte, dport uint16, payload []byte, ipid uint16) {
	u := rfc.UDP{SrcPort: s.port, DstPort: dport, Payload: payload}
	if s.v6 {
		ip := rfc.IPv6{Next: rfc.ProtoUDP, Hop: 64, Src: s.addr6, Dst: dst6, Payload: u.Bytes6(s.addr6, dst6, true)}
		x.h.L.Inject(ipv6.ProtocolNumber, ip.Bytes(true), "")
		return
	}
	ip := rfc.IPv4{TTL: 64, Proto: rfc.ProtoUDP, ID: ipid, Src: s.addr4, Dst: dst4, Payload: u.Bytes4(s.addr4, dst4, true)}
	x.h.L.Inject(ipv4.ProtocolNumber, ip.Bytes(true), "")
}

func a4(a tcpip.Address) (r [4]byte)   { copy(r[:], a); return }
func a16(a tcpip.Address) (r [16]byte) { copy(r[:], a); return }

func mapped(a [4]byte) tcpip.Address {
	return tcpip.Address(append([]byte{0, 0, 0, 0, 0, 0, 0, 0, 0, 0, 0xff, 0xff}, a[:]...))
}

// ---- receive side ------------------------------------------------------------

func receiveScenario(k int) {
	r := fw.NewRand(run.Seed, "C11", "rx", k)
	x := newHost(65535)
	if x == nil {
		return
	}
	kind := []string{"v4-wild", "v4-specific", "v6-wild", "dual-stack", "connected"}[r.Intn(5)]
	np := ipv4.ProtocolNumber
	if kind == "v6-wild" || kind == "dual-stack" {
		np = ipv6.ProtocolNumber
	}
	wq := &waiter.Queue{}
	ep, err := x.h.S.NewEndpoint(udp.ProtocolNumber, np, wq)
	if err != nil {
		run.Broken("harness: " + err.String())
		return
	}
	defer ep.Close()
	const port = 4000
	ns := 1 + r.Intn(8)
	var senders []sender
	for i := 0; i < ns; i++ {
		s := sender{id: uint32(i + 1), port: uint16(1000 + r.Intn(60000))}
		s.addr4 = [4]byte{10, 0, byte(1 + i), byte(2 + r.Intn(200))}
		s.addr6 = a16(wire.AddrB6)
		s.addr6[15] = byte(2 + i)
		s.v6 = kind == "v6-wild" || (kind == "dual-stack" && r.Bool())
		senders = append(senders, s)
	}
	bind := tcpip.FullAddress{Port: port}
	if kind == "v4-specific" {
		bind.Addr = wire.AddrA4
	}
	if e := ep.Bind(bind, nil); e != nil {
		run.Broken("harness: bind: " + e.String())
		return
	}
	if kind == "connected" {
		if e := ep.Connect(tcpip.FullAddress{Addr: tcpip.Address(senders[0].addr4[:]), Port: senders[0].port}); e != nil {
			run.Broken("harness: connect: " + e.String())
			return
		}
	}
	if r.Chance(1, 3) {
		ep.SetSockOpt(tcpip.ReceiveBufferSizeOption(4096 + r.Intn(60000)))
	}
	type arrival struct {
		sender  int
		counter uint32
		n       int
		expect  bool // addressed to this socket
	}
	var arrivals []arrival
	var expectQ []arrival // what must be readable, in order, unless dropped whole for lack of space / closed
	var rep []string
	closedAt := -1
	n := 10 + r.Intn(120)
	if r.Chance(1, 4) {
		closedAt = r.Intn(n)
	}
	readEvery := 1 + r.Intn(40) // the reader is slower than the senders: buffer pressure
	var readOrder []arrival
	bad := false
	viol := func(key, what string) {
		if !bad {
			run.Violation("C11/"+key, what, map[string]interface{}{"k": k, "kind": kind, "trace": rep})
		}
		bad = true
	}
	readSome := func(max int) {
		for i := 0; i < max; i++ {
			var from tcpip.FullAddress
			if r.Chance(1, 4) {
				// looking at the head of the queue (length prefix, scattered buffers) takes
				// nothing away: the Read that follows still returns one whole datagram
				bufs := [][][]byte{{make([]byte, 4)}, {make([]byte, 4), make([]byte, 2048)}, {make([]byte, 70000)}}[r.Intn(3)]
				ep.Peek(bufs)
				run.Count("peeks_before_read", 1)
			}
			v, _, e := ep.Read(&from)
			if e != nil {
				return
			}
			run.Count("datagrams_read", 1)
			sid, ctr, ok := checkPayload(v)
			if !ok {
				viol("read/not-one-datagram", fmt.Sprintf("Read returned %d bytes that are not exactly one datagram that was sent (decoded id %d/%d): truncated, merged or altered", len(v), sid, ctr))
				return
			}
			// must be the next expected-or-later arrival (drops allowed), never earlier / twice
			idx := -1
			for j, a := range expectQ {
				if uint32(a.sender+1) == sid && a.counter == ctr {
					idx = j
					break
				}
			}
			if idx < 0 {
				viol("read/duplicate-or-stray", fmt.Sprintf("Read returned datagram %d/%d which was already returned, was never addressed to this socket, or arrived after an earlier-returned one", sid, ctr))
				return
			}
			a := expectQ[idx]
			expectQ = expectQ[idx+1:] // everything before it was dropped whole
			s := senders[a.sender]
			wantAddr := tcpip.Address(s.addr4[:])
			if s.v6 {
				wantAddr = tcpip.Address(s.addr6[:])
			} else if np == ipv6.ProtocolNumber {
				wantAddr = mapped(s.addr4)
			}
			// a v4 sender on a dual-stack socket may be reported in plain or v4-mapped form
			if from.Port != s.port || (from.Addr != wantAddr && !(!s.v6 && from.Addr == tcpip.Address(s.addr4[:]))) {
				viol("read/wrong-sender", fmt.Sprintf("datagram %d/%d reported from %v:%d, it was sent from %v:%d", sid, ctr, []byte(from.Addr), from.Port, []byte(wantAddr), s.port))
				return
			}
			readOrder = append(readOrder, a)
		}
	}
	lens := []int{12, 12, 13, 100, 500, 1472, 1473, 4000, 9000, 20000, 65507}
	for i := 0; i < n && !bad; i++ {
		si := r.Intn(ns)
		s := senders[si]
		ln := lens[r.Intn(len(lens))]
		if r.Chance(1, 3) {
			ln = 12 + r.Intn(2000)
		}
		if s.v6 && ln > 65000 {
			ln = 65000
		}
		a := arrival{sender: si, counter: uint32(i), n: ln}
		// does it match this socket?
		dport := uint16(port)
		dst4, dst6 := a4(wire.AddrA4), a16(wire.AddrA6)
		switch r.Intn(8) {
		case 0:
			dport = port + 1 // other port: nobody
		case 1:
			if !s.v6 {
				dst4 = [4]byte{10, 0, 0, 5} // the second local address
			}
		}
		match := dport == port
		switch kind {
		case "v4-wild":
			match = match && !s.v6
		case "v4-specific":
			match = match && !s.v6 && dst4 == a4(wire.AddrA4)
		case "v6-wild", "dual-stack":
		case "connected":
			// Connect pins the local address to the one the route picked
			match = match && si == 0 && !s.v6 && dst4 == a4(wire.AddrA4)
		}
		if closedAt >= 0 && i >= closedAt {
			match = false
		}
		a.expect = match
		if i == closedAt {
			ep.Shutdown(tcpip.ShutdownRead)
			rep = append(rep, "shutdown(read)")
		}
		if closedAt >= 0 && i > closedAt && r.Chance(1, 6) {
			// the application goes on using the write side: (re)connecting must not reopen reception
			e := ep.Connect(tcpip.FullAddress{Addr: tcpip.Address(senders[0].addr4[:]), Port: senders[0].port})
			rep = append(rep, fmt.Sprintf("connect after shutdown(read) -> %v", e))
			if e == nil && kind != "connected" && np == ipv4.ProtocolNumber {
				kind = "connected"
			}
		}
		nfrag := 1
		si2 := (si + 1 + r.Intn(ns)) % ns
		if !s.v6 && ln >= 64 && ln <= 9000 && si2 != si && !senders[si2].v6 && r.Chance(1, 12) {
			// two senders use the same IP identification at the same time and their fragments
			// arrive interleaved: each datagram is reassembled from its own sender's fragments
			s2 := senders[si2]
			a2 := arrival{sender: si2, counter: uint32(i) | 1<<30, n: 64 + r.Intn(3000)}
			match2 := dport == port
			switch kind {
			case "v4-specific":
				match2 = match2 && dst4 == a4(wire.AddrA4)
			case "connected":
				match2 = match2 && si2 == 0 && dst4 == a4(wire.AddrA4)
			}
			if closedAt >= 0 && i >= closedAt {
				match2 = false
			}
			a2.expect = match2
			fa := s.fragments(x, dst4, dport, mkPayload(s.id, a.counter, ln), uint16(1000+i), 2+r.Intn(5), r, nil)
			fb := s2.fragments(x, dst4, dport, mkPayload(s2.id, a2.counter, a2.n), uint16(1000+i), 2+r.Intn(5), r, nil)
			shuffle := func(f [][]byte) {
				out := make([][]byte, len(f))
				for i, j := range r.Perm(len(f)) {
					out[i] = f[j]
				}
				copy(f, out)
			}
			shuffle(fa)
			shuffle(fb)
			first, second, m1, m2 := a, a2, match, match2
			ia, ib := 0, 0
			for ia < len(fa) || ib < len(fb) {
				if ib >= len(fb) || (ia < len(fa) && r.Bool()) {
					x.h.L.Inject(ipv4.ProtocolNumber, fa[ia], "")
					ia++
					if ia == len(fa) && ib < len(fb) {
						first, second, m1, m2 = a, a2, match, match2
					}
				} else {
					x.h.L.Inject(ipv4.ProtocolNumber, fb[ib], "")
					ib++
					if ib == len(fb) && ia < len(fa) {
						first, second, m1, m2 = a2, a, match2, match
					}
				}
			}
			rep = append(rep, fmt.Sprintf("arrivals %d/%d (len %d) and %d/%d (len %d): same IP id %d, fragments interleaved, completed in that order; match=%v/%v", first.sender, first.counter, first.n, second.sender, second.counter, second.n, 1000+i, m1, m2))
			for _, y := range []struct {
				a arrival
				m bool
			}{{first, m1}, {second, m2}} {
				arrivals = append(arrivals, y.a)
				if y.m {
					expectQ = append(expectQ, y.a)
				}
				run.Count("datagrams_injected", 1)
			}
			run.Count("interleaved_same_id_fragment_pairs", 1)
			if i%readEvery == readEvery-1 {
				readSome(2 + r.Intn(4)) // two arrivals: a reader that keeps up takes both
			}
			continue
		}
		if !s.v6 && ln >= 64 && r.Chance(1, 4) {
			nfrag = 2 + r.Intn(24)
			s.injectFragmented(x, dst4, dport, mkPayload(s.id, a.counter, ln), uint16(1000+i), nfrag, r)
			run.Count("datagrams_injected_as_fragments", 1)
		} else {
			s.inject(x, dst4, dst6, dport, mkPayload(s.id, a.counter, ln), uint16(i))
		}
		rep = append(rep, fmt.Sprintf("arrival %d/%d len %d v6=%v dport=%d dst=%v fragments=%d match=%v", s.id, a.counter, ln, s.v6, dport, dst4, nfrag, match))
		arrivals = append(arrivals, a)
		if match {
			expectQ = append(expectQ, a)
		}
		run.Count("datagrams_injected", 1)
		if i%readEvery == readEvery-1 {
			readSome(1 + r.Intn(5))
		}
	}
	if !bad {
		readSome(1 << 20)
	}
	// with no buffer pressure nothing may be lost
	if !bad && readEvery == 1 && closedAt < 0 && len(expectQ) > 0 {
		viol("read/lost", fmt.Sprintf("%d datagrams addressed to the socket were never returned although the reader kept up (first: sender %d counter %d, %d bytes)", len(expectQ), expectQ[0].sender, expectQ[0].counter, expectQ[0].n))
	}
	if _, _, e := ep.Read(nil); e == nil && !bad {
		viol("read/extra", "Read returned a datagram after the queue was drained")
	}
	run.Case(fw.Hash(kind, ns, n/10, closedAt >= 0, readEvery/5), len(readOrder) > 0)
	if k < 1 {
		run.Sample(map[string]interface{}{"kind": kind, "trace_head": rep[:minI(8, len(rep))]})
	}
}

func minI(a, b int) int {
	if a < b {
		return a
	}
	return b
}

// ---- send side ---------------------------------------------------------------

func sendScenario(k int) {
	r := fw.NewRand(run.Seed, "C11", "tx", k)
	x := newHost(65535)
	if x == nil {
		return
	}
	v6 := r.Chance(1, 3)
	np := ipv4.ProtocolNumber
	if v6 {
		np = ipv6.ProtocolNumber
	}
	ep, err := x.h.S.NewEndpoint(udp.ProtocolNumber, np, &waiter.Queue{})
	if err != nil {
		run.Broken("harness: " + err.String())
		return
	}
	defer ep.Close()
	mode := []string{"unbound", "bound", "connected", "connected-sendto"}[r.Intn(4)]
	peer := tcpip.FullAddress{Addr: wire.AddrB4, Port: uint16(1 + r.Intn(65535))}
	if v6 {
		peer.Addr = wire.AddrB6
		if r.Bool() && mode != "connected" {
			peer.Addr = mapped(a4(wire.AddrB4)) // v4-mapped destination on a v6 socket
		}
	}
	lport := uint16(0)
	if mode != "unbound" {
		lport = uint16(2000 + r.Intn(50000))
		ep.Bind(tcpip.FullAddress{Port: lport}, nil)
	}
	connectedTo := peer
	if mode == "connected" || mode == "connected-sendto" {
		connectedTo.Port = uint16(1 + r.Intn(65535))
		if e := ep.Connect(connectedTo); e != nil {
			run.Count("connect_failed:"+e.String(), 1)
			return
		}
	}
	for i := 0; i < 30; i++ {
		var n int
		switch r.Intn(6) {
		case 0:
			n = r.Intn(20)
		case 1:
			n = 1460 + r.Intn(30)
		case 2:
			n = 65490 + r.Intn(46) // around the 65507 maximum, and the 65508..65535 range
		case 3:
			n = 65536 + r.Intn(100)
		default:
			n = r.Intn(66000)
		}
		payload := mkPayload(uint32(k), uint32(i), n)
		var opts tcpip.WriteOptions
		dst := peer
		switch mode {
		case "connected":
			dst = connectedTo
		case "connected-sendto":
			// same host, possibly another port / the connected port / another host
			switch r.Intn(3) {
			case 0:
				dst.Port = connectedTo.Port
			case 1:
				dst.Port = uint16(1 + r.Intn(65535))
			case 2:
				if !v6 {
					dst.Addr = "\x0a\x00\x00\x63"
				}
			}
			opts.To = &dst
		default:
			opts.To = &dst
		}
		x.take()
		wrote, _, werr := ep.Write(tcpip.SlicePayload(payload), opts)
		frames := x.take()
		rep := map[string]interface{}{"k": k, "mode": mode, "v6": v6, "len": n, "dst_port": dst.Port}
		run.Count("writes", 1)
		if werr != nil {
			if len(frames) != 0 {
				run.Violation("C11/write/failed-but-emitted", fmt.Sprintf("Write of %d bytes failed with %v but %d packets were emitted", n, werr, len(frames)), rep)
			}
			run.Count("writes_refused:"+werr.String(), 1)
			continue
		}
		maxLen := 65507
		if v6 && len(dst.Addr) == 16 && dst.Addr[10] != 0xff {
			maxLen = 65527
		}
		if len(frames) != 1 {
			run.Violation("C11/write/packet-count", fmt.Sprintf("successful Write of %d bytes emitted %d packets", n, len(frames)), rep)
			continue
		}
		f := frames[0]
		var got []byte
		var sp, dp uint16
		var derr error
		if f.Proto == ipv4.ProtocolNumber {
			ip, e := rfc.ParseIPv4(f.Data)
			derr = e
			if e == nil {
				u, e2 := rfc.ParseUDP4(ip.Payload, ip.Src, ip.Dst)
				got, sp, dp, derr = u.Payload, u.SrcPort, u.DstPort, e2
			}
		} else {
			ip, e := rfc.ParseIPv6(f.Data)
			derr = e
			if e == nil {
				u, e2 := rfc.ParseUDP6(ip.Payload, ip.Src, ip.Dst)
				got, sp, dp, derr = u.Payload, u.SrcPort, u.DstPort, e2
			}
		}
		key := "C11/write/packet-differs"
		if n > maxLen {
			key = "C11/write/oversize-accepted" // the specific input class: payload beyond what one UDP/IP packet can carry
		}
		if derr != nil || !bytes.Equal(got, payload) || int(wrote) != n {
			run.Violation(key, fmt.Sprintf("Write of %d bytes reported success (%d) but the emitted packet does not carry exactly those bytes: decode error %v, payload %d bytes", n, wrote, derr, len(got)), rep)
			continue
		}
		if dp != dst.Port || (lport != 0 && sp != lport) {
			run.Violation("C11/write/ports", fmt.Sprintf("datagram for port %d from socket port %d emitted with ports %d>%d", dst.Port, lport, sp, dp), rep)
		}
		run.Count("packets_matched_to_writes", 1)
		run.Case(fw.Hash("tx", mode, v6, n/2000), true)
	}
}

// ---- concurrent readers against delivery (-race) --------------------------------

func concurrentScenario(k int) {
	r := fw.NewRand(run.Seed, "C11", "conc", k)
	x := newHost(65535)
	if x == nil {
		return
	}
	ep, _ := x.h.S.NewEndpoint(udp.ProtocolNumber, ipv4.ProtocolNumber, &waiter.Queue{})
	defer ep.Close()
	ep.Bind(tcpip.FullAddress{Port: 4000}, nil)
	n := 300
	s := sender{id: 1, addr4: [4]byte{10, 0, 1, 2}, port: 999}
	var mu sync.Mutex
	seen := map[uint32]int{}
	bad := ""
	var wg sync.WaitGroup
	stop := make(chan struct{})
	for g := 0; g < 1+r.Intn(3); g++ {
		wg.Add(1)
		go func() {
			defer wg.Done()
			for {
				v, _, e := ep.Read(nil)
				if e != nil {
					select {
					case <-stop:
						return
					default:
						runtime.Gosched()
						continue
					}
				}
				_, ctr, ok := checkPayload(v)
				mu.Lock()
				if !ok {
					bad = fmt.Sprintf("a reader got %d bytes that are not one intact datagram", len(v))
				}
				seen[ctr]++
				if seen[ctr] > 1 {
					bad = fmt.Sprintf("datagram %d returned %d times", ctr, seen[ctr])
				}
				mu.Unlock()
			}
		}()
	}
	for i := 0; i < n; i++ {
		s.inject(x, a4(wire.AddrA4), a16(wire.AddrA6), 4000, mkPayload(1, uint32(i), 12+r.Intn(3000)), uint16(i))
		if i%7 == 0 {
			runtime.Gosched()
		}
	}
	for i := 0; i < 2000; i++ {
		runtime.Gosched()
	}
	close(stop)
	wg.Wait()
	run.Case(fw.Hash("conc", k), len(seen) > 0)
	run.Count("concurrent_datagrams_read", int64(len(seen)))
	if bad != "" {
		run.Violation("C11/concurrent", bad, k)
	}
}

func TestC11(t *testing.T) {
	log.SetOutput(io.Discard)
	run = fw.Start("C11", "exploration")
	if fw.IsChild() {
		for k := 0; k < fw.N(150, 8000) && run.Violations() < 3; k++ {
			concurrentScenario(k)
		}
		os.Exit(run.Finish("", nil))
	}
	var wg sync.WaitGroup
	nrx, ntx := fw.N(1500, 80000), fw.N(600, 30000)
	for w := 0; w < 8; w++ {
		w := w
		wg.Add(1)
		go func() {
			defer wg.Done()
			for k := w; k < nrx && run.Violations() < 5; k += 8 {
				receiveScenario(k)
			}
			for k := w; k < ntx && run.Violations() < 5; k += 8 {
				sendScenario(k)
			}
		}()
	}
	wg.Wait()
	res := run.RunChild(fw.ChildSpec{Bin: os.Getenv("VERIF_BIN_RACE"), Test: "^TestC11$", Tag: "race", Race: true, Anchors: []string{"protocol/transport/udp/"}})
	if !res.Done {
		run.ChildCrashed(res, "C11/concurrent", nil)
	}
	code := run.Finish("receive side: 1-8 senders (IPv4, IPv6, v4-mapped on dual-stack sockets) inject self-identifying datagrams (id, counter, length, pattern) of lengths 12..65507 at a socket that is bound to the wildcard / a specific address / IPv6 / dual-stack / connected; some arrivals are addressed elsewhere (other port, other local address, other sender for a connected socket); the reader keeps up or lags (buffer pressure), the read side may be shut down mid-stream. Every Read must return exactly one intact datagram that was addressed to the socket, later in arrival order than the previous one, never twice, with the true source address and port; with a reader that keeps up nothing may be lost. Send side: unbound/bound/connected/connected+sendto sockets write 0..66000 bytes (dense around 1472, 65507, 65535): a successful Write must be matched by exactly one emitted packet, decoded by h/rfc, carrying exactly those bytes and the right ports; a failed Write must emit nothing. Concurrent readers against delivery run under the race detector. distinct = configuration classes",
		[]string{"datagrams whose UDP length field disagrees with the IP payload are outside the statement (C07 covers them)", "UDP delivery is synchronous in this stack, so no virtual time is needed"})
	os.Exit(code)
}
