package c19

import (
	"fmt"
	"os"
	"strings"
	"sync"
	"sync/atomic"
	"testing"
	"unsafe"

	"github.com/anishathalye/porcupine"
	"github.com/brewlin/net-protocol/pkg/sleep"
	"verifh/fw"
	"verifh/hist"
	"verifh/sched"
)

// Controlled (S-CS) mode for the Sleeper/Waker: every goroutine is gated at the
// verif schedule points of sleep_unsafe.go; the park and the wake-up are
// simulated through VerifParkHook / VerifReadyHook so that the controller
// knows exactly when the fetcher is asleep and who woke it. (The commit itself
// - compare-and-swap of waitingG from 'preparing' to the G - is performed by the
// hook with the same semantics as commitSleep.)

const (
	ptParked = 200 // fetcher is asleep (enabled only once a waker made it ready)
	fakeG0   = 0x1000
)

type csEnv struct {
	c       *sched.Ctl
	s       *sleep.Sleeper
	wakers  []sleep.Waker
	parked  int32 // worker id + 1 of the sleeping fetcher, 0 if none
	woken   int32
	viol    string
	doneRet int32
	rec     *hist.Recorder
	states  map[uint64]struct{}
}

var csEnvs sync.Map // unsafe.Pointer (sleeper / waker / waitingG word) -> *csEnv

func csPoint(id int, p unsafe.Pointer) {
	if e, ok := csEnvs.Load(p); ok {
		env := e.(*csEnv)
		if id >= 9 && id <= 12 && atomic.LoadInt32(&env.doneRet) == 1 && p == unsafe.Pointer(env.s) {
			if id == 9 || id == 10 { // 11/12 are the known finding (waitingG is read after the push)
				env.viol = fmt.Sprintf("a waker reached step %d of enqueueAssertedWaker after Done returned", id)
			}
		}
		env.c.Yield(id, p)
		return
	}
	stressHook(id, p)
}

func csPark(wg *uintptr) bool {
	e, ok := csEnvs.Load(unsafe.Pointer(wg))
	if !ok {
		return false // not a controlled sleeper: park for real
	}
	env := e.(*csEnv)
	w := env.c.Cur()
	// the commit: store our G if the wait was not aborted meanwhile
	if !atomic.CompareAndSwapUintptr(wg, 1, uintptr(fakeG0+w.ID)) {
		return true // aborted: gopark would return at once
	}
	atomic.StoreInt32(&env.parked, int32(w.ID)+1)
	env.c.Yield(ptParked, wg)
	atomic.StoreInt32(&env.parked, 0)
	atomic.StoreInt32(&env.woken, 0)
	return true
}

func csReady(g uintptr) bool {
	if g < fakeG0 || g >= fakeG0+64 {
		return false
	}
	// find the environment: the G value encodes the worker id only, so look at all envs
	handled := false
	csEnvs.Range(func(k, v interface{}) bool {
		env := v.(*csEnv)
		if env.c == nil || env.c.Cur() == nil {
			return true
		}
		// the caller is the running worker of its controller
		if int32(g-fakeG0)+1 == atomic.LoadInt32(&env.parked) && env.c.Cur().Data == env {
			if !atomic.CompareAndSwapInt32(&env.woken, 0, 1) {
				env.viol = "goready called twice for one sleep (the runtime would crash with 'bad g status')"
			}
			handled = true
			return false
		}
		return true
	})
	if !handled {
		// readied a G that is not asleep: in the real runtime this is fatal
		csEnvs.Range(func(k, v interface{}) bool {
			env := v.(*csEnv)
			if env.c != nil && env.c.Cur() != nil && env.c.Cur().Data == env {
				env.viol = fmt.Sprintf("goready(%#x) for a goroutine that is not asleep", g)
				return false
			}
			return true
		})
	}
	return true
}

// programs: fetcher ops F (blocking fetch), N (non-blocking), D (Done); asserter ops a<k>/c<k>
func mkCS(progs []string, nwakers int) *csEnv {
	env := &csEnv{s: new(sleep.Sleeper), wakers: make([]sleep.Waker, nwakers), rec: &hist.Recorder{}}
	for i := range env.wakers {
		env.s.AddWaker(&env.wakers[i], i)
	}
	var fs []func(w *sched.Worker)
	for pi, p := range progs {
		p := p
		pi := pi
		fs = append(fs, func(w *sched.Worker) {
			w.Data = env
			ops := strings.Fields(p)
			for _, op := range ops {
				switch op[0] {
				case 'F', 'N':
					block := op[0] == 'F'
					kind := "fetchN"
					if block {
						kind = "fetchB"
					}
					env.rec.Do(pi, sin{kind, 0}, func() interface{} {
						v, ok := env.s.Fetch(block)
						if !ok {
							return noID
						}
						return v
					})
				case 'D':
					env.s.Done()
					atomic.StoreInt32(&env.doneRet, 1)
				case 'a':
					k := int(op[1] - '0')
					env.rec.Do(pi, sin{"assert", k}, func() interface{} { env.wakers[k].Assert(); return nil })
				case 'c':
					k := int(op[1] - '0')
					env.rec.Do(pi, sin{"clear", k}, func() interface{} { return env.wakers[k].Clear() })
				}
			}
		})
	}
	env.c = sched.New(fs)
	for _, w := range env.c.Workers {
		w.Data = env
	}
	env.c.Enabled = func(w *sched.Worker) bool {
		if w.Point == ptParked {
			return atomic.LoadInt32(&env.woken) == 1
		}
		return true
	}
	env.c.AfterStep = func(c *sched.Ctl, w *sched.Worker) string {
		if env.states != nil {
			h := fw.Hash(env.s.VerifWaitingG() > 1, env.s.VerifWaitingG() == 1, env.s.VerifSharedEmpty(), atomic.LoadInt32(&env.parked), atomic.LoadInt32(&env.woken))
			for i := range env.wakers {
				if env.wakers[i].IsAsserted() {
					h = h*31 + uint64(i) + 1
				}
			}
			for _, x := range c.Workers {
				h = h*1099511628211 ^ uint64(x.Point+1)
			}
			env.states[h] = struct{}{}
		}
		return env.viol
	}
	csEnvs.Store(unsafe.Pointer(env.s), env)
	csEnvs.Store(unsafe.Pointer(env.s.VerifKey()), env)
	for i := range env.wakers {
		csEnvs.Store(unsafe.Pointer(&env.wakers[i]), env)
	}
	return env
}

func (env *csEnv) release() {
	csEnvs.Delete(unsafe.Pointer(env.s))
	csEnvs.Delete(unsafe.Pointer(env.s.VerifKey()))
	for i := range env.wakers {
		csEnvs.Delete(unsafe.Pointer(&env.wakers[i]))
	}
}

type csJob struct {
	progs   []string
	wakers  int
	cap     int64
	strict  bool // single asserter per waker: strict specification
	mustEnd bool // every blocking fetch is guaranteed a distinct assertion: a deadlock is a lost wake-up
}

func csExplore(run *fw.Run, j csJob) {
	states := map[uint64]struct{}{}
	var reported int
	name := strings.Join(j.progs, " | ")
	model := weakModel
	if j.strict {
		model = strictModel
	}
	var last *csEnv
	execs, complete := sched.DFS(func() *sched.Ctl {
		if last != nil {
			last.release()
		}
		env := mkCS(j.progs, j.wakers)
		env.states = states
		last = env
		return env.c
	}, nil, 400, j.cap, func(r sched.Result) bool {
		env := last
		replay := map[string]interface{}{"programs": j.progs, "decisions": r.Decisions}
		if r.Violation != "" && reported < 2 {
			reported++
			run.Violation("C19/controlled/"+strings.SplitN(r.Violation, " ", 2)[0], fmt.Sprintf("programs [%s]: %s", name, r.Violation), replay)
		}
		asserted := []int{}
		for i := range env.wakers {
			if env.wakers[i].IsAsserted() {
				asserted = append(asserted, i)
			}
		}
		if r.Truncated {
			run.Count("controlled_truncated(adversarial spurious wake-ups)", 1)
		}
		// every asserter has finished (its Assert calls are complete); if a waker is still
		// asserted - not fetched, not cleared - the sleeping fetcher has lost its wake-up.
		// With nothing asserted a blocking fetch may rightly sleep forever.
		if r.Deadlock && len(asserted) > 0 && reported < 2 {
			reported++
			run.Violation("C19/controlled/lost-wakeup", fmt.Sprintf("programs [%s]: after %d steps nobody can run: the fetcher sleeps (waitingG=%#x) while every asserter has finished; wakers still asserted: %v", name, r.Steps, env.s.VerifWaitingG(), asserted), replay)
		}
		if !r.Deadlock && !r.Truncated && r.Violation == "" {
			if res := hist.Check(model, env.rec.Ops(), 0); res == "illegal" && reported < 2 {
				reported++
				run.Violation("C19/controlled/not-linearizable", fmt.Sprintf("programs [%s]: the history of this schedule cannot be explained by the asserted-flag specification", name), map[string]interface{}{"programs": j.progs, "decisions": r.Decisions, "history": describe(env.rec.Ops())})
			}
		}
		return true
	})
	if last != nil {
		last.release()
	}
	run.AddEvals(execs)
	run.Count("controlled_schedules:"+name, execs)
	if complete {
		run.Seen("exhaustive_programs", name)
	}
	for i := int64(0); i < execs && i < 30000; i++ {
		run.Distinct(fw.Hash("cs", name, i))
	}
	run.Count("controlled_distinct_states", int64(len(states)))
}

func TestC19CS(t *testing.T) {
	run := fw.Start("C19", "exploration")
	if !fw.IsChild() {
		t.Skip("child only")
	}
	sleep.VerifPoint = csPoint
	sleep.VerifParkHook = csPark
	sleep.VerifReadyHook = csReady
	jobs := []csJob{
		{[]string{"F", "a0"}, 1, 0, true, true},
		{[]string{"N F", "a0"}, 1, int64(fw.N(60000, 3000000)), true, true},
		{[]string{"F N", "a0 a0"}, 1, int64(fw.N(60000, 3000000)), true, true},
		{[]string{"F F", "a0 a1"}, 2, int64(fw.N(60000, 3000000)), true, true},
		{[]string{"F", "a0", "a0"}, 1, int64(fw.N(60000, 0)), false, true},
		{[]string{"F F", "a0", "a1"}, 2, int64(fw.N(60000, 3000000)), true, true},
		{[]string{"F N", "a0 c0 a0"}, 1, int64(fw.N(40000, 0)), true, true},
		{[]string{"F D", "a0", "a1"}, 2, int64(fw.N(40000, 2000000)), true, true},
		{[]string{"D", "a0 c0", "a1"}, 2, int64(fw.N(40000, 2000000)), true, false},
		// two asserters race on waker 0 while waker 1 is already queued behind it
		{[]string{"F F", "a1 a0", "a0"}, 2, int64(fw.N(40000, 2000000)), false, true},
	}
	var lo, hi int
	fmt.Sscan(os.Getenv("VERIF_RANGE"), &lo, &hi)
	for i := lo; i < hi && i < len(jobs); i++ {
		csExplore(run, jobs[i])
	}
	os.Exit(run.Finish("", nil))
}

var _ = porcupine.Ok
