package c19

import (
	"fmt"
	"os"
	"runtime"
	"strings"
	"sync"
	"sync/atomic"
	"testing"
	"time"
	"unsafe"

	"github.com/anishathalye/porcupine"
	"github.com/brewlin/net-protocol/pkg/sleep"
	"verifh/fw"
	"verifh/hist"
)

var run *fw.Run

// ---- stress hook: seeded delays at the algorithm's atomic operations -------

type stressCfg struct {
	seed uint64
	ctr  uint64
	hotA int
	hotB int
}

var stressOn atomic.Value // *stressCfg

// doneSet holds sleepers whose Done has returned; holdAt11 makes the asserter
// of the directed scenario wait before reading waitingG.
var doneSet sync.Map
var holdAt11 atomic.Value // chan struct{}
var touchAfterDone [20]int64

func stressHook(id int, p unsafe.Pointer) {
	if id == 11 {
		if ch, _ := holdAt11.Load().(chan struct{}); ch != nil {
			<-ch
		}
	}
	if id >= 9 && id <= 12 {
		if _, gone := doneSet.Load(p); gone {
			atomic.AddInt64(&touchAfterDone[id], 1) // about to touch a sleeper whose Done has returned
		}
	}
	v := stressOn.Load()
	if v == nil {
		return
	}
	cfg := v.(*stressCfg)
	if cfg == nil {
		return
	}
	n := atomic.AddUint64(&cfg.ctr, 1)
	z := (cfg.seed + n) * 0x9E3779B97F4A7C15
	z ^= z >> 29
	hot := id == cfg.hotA || id == cfg.hotB
	switch {
	case hot && z%2 == 0:
		for i := 0; i < int(z>>40%200); i++ {
			runtime.Gosched()
		}
	case z%5 == 0:
		runtime.Gosched()
	case z%53 == 0:
		time.Sleep(time.Duration(z>>50%40) * time.Microsecond)
	}
}

// ---- sequential specification ----------------------------------------------

type sin struct {
	Op string // assert clear fetchB fetchN isasserted
	W  int
}

const noID = -1

func mkModel(strict bool) porcupine.Model {
	return porcupine.Model{
		Init: func() interface{} { return uint16(0) },
		Step: func(st, in, out interface{}) (bool, interface{}) {
			s := st.(uint16)
			i := in.(sin)
			switch i.Op {
			case "assert":
				return true, s | 1<<uint(i.W)
			case "clear":
				was := s&(1<<uint(i.W)) != 0
				return out.(bool) == was, s &^ (1 << uint(i.W))
			case "isasserted":
				return out.(bool) == (s&(1<<uint(i.W)) != 0), s
			default:
				id := out.(int)
				if id == noID {
					if i.Op == "fetchB" {
						return false, s // a blocking fetch never reports "nothing"
					}
					if strict {
						return s == 0, s
					}
					return true, s
				}
				if id < 0 || id > 15 || s&(1<<uint(id)) == 0 {
					return false, s // invented or duplicated wake-up
				}
				return true, s &^ (1 << uint(id))
			}
		},
		DescribeOperation: func(in, out interface{}) string { return fmt.Sprintf("%+v->%v", in, out) },
	}
}

var strictModel = mkModel(true)
var weakModel = mkModel(false)

func describe(ops []porcupine.Operation) []string {
	var s []string
	for _, o := range ops {
		s = append(s, fmt.Sprintf("g%d [%d,%d] %+v -> %v", o.ClientId, o.Call, o.Return, o.Input, o.Output))
	}
	return s
}

// fetcherParked reports whether the dump shows a goroutine waiting (not
// runnable) inside the sleeper's park.
func fetcherParked() bool {
	buf := make([]byte, 4<<20)
	buf = buf[:runtime.Stack(buf, true)]
	for _, blk := range strings.Split(string(buf), "\n\n") {
		if strings.Contains(blk, "sleep.verifPark") || strings.Contains(blk, "sleep.(*Sleeper).nextWaker") {
			hdr := blk
			if i := strings.Index(blk, "\n"); i > 0 {
				hdr = blk[:i]
			}
			if !strings.Contains(hdr, "running") && !strings.Contains(hdr, "runnable") && strings.Contains(blk, "c19.history") {
				return true
			}
		}
	}
	return false
}

// history runs one stress history; only one runs at a time in the process
// (the dump-based parked test must not see another history's fetcher).
func history(i int) {
	r := fw.NewRand(run.Seed, "C19", "stress", i)
	nw := 1 + r.Intn(4)
	na := 1 + r.Intn(8)
	strict := i%3 != 0 // single asserter per waker => the strict specification applies
	hots := [][2]int{{2, 3}, {10, 11}, {12, 13}, {3, 12}, {15, 6}, {17, 5}, {2, 10}}
	h := hots[r.Intn(len(hots))]
	stressOn.Store(&stressCfg{seed: r.U64(), hotA: h[0], hotB: h[1]})
	defer stressOn.Store((*stressCfg)(nil))

	var s sleep.Sleeper
	wakers := make([]sleep.Waker, nw+1) // last = STOP
	stop := nw
	for k := range wakers {
		s.AddWaker(&wakers[k], k)
	}
	rec := &hist.Recorder{}
	var aw sync.WaitGroup
	start := make(chan struct{})
	for a := 0; a < na; a++ {
		a := a
		rr := r.Split("a", a)
		aw.Add(1)
		go func() {
			defer aw.Done()
			<-start
			for k := 0; k < 2+rr.Intn(4); k++ {
				w := rr.Intn(nw)
				x := rr.Intn(10)
				owner := strict && w%na == a // in strict mode only the owner asserts waker w
				switch {
				case x < 6 && (!strict || owner):
					rec.Do(1+a, sin{"assert", w}, func() interface{} { wakers[w].Assert(); return nil })
				case x < 6:
					// not the owner: assert one of my own wakers if I have any, else clear
					mine := -1
					for c := a; c < nw; c += na {
						mine = c
					}
					if mine >= 0 {
						rec.Do(1+a, sin{"assert", mine}, func() interface{} { wakers[mine].Assert(); return nil })
					} else {
						rec.Do(1+a, sin{"clear", w}, func() interface{} { return wakers[w].Clear() })
					}
				case x < 9:
					rec.Do(1+a, sin{"clear", w}, func() interface{} { return wakers[w].Clear() })
				default:
					if owner {
						rec.Do(1+a, sin{"isasserted", w}, func() interface{} { return wakers[w].IsAsserted() })
					}
				}
				if rr.Chance(1, 3) {
					runtime.Gosched()
				}
			}
		}()
	}
	fdone := make(chan struct{})
	var fetchCall int64
	var inBlocking int32
	go func() { // the fetcher
		defer close(fdone)
		rr := r.Split("f")
		<-start
		for {
			block := rr.Chance(2, 3)
			var id int
			if block {
				atomic.StoreInt64(&fetchCall, rec.Now())
				atomic.StoreInt32(&inBlocking, 1)
				c := atomic.LoadInt64(&fetchCall)
				v, ok := s.Fetch(true)
				atomic.StoreInt32(&inBlocking, 0)
				t := rec.Now()
				id = v
				if !ok {
					id = noID
				}
				rec.Add(porcupine.Operation{ClientId: 0, Input: sin{"fetchB", 0}, Call: c, Output: id, Return: t})
			} else {
				id = rec.Do(0, sin{"fetchN", 0}, func() interface{} {
					v, ok := s.Fetch(false)
					if !ok {
						return noID
					}
					return v
				}).(int)
			}
			if id == stop {
				break
			}
			if id == noID && !block {
				runtime.Gosched()
			}
		}
		// drain
		for {
			id := rec.Do(0, sin{"fetchN", 0}, func() interface{} {
				v, ok := s.Fetch(false)
				if !ok {
					return noID
				}
				return v
			}).(int)
			if id == noID {
				break
			}
		}
	}()
	close(start)
	aw.Wait()
	// every asserter has returned; now the stop assertion
	rec.Do(15, sin{"assert", stop}, func() interface{} { wakers[stop].Assert(); return nil })
	lost := ""
	hung := false
	deadline := time.After(30 * time.Second)
	tick := time.NewTicker(50 * time.Millisecond)
wait:
	for {
		select {
		case <-fdone:
			break wait
		case <-deadline:
			hung = true
			break wait
		case <-tick.C:
			// All Assert calls have returned. If the stop waker is still asserted and the
			// fetcher is parked (G stored in waitingG, or waiting per the goroutine dump
			// with waitingG already reset), nobody is left who could call goready.
			if atomic.LoadInt32(&inBlocking) == 1 && wakers[stop].IsAsserted() {
				g := s.VerifWaitingG()
				if g > 1 {
					lost = fmt.Sprintf("fetcher's G is still stored in waitingG (%#x) although every Assert call has returned and the stop waker is asserted", g)
					break wait
				}
				if g == 0 && fetcherParked() {
					time.Sleep(20 * time.Millisecond)
					if atomic.LoadInt32(&inBlocking) == 1 && fetcherParked() && wakers[stop].IsAsserted() {
						lost = "fetcher is parked with waitingG=0: it was never made runnable although every Assert call has returned and the stop waker is asserted"
						break wait
					}
				}
			}
		}
	}
	tick.Stop()
	ops := rec.Ops()
	run.Count("stress_histories", 1)
	if lost != "" {
		// the blocked Fetch stays open to the end of the history
		run.Violation("C19/stress/lost-wakeup", "blocking Fetch sleeps forever: "+lost, map[string]interface{}{"history": i, "ops": describe(ops)})
		return
	}
	if hung {
		run.Inconclusive("stress-watchdog")
		return
	}
	ov := hist.Overlaps(ops)
	run.Case(fw.Hash(hist.OrderSignature(ops)), ov > 0)
	run.Count("overlapping_op_pairs", int64(ov))
	model, mname := weakModel, "weak(multi-asserter)"
	if strict {
		model, mname = strictModel, "strict(single-asserter)"
	}
	run.Count("histories:"+mname, 1)
	switch hist.Check(model, ops, 30*time.Second) {
	case "illegal":
		key := "C19/stress/not-linearizable/" + mname
		run.Violation(key, "Assert/Clear/Fetch history cannot be explained by the asserted-flag specification (a wake-up was invented, duplicated or missed)", describe(ops))
	case "unknown":
		run.Inconclusive("porcupine-timeout")
	}
	if i < 2 {
		run.Sample(describe(ops))
	}
}

// ---- Done: no waker touches the sleeper afterwards --------------------------

// canaryOverwrite clobbers a sleeper with plain stores after Done returned. Any
// later access by a waker is a data race with these stores (both stacks named
// in the race report: this function and the pkg/sleep function).
//
//go:noinline
func canaryOverwrite(s *sleep.Sleeper) {
	*s = sleep.Sleeper{}
}

func doneScenario(i int) (cont bool) {
	cont = true
	r := fw.NewRand(run.Seed, "C19", "done", i)
	nw := 1 + r.Intn(4)
	na := 1 + r.Intn(6)
	hots := [][2]int{{7, 8}, {10, 11}, {12, 13}, {9, 10}, {15, 7}}
	h := hots[r.Intn(len(hots))]
	stressOn.Store(&stressCfg{seed: r.U64(), hotA: h[0], hotB: h[1]})
	defer stressOn.Store((*stressCfg)(nil))
	s := new(sleep.Sleeper)
	wakers := make([]sleep.Waker, nw)
	for k := range wakers {
		s.AddWaker(&wakers[k], k)
	}
	var aw sync.WaitGroup
	stopA := make(chan struct{})
	var asserts int64
	for a := 0; a < na; a++ {
		rr := r.Split("a", a)
		aw.Add(1)
		go func() {
			defer aw.Done()
			for {
				select {
				case <-stopA:
					return
				default:
				}
				w := rr.Intn(nw)
				if rr.Chance(3, 4) {
					wakers[w].Assert()
					atomic.AddInt64(&asserts, 1)
				} else {
					wakers[w].Clear()
				}
				if rr.Chance(1, 2) {
					runtime.Gosched()
				}
			}
		}()
	}
	// fetch a little, then Done while asserters keep going
	nf := r.Intn(4)
	blk := []bool{r.Bool(), r.Bool(), r.Bool(), r.Bool()}
	dd := make(chan struct{})
	go func() {
		for k := 0; k < nf; k++ {
			s.Fetch(blk[k])
		}
		s.Done()
		close(dd)
	}()
	select {
	case <-dd:
	case <-time.After(20 * time.Second):
		// Done itself is stuck. Stop the asserters; if then every Assert has returned,
		// a waker is queued and the G is still stored, nobody can wake Done any more.
		close(stopA)
		aw.Wait()
		select {
		case <-dd:
			return true
		case <-time.After(200 * time.Millisecond):
		}
		if g := s.VerifWaitingG(); g > 1 && !s.VerifSharedEmpty() {
			run.Violation("C19/done/lost-wakeup", fmt.Sprintf("Fetch/Done sleeps forever: its G (%#x) is still stored in waitingG while an asserted waker is queued and every Assert call has returned", g), i)
		} else {
			run.Inconclusive("done-watchdog")
		}
		return false
	}
	doneSet.Store(unsafe.Pointer(s), true)
	canaryOverwrite(s)
	// every waker must be attachable to a new sleeper and deliver there
	s2 := new(sleep.Sleeper)
	for k := range wakers {
		s2.AddWaker(&wakers[k], 100+k)
	}
	got := 0
	fd := make(chan struct{})
	go func() {
		defer close(fd)
		for got < 3 {
			id, ok := s2.Fetch(true)
			if ok && (id < 100 || id >= 100+nw) {
				run.Violation("C19/done/wrong-id", fmt.Sprintf("new sleeper fetched id %d, attached ids are 100..%d", id, 100+nw-1), i)
				return
			}
			got++
		}
	}()
	select {
	case <-fd:
	case <-time.After(30 * time.Second):
		run.Inconclusive("done-watchdog")
		cont = false
	}
	close(stopA)
	aw.Wait()
	// quiesce the second sleeper too, under the same canary
	select {
	case <-fd:
		d2 := make(chan struct{})
		go func() { s2.Done(); close(d2) }()
		select {
		case <-d2:
			canaryOverwrite(s2)
		case <-time.After(20 * time.Second):
			// every asserter has returned; nobody can complete a pending assertion any more
			if g := s2.VerifWaitingG(); g > 1 {
				run.Violation("C19/done/reattached-waker-never-arrives", fmt.Sprintf("Done on the second sleeper waits forever (G %#x parked) for a waker whose in-flight assertion went elsewhere, although every Assert call has returned", g), i)
			} else {
				run.Inconclusive("done-watchdog")
			}
			return false
		}
	default:
	}
	run.Case(fw.Hash("done", nw, na, h[0]), true)
	run.Count("done_scenarios", 1)
	run.Count("done_asserts_racing", atomic.LoadInt64(&asserts))
	return true
}

var pointNames = map[int]string{9: "load-sharedList", 10: "cas-sharedList", 11: "load-waitingG", 12: "cas-waitingG"}

func reportTouches() {
	for id := 9; id <= 12; id++ {
		if n := atomic.LoadInt64(&touchAfterDone[id]); n > 0 {
			run.Count("touch_after_done:"+pointNames[id], n)
			run.Violation("C19/done/touch-after-done/"+pointNames[id], fmt.Sprintf("a waker reached the '%s' step of enqueueAssertedWaker on a sleeper whose Done had already returned (%d times)", pointNames[id], n), map[string]interface{}{"point": id})
		}
	}
}

// directedDone forces the one schedule in which an asserter has pushed its
// waker but not yet read waitingG when Done returns.
func directedDone() {
	s := new(sleep.Sleeper)
	var w sleep.Waker
	s.AddWaker(&w, 1)
	ch := make(chan struct{})
	holdAt11.Store(ch)
	fin := make(chan struct{})
	go func() { w.Assert(); close(fin) }()
	s.Done() // waits until the waker is in the list, i.e. the asserter is past the push
	doneSet.Store(unsafe.Pointer(s), true)
	holdAt11.Store((chan struct{})(nil))
	close(ch)
	<-fin
	run.Case(fw.Hash("directed-done"), true)
	run.Count("directed_done_scenarios", 1)
}

func TestC19(t *testing.T) {
	sleep.VerifPoint = stressHook
	run = fw.Start("C19", "exploration")
	if fw.IsChild() {
		switch os.Getenv("VERIF_PHASE") {
		case "done":
			directedDone()
			for i := 0; i < fw.N(1500, 60000); i++ {
				if !doneScenario(i) {
					break
				}
			}
			reportTouches()
		default:
			lo, hi := 0, fw.N(24000, 800000)
			fmt.Sscan(os.Getenv("VERIF_RANGE"), &lo, &hi)
			for i := lo; i < hi && run.Violations() < 3; i++ {
				history(i)
			}
		}
		os.Exit(run.Finish("", nil))
	}
	// stress histories: several -race children in parallel (one history at a time per process)
	nchild := 8
	total := fw.N(24000, 800000)
	var wg sync.WaitGroup
	for c := 0; c < nchild; c++ {
		c := c
		wg.Add(1)
		go func() {
			defer wg.Done()
			lo, hi := total*c/nchild, total*(c+1)/nchild
			res := run.RunChild(fw.ChildSpec{Bin: os.Getenv("VERIF_BIN_RACE"), Test: "^TestC19$", Tag: fmt.Sprintf("stress%d", c), Race: true, Anchors: []string{"pkg/sleep/"}, Env: []string{fmt.Sprintf("VERIF_RANGE=%d %d", lo, hi)}, Timeout: time.Duration(fw.N(8, 90)) * time.Minute})
			if !res.Done {
				run.ChildCrashed(res, "C19/stress", fmt.Sprintf("histories %d..%d", lo, hi))
			}
		}()
	}
	wg.Add(1)
	go func() {
		defer wg.Done()
		res := run.RunChild(fw.ChildSpec{Bin: os.Getenv("VERIF_BIN_RACE"), Test: "^TestC19$", Tag: "done", Race: true, Anchors: []string{"pkg/sleep/"}, Env: []string{"VERIF_PHASE=done"}, Timeout: time.Duration(fw.N(8, 90)) * time.Minute})
		if !res.Done {
			run.ChildCrashed(res, "C19/done", "Done scenarios")
		}
	}()
	// controlled mode: schedule enumeration at the verif points with simulated park/ready
	for j := 0; j < 10; j++ {
		j := j
		wg.Add(1)
		go func() {
			defer wg.Done()
			res := run.RunChild(fw.ChildSpec{Bin: os.Getenv("VERIF_BIN_PLAIN"), Test: "^TestC19CS$", Tag: fmt.Sprintf("cs%d", j), Env: []string{fmt.Sprintf("VERIF_RANGE=%d %d", j, j+1)}, Timeout: time.Duration(fw.N(8, 90)) * time.Minute})
			if !res.Done {
				run.ChildCrashed(res, "C19/controlled", j)
			}
		}()
	}
	wg.Wait()
	code := run.Finish("controlled (plain build): fetcher and asserters gated at the 19 verif points of sleep_unsafe.go, park/ready simulated through hooks (the commit is the same compare-and-swap), all schedules of the small programs enumerated depth-first (see exhaustive_programs), capped DFS for the larger ones; verdicts: deadlock with an asserted waker (lost wake-up), goready for a goroutine that is not asleep or twice, touch after Done, per-schedule history against the asserted-flag specification. stress (-race build, real gopark/commitSleep/goready): 1 fetcher (mixing blocking and non-blocking Fetch) against 1-8 goroutines asserting/clearing 1-4 wakers, seeded Gosched/spin/sleep delays injected at the verif points with the prepare->commit and enqueue->read-waitingG windows weighted; every history ends with a stop waker asserted after all asserters returned and a non-blocking drain, and is checked by porcupine against the asserted-flag specification (strict: single asserter per waker; weak: several asserters per waker, where a non-blocking 'nothing' is not judged); lost wake-up decided from state after all Assert calls returned; Done scenarios: Done races with asserters, then the sleeper is overwritten with plain stores (race detector = oracle for any later touch) and the wakers are attached to a new sleeper which must receive their assertions. distinct = distinct call/return interleaving signatures; non-trivial = at least one overlapping pair",
		[]string{"an Assert call that finds its waker already asserted (fast path) performs no assertion of its own; while the first asserter has not finished enqueueing, a non-blocking Fetch may report nothing - counted under the weak model, not judged", "IsAsserted is exercised only by the waker's owning asserter (a third party can observe the flag before the enqueue completes)", "the race detector does not see commitSleep (assembly) nor gopark/goready; ordering is through the package's atomics"})
	os.Exit(code)
}
