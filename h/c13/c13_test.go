package c13

import (
	"bytes"
	"fmt"
	"io"
	"log"
	"os"
	"runtime"
	"sync"
	"sync/atomic"
	"testing"
	"time"

	tcpip "github.com/brewlin/net-protocol/protocol"
	"github.com/brewlin/net-protocol/protocol/network/ipv4"
	"github.com/brewlin/net-protocol/protocol/network/ipv6"
	"github.com/brewlin/net-protocol/stack"
	"verifh/fw"
	"verifh/rawpeer"
	"verifh/rfc"
	"verifh/vt"
	"verifh/wire"
)

var run *fw.Run

type req struct {
	V6     bool   `json:"v6"`
	ID     uint16 `json:"id"`
	Seq    uint16 `json:"seq"`
	Code   uint8  `json:"code"`    // echo requests carry code 0; others are still echo requests to this stack
	BadSum bool   `json:"bad_sum"` // the request's own checksum is wrong (the stack does not verify it)
	Len    int    `json:"payload_len"`
	Dst    string `json:"dst"` // own, own2, foreign, unassigned
	Frags  int    `json:"fragments"`
	View   int    `json:"view_size"`
	Orphan bool   `json:"orphan_first"` // fragmented requests: the fragments of another request from the same host, minus its last one, arrive first (it lost a fragment)
	Pad    int    `json:"link_padding"` // bytes the link appended behind the IP packet (Ethernet minimum frame size and the like)
}

type host struct {
	h    *wire.Host
	mu   sync.Mutex
	out  []*wire.Frame
	gate chan struct{} // when non-nil WritePacket blocks on it (stalled transmit path)
}

var own2v4 = tcpip.Address("\x0a\x00\x00\x07")
var own2v6 = tcpip.Address("\xfd\x00\x00\x00\x00\x00\x00\x00\x00\x00\x00\x00\x00\x00\x00\x07")

func newHost(caps stack.LinkEndpointCapabilities) *host {
	h, err := wire.NewHost(wire.HostCfg{Name: "E", MTU: 1500, Caps: caps, V4: []tcpip.Address{wire.AddrA4, own2v4}, V6: []tcpip.Address{wire.AddrA6, own2v6}})
	if err != nil {
		run.Broken("harness: " + err.Error())
		return nil
	}
	x := &host{h: h}
	h.L.AddTap(func(f *wire.Frame) {
		x.mu.Lock()
		g := x.gate
		x.mu.Unlock()
		if g != nil {
			<-g
		}
		x.mu.Lock()
		x.out = append(x.out, f)
		x.mu.Unlock()
	})
	return x
}

func (x *host) take() []*wire.Frame {
	x.mu.Lock()
	defer x.mu.Unlock()
	r := x.out
	x.out = nil
	return r
}

func a4(a tcpip.Address) (r [4]byte)   { copy(r[:], a); return }
func a16(a tcpip.Address) (r [16]byte) { copy(r[:], a); return }

func payload(id, seq uint16, n int) []byte {
	b := make([]byte, n)
	for i := range b {
		b[i] = byte(i*13) ^ byte(id) ^ byte(seq>>3)
	}
	return b
}

func dstOf(q req) ([4]byte, [16]byte, bool) {
	switch q.Dst {
	case "own":
		return a4(wire.AddrA4), a16(wire.AddrA6), true
	case "own2":
		return a4(own2v4), a16(own2v6), true
	case "foreign":
		return [4]byte{10, 0, 0, 99}, a16("\xfd\x00\x00\x00\x00\x00\x00\x00\x00\x00\x00\x00\x00\x00\x00\x63"), false
	}
	return [4]byte{192, 168, 7, 7}, a16("\xfd\x77\x00\x00\x00\x00\x00\x00\x00\x00\x00\x00\x00\x00\x00\x01"), false
}

var src4 = [4]byte{10, 0, 0, 2}
var src6 = a16(wire.AddrB6)

func (x *host) send(q req, r *fw.Rand) {
	d4, d6, _ := dstOf(q)
	pl := payload(q.ID, q.Seq, q.Len)
	m := rfc.ICMP{Code: q.Code, Rest: [4]byte{byte(q.ID >> 8), byte(q.ID), byte(q.Seq >> 8), byte(q.Seq)}, Payload: pl}
	x.h.L.ViewSize = q.View
	defer func() { x.h.L.ViewSize = 0 }()
	pad := func(b []byte) []byte {
		for i := 0; i < q.Pad; i++ {
			b = append(b, byte(0xa5+i))
		}
		return b
	}
	if q.V6 {
		m.Type = 128
		ip := rfc.IPv6{Next: rfc.ProtoICMPv6, Hop: 64, Src: src6, Dst: d6, Payload: m.BytesV6(src6, d6, true)}
		x.h.L.Inject(ipv6.ProtocolNumber, pad(ip.Bytes(true)), "")
		return
	}
	m.Type = 8
	whole := m.BytesV4(true)
	if q.BadSum {
		whole[2] ^= 0x5a
	}
	if q.Frags <= 1 || len(whole) < 16 {
		ip := rfc.IPv4{TTL: 64, Proto: rfc.ProtoICMP, ID: q.Seq, Src: src4, Dst: d4, Payload: whole}
		x.h.L.Inject(ipv4.ProtocolNumber, pad(ip.Bytes(true)), "")
		return
	}
	if q.Orphan {
		// another request of the same host whose last fragment got lost: other identification,
		// other identifier / sequence number, other payload; it stays incomplete
		om := rfc.ICMP{Type: 8, Rest: [4]byte{byte(^q.ID >> 8), byte(^q.ID), byte(^q.Seq >> 8), byte(^q.Seq)}, Payload: payload(^q.ID, ^q.Seq, q.Len+8)}
		ow := om.BytesV4(true)
		cut := 8 * (1 + (len(ow)/8-1)/2)
		for _, c := range [][2]int{{0, cut}} {
			f := rfc.IPv4{TTL: 64, Proto: rfc.ProtoICMP, ID: q.ID ^ q.Seq ^ 0x4000, Src: src4, Dst: d4, Flags: 1, FragOff: uint16(c[0] / 8), Payload: ow[c[0]:c[1]]}
			x.h.L.Inject(ipv4.ProtocolNumber, f.Bytes(true), "")
		}
	}
	blocks := (len(whole) + 7) / 8
	n := q.Frags
	if n > blocks {
		n = blocks
	}
	var pts []int
	used := map[int]bool{}
	for len(used) < n-1 {
		used[1+r.Intn(blocks-1)] = true
	}
	for b := 1; b < blocks; b++ {
		if used[b] {
			pts = append(pts, b*8)
		}
	}
	pts = append(pts, len(whole))
	var frs [][]byte
	st := 0
	for _, e := range pts {
		f := rfc.IPv4{TTL: 64, Proto: rfc.ProtoICMP, ID: q.ID ^ q.Seq, Src: src4, Dst: d4, FragOff: uint16(st / 8), Payload: whole[st:e]}
		if e < len(whole) {
			f.Flags = 1
		}
		frs = append(frs, f.Bytes(true))
		st = e
	}
	for _, i := range r.Perm(len(frs)) {
		x.h.L.Inject(ipv4.ProtocolNumber, pad(frs[i]), "")
	}
}

type reply struct {
	v6       bool
	id, seq  uint16
	payload  []byte
	src, dst []byte
	err      error
}

func decode(frames []*wire.Frame) (out []reply, other int) {
	for _, f := range frames {
		switch f.Proto {
		case ipv4.ProtocolNumber:
			ip, err := rfc.ParseIPv4(f.Data)
			if err != nil || ip.Proto != rfc.ProtoICMP {
				other++
				continue
			}
			m, err := rfc.ParseICMPv4(ip.Payload)
			if m.Type != 0 {
				other++
				continue
			}
			out = append(out, reply{false, m.ID(), m.Seq(), m.Payload, ip.Src[:], ip.Dst[:], err})
		case ipv6.ProtocolNumber:
			ip, err := rfc.ParseIPv6(f.Data)
			if err != nil || ip.Next != rfc.ProtoICMPv6 {
				other++
				continue
			}
			m, err := rfc.ParseICMPv6(ip.Payload, ip.Src, ip.Dst)
			if m.Type != 129 {
				other++
				continue
			}
			out = append(out, reply{true, m.ID(), m.Seq(), m.Payload, ip.Src[:], ip.Dst[:], err})
		default:
			other++
		}
	}
	return
}

func settle() {
	rawpeer.Settle()
	time.Sleep(time.Millisecond)
	rawpeer.Settle()
}

func judgeOne(x *host, q req, r *fw.Rand) {
	x.take()
	x.send(q, r)
	settle()
	if q.Orphan {
		// let the incomplete request age beyond the reassembly timeout, so that it cannot meet
		// a later datagram with the same identification
		defer time.Sleep(31 * time.Second)
		run.Count("fragmented_requests_behind_an_incomplete_one", 1)
	}
	reps, _ := decode(x.take())
	d4, d6, own := dstOf(q)
	viol := func(key, what string) { run.Violation("C13/"+key, what, q) }
	key := "single"
	if q.View == 1 {
		key = "fdbased-views"
	}
	if q.View > 1 {
		// odd intermediate view sizes: no bundled link produces them; recorded, not judged
		bad := len(reps) != 1
		for _, p := range reps {
			if p.err != nil {
				bad = true
			}
		}
		if bad {
			run.Count("odd_view_sizes_deviation(recorded,not_judged)", 1)
		} else {
			run.Count("odd_view_sizes_ok", 1)
		}
		return
	}
	if !own {
		if len(reps) != 0 {
			viol(key+"/answered-foreign", fmt.Sprintf("echo request addressed to %s address %v/%v (not assigned to the stack) was answered", q.Dst, d4, d6[14:]))
		}
		run.Count("requests_to_foreign_addresses", 1)
		return
	}
	if q.BadSum && len(reps) == 0 {
		run.Count("requests_with_wrong_checksum_not_answered", 1)
		return
	}
	if len(reps) != 1 {
		viol(key+"/reply-count", fmt.Sprintf("echo request id=%d seq=%d len=%d v6=%v fragments=%d drew %d replies", q.ID, q.Seq, q.Len, q.V6, q.Frags, len(reps)))
		return
	}
	p := reps[0]
	wantSrc, wantDst := d4[:], src4[:]
	if q.V6 {
		wantSrc, wantDst = d6[:], src6[:]
	}
	if p.err != nil {
		viol(key+"/checksum", fmt.Sprintf("echo reply to id=%d seq=%d len=%d v6=%v: %v", q.ID, q.Seq, q.Len, q.V6, p.err))
		return
	}
	if p.id != q.ID || p.seq != q.Seq || !bytes.Equal(p.payload, payload(q.ID, q.Seq, q.Len)) {
		viol(key+"/not-mirrored", fmt.Sprintf("request id=%d seq=%d len=%d v6=%v answered with id=%d seq=%d payload %d bytes (equal=%v)", q.ID, q.Seq, q.Len, q.V6, p.id, p.seq, len(p.payload), bytes.Equal(p.payload, payload(q.ID, q.Seq, q.Len))))
		return
	}
	if !bytes.Equal(p.src, wantSrc) || !bytes.Equal(p.dst, wantDst) {
		viol(key+"/addressing", fmt.Sprintf("reply sent %v>%v; the request was %v>%v", p.src, p.dst, wantDst, wantSrc))
		return
	}
	run.Count("replies_verified", 1)
}

// jitter is a log writer that makes a PRNG share of the stack's log lines yield the
// processor (it never sleeps: the logger's mutex is held while it runs).
type jitter struct {
	seed uint64
	n    uint64
}

func (j *jitter) Write(b []byte) (int, error) {
	z := (j.seed + atomic.AddUint64(&j.n, 1)) * 0x9E3779B97F4A7C15
	z ^= z >> 29
	if z%4 == 0 {
		for i := uint64(0); i < 20+z>>40%400; i++ {
			runtime.Gosched()
		}
	}
	return len(b), nil
}

func child(t *testing.T) {
	var lo, hi int
	fmt.Sscan(os.Getenv("VERIF_RANGE"), &lo, &hi)
	vt.Bubble(t, func() {
		// every third process runs on a link whose hardware fills in TCP and UDP checksums (the
		// transports then leave theirs out); ICMP is not covered by such offload: echo replies
		// must carry their checksum all the same
		var caps stack.LinkEndpointCapabilities
		if os.Getenv("VERIF_OFFLOAD") == "1" {
			caps = stack.CapabilityChecksumOffload
			run.Count("processes_on_a_checksum_offload_link", 1)
		}
		x := newHost(caps)
		if x == nil {
			os.Exit(run.Finish("", nil))
		}
		per := 40
		for k := lo; k < hi && run.Violations() < 4; k++ {
			r := fw.NewRand(run.Seed, "C13", "batch", k)
			// (a) one at a time
			for i := 0; i < per; i++ {
				n := k*per + i
				q := req{V6: n%3 == 2, ID: uint16(n * 257), Seq: uint16(n*31 + n>>8)}
				if i%8 == 0 {
					q.ID = []uint16{0, 1, 0x7fff, 0x8000, 0xfffe, 0xffff}[r.Intn(6)]
					q.Seq = []uint16{0, 1, 0x00ff, 0x0100, 0xffff}[r.Intn(5)]
				}
				switch r.Intn(5) {
				case 0:
					q.Len = n % 1473 // every length up to the MTU over the sweep
				case 1:
					q.Len = r.Intn(64)
				case 2:
					q.Len = 1472 - r.Intn(3)
				default:
					q.Len = r.Intn(1473)
				}
				if q.V6 && q.Len > 1452 {
					q.Len = 1452
				}
				q.Dst = []string{"own", "own", "own", "own2", "own2", "foreign", "unassigned"}[r.Intn(7)]
				if !q.V6 && r.Chance(1, 4) {
					q.Frags = 2 + r.Intn(4)
					q.Len = 64 + r.Intn(4000) // fragmented requests may exceed the MTU as a whole
					q.Orphan = r.Chance(1, 3)
				}
				if !q.V6 && r.Chance(1, 10) {
					if r.Bool() {
						q.Code = []uint8{1, 3, 255}[r.Intn(3)]
					} else {
						q.BadSum = true
					}
				}
				if r.Chance(1, 6) {
					q.Pad = []int{1, 2, 1 + r.Intn(20), 1 + r.Intn(20), 18, 46, 1 + r.Intn(200)}[r.Intn(7)]
				}
				if r.Chance(1, 12) && q.Frags == 0 {
					q.View = []int{1, 1, 129, 255}[r.Intn(4)] // 1 = the fd-based link's buffer layout; odd sizes are recorded only
				}
				judgeOne(x, q, r)
				run.Case(fw.Hash(q.V6, q.Dst, q.Len/64, q.Frags, q.View, q.ID>>12, q.Seq>>12), true)
				if k == lo && i < 2 {
					run.Sample(q)
				}
			}
			// (b) bursts: fewer than ten pending => all answered; replies are a sub-multiset of requests
			for _, burst := range []int{9, 50} {
				x.take()
				type key struct {
					v6      bool
					id, seq uint16
				}
				sent := map[key]int{}
				for i := 0; i < burst; i++ {
					q := req{V6: i%4 == 3, ID: uint16(k), Seq: uint16(burst*100 + i), Len: r.Intn(300), Dst: "own"}
					sent[key{q.V6, q.ID, q.Seq}] = q.Len
					x.send(q, r)
					if burst == 9 {
						continue
					}
				}
				settle()
				reps, _ := decode(x.take())
				got := map[key]int{}
				for _, p := range reps {
					kk := key{p.v6, p.id, p.seq}
					ln, ok := sent[kk]
					if !ok {
						run.Violation("C13/burst/unsolicited-reply", fmt.Sprintf("echo reply id=%d seq=%d v6=%v does not correspond to any request", p.id, p.seq, p.v6), nil)
						continue
					}
					got[kk]++
					if got[kk] > 1 {
						run.Violation("C13/burst/duplicate-reply", fmt.Sprintf("request id=%d seq=%d answered %d times", p.id, p.seq, got[kk]), nil)
					}
					if p.err != nil || len(p.payload) != ln {
						run.Violation("C13/burst/bad-reply", fmt.Sprintf("reply id=%d seq=%d: %v, payload %d (sent %d)", p.id, p.seq, p.err, len(p.payload), ln), nil)
					}
				}
				if burst == 9 && len(got) != burst {
					run.Violation("C13/burst/unanswered-under-ten", fmt.Sprintf("%d requests pending at once (fewer than ten) but only %d were answered", burst, len(got)), nil)
				}
				run.Count(fmt.Sprintf("burst%d_replies", burst), int64(len(got)))
			}
			// (b2) requests injected by several goroutines at the same instant, with the
			// stack's own log lines turned into pre-emption points (the writer yields the
			// processor a PRNG number of times): receive path and replier interleave in many
			// orders. Two to four pending, so every one must be answered by quiescence.
			log.SetOutput(&jitter{seed: uint64(run.Seed)*1000003 + uint64(k)})
			for round := 0; round < 12 && run.Violations() < 4; round++ {
				x.take()
				n := 2 + r.Intn(3)
				start := make(chan struct{})
				var wg sync.WaitGroup
				for i := 0; i < n; i++ {
					q := req{V6: r.Chance(1, 4), ID: uint16(0x4000 + k), Seq: uint16(round*8 + i), Len: r.Intn(64), Dst: "own"}
					wg.Add(1)
					go func() {
						defer wg.Done()
						<-start
						x.send(q, nil)
					}()
				}
				close(start)
				wg.Wait()
				settle()
				reps, _ := decode(x.take())
				seen := map[uint16]int{}
				for _, p := range reps {
					seen[p.seq]++
				}
				for i := 0; i < n; i++ {
					if c := seen[uint16(round*8+i)]; c != 1 {
						run.Violation("C13/concurrent/reply-count", fmt.Sprintf("%d echo requests arrived at the same instant on different goroutines (fewer than ten pending): request seq=%d drew %d replies by the time the stack was idle again", n, round*8+i, c), nil)
						break
					}
				}
				run.Count("concurrent_rounds", 1)
			}
			log.SetOutput(io.Discard)
			// (c) stalled transmit path, queue overflow, then an address is removed: it must not be answered any more
			if k%4 == 0 {
				g := make(chan struct{})
				x.mu.Lock()
				x.gate = g
				x.mu.Unlock()
				for i := 0; i < 30; i++ {
					x.send(req{ID: 9, Seq: uint16(i), Len: 8, Dst: "own2"}, r)
				}
				x.mu.Lock()
				x.gate = nil
				x.mu.Unlock()
				close(g)
				settle()
				x.take()
				if e := x.h.S.RemoveAddress(1, own2v4); e != nil {
					run.Broken("harness: RemoveAddress: " + e.String())
				}
				x.send(req{ID: 10, Seq: 1, Len: 8, Dst: "own2"}, r)
				settle()
				reps, _ := decode(x.take())
				if len(reps) != 0 {
					run.Violation("C13/answers-removed-address", fmt.Sprintf("after the address %v was removed from the interface an echo request to it was still answered (%d replies)", []byte(own2v4), len(reps)), nil)
				}
				x.h.S.AddAddress(1, ipv4.ProtocolNumber, own2v4)
				run.Count("remove_address_rounds", 1)
			}
		}
		os.Exit(run.Finish("", nil))
	})
}

func TestC13(t *testing.T) {
	log.SetOutput(io.Discard)
	run = fw.Start("C13", "exploration")
	if fw.IsChild() {
		child(t)
		return
	}
	n := fw.N(800, 120000) // batches of 40 single requests + bursts
	nchild := 16
	var wg sync.WaitGroup
	for c := 0; c < nchild; c++ {
		c := c
		wg.Add(1)
		go func() {
			defer wg.Done()
			tag := fmt.Sprintf("vt%d", c)
			res := run.RunChild(fw.ChildSpec{Bin: os.Getenv("VERIF_BIN_VT"), Test: "^TestC13$", Tag: tag, Env: []string{fmt.Sprintf("VERIF_RANGE=%d %d", n*c/nchild, n*(c+1)/nchild), fmt.Sprintf("VERIF_OFFLOAD=%d", c%3)}, Timeout: time.Duration(fw.N(10, 90)) * time.Minute})
			if !res.Done {
				run.ChildCrashed(res, "C13", tag)
			}
		}()
	}
	wg.Wait()
	code := run.Finish("echo requests built by the independent codec are injected one at a time into a real stack in virtual time and the tap is read after quiescence: exactly one reply, from the pinged address to the requester, with the same identifier, sequence number and payload and a verifying checksum (IPv4: RFC 1071 over the message; IPv6: with pseudo-header); identifiers and sequence numbers sweep the 16-bit space in strides plus boundaries, payload lengths cover every length 0..MTU over the sweep, IPv4 requests also arrive as 2-5 fragments in any order (payloads up to 4 KiB); destinations: first and second own address, an on-link foreign address, an unassigned address (no reply allowed). Bursts of 9 (all must be answered) and 50 (replies must be a sub-multiset of requests, each at most once). Stalled-transmit overflow followed by removal of the pinged address (must fall silent). A labelled sub-case delivers the request in several odd-sized views. distinct = (family, destination class, length bucket, fragments, view size, id/seq class) Later additions: Requests with 1-200 bytes of link padding; every third child on a checksum-offload link. Fragmented requests behind the incomplete fragments of another request of the same host.",
		[]string{"replies are attributed by (family, id, seq); payloads are id/seq-coded", "the ICMPv4 reply is produced by a separate goroutine: the bubble is quiesced before the tap is read"})
	os.Exit(code)
}
