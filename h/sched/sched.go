// Package sched is a schedule controller for code instrumented with
// verif schedule points: workers run one at a time, between points, in an
// order chosen by a decision sequence that a depth-first search enumerates.
package sched

import (
	"fmt"
)

type abortT struct{}

// Abort is the sentinel panic used to unwind workers of an abandoned execution.
var Abort = abortT{}

type Worker struct {
	ID    int
	Point int         // schedule point the worker is parked at (0 = not started)
	Obj   interface{} // object reported at the point
	Done  bool
	Data  interface{} // property-specific per-worker state
	next  chan bool   // grant (true = abort)
	prog  func(w *Worker)
	c     *Ctl
}

type Ctl struct {
	Workers  []*Worker
	cur      *Worker
	announce chan struct{}
	// Enabled reports whether the worker parked at its point can take a step
	// without blocking. Called only while every worker is parked.
	Enabled func(w *Worker) bool
	// AfterStep is called after every step with all workers parked (invariants,
	// state hashing). Returning a non-empty string ends the execution as a violation.
	AfterStep func(c *Ctl, stepped *Worker) string
}

func New(progs []func(w *Worker)) *Ctl {
	c := &Ctl{announce: make(chan struct{})}
	for i, p := range progs {
		w := &Worker{ID: i, next: make(chan bool), prog: p, c: c}
		c.Workers = append(c.Workers, w)
	}
	return c
}

// Yield is called (from the hook) by the worker that is currently running.
func (c *Ctl) Yield(point int, obj interface{}) {
	w := c.cur
	w.Point, w.Obj = point, obj
	c.announce <- struct{}{}
	if abort := <-w.next; abort {
		panic(Abort)
	}
}

// Cur returns the running worker (valid inside worker code).
func (c *Ctl) Cur() *Worker { return c.cur }

type Result struct {
	Decisions []int  // choice index taken at each step
	Widths    []int  // number of enabled workers at each step
	Deadlock  bool   // no enabled worker while some were unfinished
	Violation string // from AfterStep or a worker panic
	Steps     int
	Truncated bool // step bound hit
}

// Run executes once. choose(step, n) picks among n enabled workers.
func (c *Ctl) Run(choose func(step, n int) int, maxSteps int) (res Result) {
	for _, w := range c.Workers {
		w := w
		go func() {
			defer func() {
				if r := recover(); r != nil {
					if _, ok := r.(abortT); !ok {
						res.Violation = fmt.Sprintf("worker %d panicked: %v", w.ID, r)
					}
				}
				w.Done = true
				c.announce <- struct{}{}
			}()
			if abort := <-w.next; abort {
				panic(Abort)
			}
			w.prog(w)
		}()
	}
	for {
		var en []*Worker
		unfinished := 0
		for _, w := range c.Workers {
			if w.Done {
				continue
			}
			unfinished++
			if w.Point == 0 || c.Enabled == nil || c.Enabled(w) {
				en = append(en, w)
			}
		}
		if unfinished == 0 {
			return res
		}
		stop := false
		if len(en) == 0 {
			res.Deadlock = true
			stop = true
		} else if res.Steps >= maxSteps {
			res.Truncated = true
			stop = true
		} else if res.Violation != "" {
			stop = true
		}
		if stop {
			for _, w := range c.Workers {
				if !w.Done {
					c.cur = w
					w.next <- true
					<-c.announce
				}
			}
			return res
		}
		k := choose(res.Steps, len(en))
		res.Decisions = append(res.Decisions, k)
		res.Widths = append(res.Widths, len(en))
		res.Steps++
		w := en[k]
		c.cur = w
		w.next <- false
		<-c.announce
		if c.AfterStep != nil && res.Violation == "" {
			if v := c.AfterStep(c, w); v != "" {
				res.Violation = v
			}
		}
	}
}

// DFS enumerates decision sequences depth-first by replay. mk builds a fresh
// controller (fresh objects) for every execution. visit is called after each
// execution; returning false stops the search. prefix pins the first choices
// (used to partition the tree between parallel explorers).
func DFS(mk func() *Ctl, prefix []int, maxSteps int, maxExecs int64, visit func(Result) bool) (execs int64, complete bool) {
	stack := append([]int(nil), prefix...)
	for {
		c := mk()
		res := c.Run(func(step, n int) int {
			if step < len(stack) {
				if stack[step] >= n {
					return n - 1 // should not happen for a deterministic program
				}
				return stack[step]
			}
			return 0
		}, maxSteps)
		execs++
		if !visit(res) {
			return execs, false
		}
		if maxExecs > 0 && execs >= maxExecs {
			return execs, false
		}
		// backtrack: deepest position beyond the prefix with an untried alternative
		d := res.Decisions
		w := res.Widths
		i := len(d) - 1
		for ; i >= len(prefix); i-- {
			if d[i]+1 < w[i] {
				break
			}
		}
		if i < len(prefix) {
			return execs, true
		}
		stack = append(append([]int(nil), d[:i]...), d[i]+1)
	}
}

// Prefixes enumerates all decision prefixes of the given depth (for
// partitioning a DFS between parallel explorers).
func Prefixes(mk func() *Ctl, depth int, maxSteps int) [][]int {
	var out [][]int
	seen := map[string]bool{}
	DFS(func() *Ctl { return mk() }, nil, depth, 0, func(r Result) bool {
		d := r.Decisions
		if len(d) > depth {
			d = d[:depth]
		}
		k := fmt.Sprint(d)
		if !seen[k] {
			seen[k] = true
			out = append(out, append([]int(nil), d...))
		}
		return true
	})
	return out
}
