package c05

import (
	"runtime"
	"fmt"
	"io"
	"log"
	"os"
	"sync"
	"testing"
	"time"

	tcpip "github.com/brewlin/net-protocol/protocol"
	"github.com/brewlin/net-protocol/stack"
	"verifh/fw"
	"verifh/rawpeer"
	"verifh/rfc"
	"verifh/tcpx"
	"verifh/vt"
)

var run *fw.Run
var debugProbe bool

type cfg struct {
	K           int    `json:"k"`
	Kind        string `json:"kind"` // silent, fastrexmit, cwnd
	CC          string `json:"cc"`
	V6          bool   `json:"v6"`
	Active      bool   `json:"active"`
	MSS         uint16 `json:"mss"`
	TS          bool   `json:"ts"`
	SACK        bool   `json:"sack"`
	Flight      int    `json:"flight"`       // segments written
	Lost        int    `json:"lost"`         // index of the lost segment (fastrexmit)
	AckFirst    int    `json:"ack_first"`    // segments acknowledged before the silence
	RTTus       int    `json:"rtt_us"`       // peer delays its ACKs by this much
	PartialAcks bool   `json:"partial_acks"` // ACKs that fall inside segments (ack division)
	DupAcks     int    `json:"dup_acks"`
	Burst       bool   `json:"burst"` // the three duplicate ACKs are identical and arrive back to back
	OwnISS      uint32 `json:"own_iss"`
	LateMs      int    `json:"late_ms"`    // latewrite: pause between the ACK and the second write
	Shutdown    bool   `json:"shutdown"`   // silent: the write side is shut down right after the write (a FIN is queued behind the data)
	StaleICMP   int    `json:"stale_icmp"` // ICMP fragmentation-needed reports naming an MTU not below the current one, right after the first flight
}

func gen(seed int64, k int) cfg {
	r := fw.NewRand(seed, "C05", "cfg", k)
	c := cfg{K: k, V6: r.Chance(1, 5), Active: r.Chance(1, 3), TS: r.Bool(), SACK: r.Bool()}
	c.Kind = []string{"silent", "fastrexmit", "fastrexmit", "cwnd", "silent", "fastrexmit", "fastrexmit", "cwnd", "latewrite"}[r.Intn(9)]
	c.CC = "reno"
	if r.Chance(1, 4) {
		c.CC = "cubic"
	}
	c.MSS = []uint16{536, 1000, 1200, 100}[r.Intn(4)]
	c.Flight = 1 + r.Intn(64)
	c.RTTus = []int{0, 997, 10007, 50021, 200003, 700001, 2000003}[r.Intn(7)]
	c.OwnISS = []uint32{r.U32(), 1<<32 - 1000, 1<<31 - 1000}[r.Intn(3)]
	switch c.Kind {
	case "silent":
		if c.Flight > 20 {
			c.Flight = 1 + r.Intn(20)
		}
		c.AckFirst = r.Intn(c.Flight)
	case "fastrexmit":
		if c.Flight < 5 {
			c.Flight = 5 + r.Intn(20)
		}
		if c.Flight > 10 && r.Bool() {
			c.Flight = 5 + r.Intn(6) // whole flight fits the initial window
		}
		c.Lost = r.Intn(c.Flight - 4)
		if r.Chance(1, 3) {
			c.Lost = 0
		}
		c.DupAcks = 3 + r.Intn(4)
		c.Burst = r.Chance(1, 3)
	case "cwnd":
		c.Flight = 20 + r.Intn(200)
		c.PartialAcks = r.Chance(1, 2)
	case "latewrite":
		c.Flight = 1 + r.Intn(3)
		c.RTTus = []int{0, 50000, 300000, 600000}[r.Intn(4)]
		c.LateMs = []int{100, 400, 600, 800, 900, 1100}[r.Intn(6)]
	}
	c.Shutdown = c.Kind == "silent" && r.Chance(1, 3)
	if r.Chance(1, 4) {
		c.StaleICMP = 1 + r.Intn(4)
	}
	return c
}

type txRec struct {
	t   time.Duration
	rel int64
	n   int
}

func scenario(c cfg) {
	r := fw.NewRand(int64(c.K), "C05", "run")
	h, err := rawpeer.NewHost(1500, c.SACK, c.CC)
	if err != nil {
		run.Broken("harness: " + err.Error())
		return
	}
	p := rawpeer.New(h, c.V6)
	if debugProbe {
		h.S.AddTCPProbe(func(st stack.TCPEndpointState) {
			x := st.Sender
			fmt.Printf("probe: una=%d nxt=%d cwnd=%d out=%d sndwnd=%d dupack=%d fr=%v last=%d\n", uint32(x.SndUna), uint32(x.SndNxt), x.SndCwnd, x.Outstanding, x.SndWnd, x.DupAckCount, x.FastRecovery.Active, uint32(x.FastRecovery.Last))
		})
	}
	own := c.OwnISS
	conn, emsg := p.Establish(rawpeer.EstOpts{Active: c.Active, LPort: 80, PPort: uint16(20000 + c.K%20000), PeerISS: r.U32(), OwnISS: &own, MSS: c.MSS, WS: 7, TS: c.TS, SACK: c.SACK, Window: 65535})
	if conn == nil {
		if len(emsg) > 8 && emsg[:8] == "harness:" {
			run.Broken(emsg)
		}
		return
	}
	defer conn.Close()
	mss := int64(c.MSS)
	if conn.TSok {
		mss -= 12 // the timestamp option is carved out of the MSS
	}
	var trace []string
	tr := func(f string, a ...interface{}) {
		if len(trace) < 300 {
			trace = append(trace, fmt.Sprintf(f, a...))
		}
	}
	bad := false
	viol := func(key, what string) {
		if !bad {
			run.Violation("C05/"+key, what, map[string]interface{}{"cfg": c, "conn": conn.String(), "trace": trace})
		}
		bad = true
	}
	total := int64(c.Flight) * mss
	buf := make([]byte, total)
	for i := range buf {
		buf[i] = tcpx.PByte(uint64(c.K), 0, int64(i))
	}
	// ---- bookkeeping over everything the stack emits
	var log []txRec
	lastTx := map[int64]time.Duration{} // segment start -> last transmission time
	firstTx := map[int64]bool{}
	var highestAck int64 // cumulative ack delivered to the stack
	var dupAcksDelivered int
	var acksDelivered int
	// end -> smallest start of every distinct segment seen. Keyed by the end: after an ACK
	// that falls inside a segment the remainder is retransmitted from a new start, which is
	// still the same segment (the stack never re-segments), not one more in flight.
	segEnds := map[int64]int64{}
	inflight := func() int {
		n := 0
		for en, st := range segEnds {
			if en > highestAck && st >= 0 {
				n++
			}
		}
		return n
	}
	segsAcked := func() int {
		n := 0
		for en := range segEnds {
			if en <= highestAck {
				n++
			}
		}
		return n
	}
	var maxEnd int64
	timeoutDuringAcks := false
	note := func(segs []rawpeer.Seg, ctx string) (data []txRec) {
		for _, s := range segs {
			if s.Err != nil || (len(s.Payload) == 0 && !s.Has(rfc.FIN)) {
				continue
			}
			rel := conn.RelSeq(s, maxEnd)
			if len(s.Payload) == 0 {
				// a bare FIN is a segment too: one unit of sequence space
				if _, ok := segEnds[rel+1]; !ok {
					segEnds[rel+1] = rel
				}
				if acksDelivered == 0 {
					if n := len(segEnds); n > 10 {
						viol("initial-window", fmt.Sprintf("%s: %d distinct segments (the last one a FIN) sent before the first ACK (limit 10)", ctx, n))
					}
				}
				continue
			}
			rec := txRec{s.T, rel, len(s.Payload)}
			log = append(log, rec)
			data = append(data, rec)
			if !firstTx[rel] {
				firstTx[rel] = true
			}
			if st, ok := segEnds[rel+int64(len(s.Payload))]; !ok || rel < st {
				segEnds[rel+int64(len(s.Payload))] = rel
			}
			if e := rel + int64(len(s.Payload)); e > maxEnd {
				maxEnd = e
			}
			// congestion-window clauses, evaluated at every emission
			if acksDelivered == 0 {
				if n := len(segEnds); n > 10 {
					viol("initial-window", fmt.Sprintf("%s: %d distinct segments sent before the first ACK (limit 10)", ctx, n))
				}
			}
			if c.CC == "reno" {
				if f, lim := inflight(), 10+segsAcked()+dupAcksDelivered; f > lim {
					viol("reno-window-exceeded", fmt.Sprintf("%s: %d segments in flight; 10 + %d segments acknowledged + %d duplicate ACKs = %d", ctx, f, segsAcked(), dupAcksDelivered, lim))
				}
			}
			run.Count("emissions_checked", 1)
		}
		return
	}
	sendAck := func(ack int64, sack [][2]uint32, kind string) []txRec {
		if c.RTTus > 0 {
			time.Sleep(time.Duration(c.RTTus) * time.Microsecond)
			rawpeer.Settle()
			for _, d := range note(conn.Take(), "while the ACK was in flight") {
				if d.rel <= highestAck {
					timeoutDuringAcks = true // the retransmission timer beat the ACKs: not a fast-retransmit situation
				}
			}
		}
		var extra []byte
		if len(sack) > 0 && conn.SACKok {
			extra = append([]byte{1, 1}, rfc.OptSACK(sack)...)
		}
		// count BEFORE delivery: the bound is over ACKs 'received so far' incl. this one
		if ack > highestAck {
			highestAck = ack
		} else if ack == highestAck && maxEnd > highestAck {
			dupAcksDelivered++
		}
		acksDelivered++
		conn.Send(0, ack, rfc.ACK, 65535, nil, extra)
		segs := conn.Take()
		tr("%s ack=%d sack=%v -> %d segments", kind, ack, sack, len(segs))
		return note(segs, "after "+kind)
	}

	if c.Active {
		// after an active open the last window the stack saw is the SYN-ACK's unscaled one; the
		// peer's first scaled advertisement is by definition a window update, not a duplicate.
		// Let the peer make that advertisement before any data is outstanding.
		conn.Send(0, 0, rfc.ACK, 65535, nil, nil)
		conn.Take()
	}
	got, _, werr := conn.EP.Write(tcpip.SlicePayload(buf), tcpip.WriteOptions{})
	if c.Shutdown {
		conn.EP.Shutdown(tcpip.ShutdownWrite)
	}
	rawpeer.Settle()
	first := note(conn.Take(), "after Write")
	tr("write %d (accepted %d, %v) -> %d segments", total, got, werr, len(first))
	if len(first) == 0 {
		run.Count("no_data_emitted", 1)
		return
	}
	for _, d := range first {
		lastTx[d.rel] = d.t
	}
	if c.StaleICMP > 0 {
		// a router repeats itself: "fragmentation needed" / "packet too big" reports naming the
		// MTU the connection uses already (or a larger one). Nothing changes for the path and
		// nothing in flight is known to be lost, so nothing may be sent because of them - now
		// or when the next event makes the sender look at its queue again.
		for i := 0; i < c.StaleICMP; i++ {
			conn.FragNeeded(first[r.Intn(len(first))].rel, 1500+(i%2)*500, uint16(i))
		}
		segs := conn.Take()
		tr("%d ICMP reports that do not lower the path MTU -> %d segments", c.StaleICMP, len(segs))
		for _, d := range note(segs, "after ICMP reports that do not lower the path MTU") {
			lastTx[d.rel] = d.t
		}
		run.Count("stale_icmp_reports", int64(c.StaleICMP))
	}
	absSeg := func(i int) int64 { return int64(i) * mss }

	switch c.Kind {
	case "silent":
		if c.AckFirst > 0 && int64(c.AckFirst)*mss <= maxEnd {
			for _, d := range sendAck(absSeg(c.AckFirst), nil, "cumulative ACK") {
				lastTx[d.rel] = d.t
			}
		}
		una := highestAck
		// the peer goes silent
		t0 := time.Duration(0)
		for _, d := range log {
			if d.t > t0 {
				t0 = d.t
			}
		}
		base, ok := lastTx[una]
		if !ok {
			// the earliest unacknowledged byte may sit inside a segment (never here), skip
			run.Count("silent_skipped", 1)
			return
		}
		time.Sleep(130 * time.Second)
		rawpeer.Settle()
		segs := conn.Take()
		var rex []txRec
		byInstant := map[time.Duration]int{}
		for _, s := range segs {
			if s.Err == nil && len(s.Payload) > 0 {
				rel := conn.RelSeq(s, maxEnd)
				rex = append(rex, txRec{s.T, rel, len(s.Payload)})
				byInstant[s.T]++
			} else if s.Err == nil && s.Has(rfc.FIN) {
				byInstant[s.T]++ // a FIN sent along with the retransmission is a second segment
			}
		}
		note(segs, "during silence")
		tr("silence: %d retransmissions at %v", len(rex), rex)
		if len(rex) == 0 {
			viol("timeout/no-retransmission", fmt.Sprintf("peer silent for 130 s with bytes from %d unacknowledged: nothing was retransmitted", una))
			return
		}
		prev := base
		var prevGap time.Duration
		for i, x := range rex {
			if x.rel != una {
				viol("timeout/wrong-segment", fmt.Sprintf("timeout retransmission #%d carries stream offset %d, the earliest unacknowledged byte is %d", i+1, x.rel, una))
				return
			}
			gap := x.t - prev
			if gap < 200*time.Millisecond {
				viol("timeout/too-soon", fmt.Sprintf("retransmission #%d of offset %d came %v after its previous transmission (minimum 200 ms)", i+1, una, gap))
				return
			}
			if i > 1 && gap < 2*prevGap {
				viol("timeout/not-doubling", fmt.Sprintf("interval before retransmission #%d is %v, the previous interval was %v (must at least double)", i+1, gap, prevGap))
				return
			}
			prev, prevGap = x.t, gap
		}
		for at, n := range byInstant {
			if n != 1 {
				viol("timeout/more-than-one-segment", fmt.Sprintf("%d data segments emitted at the timeout instant %v while the peer was silent", n, at))
				return
			}
		}
		run.Count("timeout_retransmissions_judged", int64(len(rex)))
	case "fastrexmit":
		if int64(c.Lost+4)*mss > maxEnd {
			run.Count("fastrexmit_flight_not_fully_sent", 1)
			return
		}
		// the peer received segments 0..Lost-1, then Lost is missing, then the rest of the flight
		if c.Lost > 0 {
			for _, d := range sendAck(absSeg(c.Lost), nil, "cumulative ACK") {
				lastTx[d.rel] = d.t
			}
		}
		una := absSeg(c.Lost)
		var sack [][2]uint32
		if c.Burst {
			// three byte-identical duplicate ACKs (no SACK blocks, one timestamp value) arrive back
			// to back: with one processor all three sit in the endpoint's segment queue before its
			// goroutine looks at the first. Each of them is an ACK received; the third must draw
			// the retransmission.
			if c.RTTus > 0 {
				time.Sleep(time.Duration(c.RTTus) * time.Microsecond)
				rawpeer.Settle()
				for _, d := range note(conn.Take(), "while the ACKs were in flight") {
					if d.rel <= highestAck {
						timeoutDuringAcks = true
					}
				}
			}
			for i := 0; i < 3; i++ {
				if una > highestAck {
					highestAck = una
				} else if una == highestAck && maxEnd > highestAck {
					dupAcksDelivered++
				}
				acksDelivered++
			}
			seg := conn.Seg(0, una, rfc.ACK, 65535, nil, nil)
			old := runtime.GOMAXPROCS(1)
			for i := 0; i < 3; i++ {
				conn.P.SendNoSettle(seg)
			}
			runtime.GOMAXPROCS(old)
			rawpeer.Settle()
			rexUna := 0
			for _, d := range note(conn.Take(), "after three identical duplicate ACKs back to back") {
				if d.rel == una {
					rexUna++
				}
			}
			tr("burst of three identical duplicate ACKs ack=%d -> %d retransmissions of that offset", una, rexUna)
			if timeoutDuringAcks {
				run.Count("fastrexmit_skipped_timeout_came_first", 1)
			} else if rexUna == 0 {
				viol("fast-retransmit/missing-after-burst", fmt.Sprintf("three identical duplicate ACKs for offset %d arrived back to back and nothing was retransmitted at that instant (flight %d segments, lost #%d)", una, c.Flight, c.Lost))
				return
			} else {
				run.Count("fast_retransmits_judged", 1)
				run.Count("fast_retransmits_after_a_burst_of_identical_duplicate_acks", 1)
			}
			c.DupAcks = 0
		}
		for i := 1; i <= c.DupAcks && !bad; i++ {
			sack = [][2]uint32{{conn.ISS + 1 + uint32(una+mss), conn.ISS + 1 + uint32(una+int64(i+1)*mss)}}
			tBefore := time.Since(time.Time{}) // unused
			_ = tBefore
			data := sendAck(una, sack, fmt.Sprintf("duplicate ACK #%d", i))
			rexUna := 0
			for _, d := range data {
				if d.rel == una {
					rexUna++
				}
			}
			if i < 3 && rexUna > 0 {
				run.Count("retransmission_before_third_dupack(recorded)", 1)
			}
			if i == 3 && timeoutDuringAcks {
				run.Count("fastrexmit_skipped_timeout_came_first", 1)
				break
			}
			if i == 3 {
				if rexUna == 0 {
					viol("fast-retransmit/missing", fmt.Sprintf("after the third duplicate ACK for offset %d nothing was retransmitted at that instant (flight %d segments, lost #%d)", una, c.Flight, c.Lost))
					return
				}
				run.Count("fast_retransmits_judged", 1)
			}
		}
		// ... and now the fast retransmission is lost too and the peer stays silent: every
		// timeout (the first one fires while fast recovery is still in progress) sends exactly
		// one segment, the earliest unacknowledged one, and the intervals at least double.
		// (The interval between the fast retransmission and the first timeout is recorded,
		// not judged: the timer is not restarted by a fast retransmission.)
		if !bad && !timeoutDuringAcks && c.K%2 == 0 {
			time.Sleep(130 * time.Second)
			rawpeer.Settle()
			segs := conn.Take()
			byInstant := map[time.Duration][]int64{}
			var instants []time.Duration
			for _, s := range segs {
				if s.Err == nil && len(s.Payload) > 0 {
					if _, ok := byInstant[s.T]; !ok {
						instants = append(instants, s.T)
					}
					byInstant[s.T] = append(byInstant[s.T], conn.RelSeq(s, maxEnd))
				}
			}
			note(segs, "silence after the fast retransmission")
			tr("silence after fast retransmit: timeouts at %v", instants)
			if len(instants) == 0 {
				viol("timeout/no-retransmission", fmt.Sprintf("fast retransmission of offset %d lost, peer silent for 130 s: nothing was retransmitted", una))
				return
			}
			for i, at := range instants {
				offs := byInstant[at]
				if len(offs) != 1 {
					viol("timeout/more-than-one-segment", fmt.Sprintf("timeout #%d (at %v, after a fast retransmission that drew no answer): %d data segments at offsets %v while the peer was silent", i+1, at, len(offs), offs))
					return
				}
				if offs[0] != una {
					viol("timeout/wrong-segment", fmt.Sprintf("timeout #%d after a fast retransmission carries stream offset %d, the earliest unacknowledged byte is %d", i+1, offs[0], una))
					return
				}
				if i > 1 && at-instants[i-1] < 2*(instants[i-1]-instants[i-2]) {
					viol("timeout/not-doubling", fmt.Sprintf("interval before timeout #%d is %v, the previous interval was %v (must at least double)", i+1, at-instants[i-1], instants[i-1]-instants[i-2]))
					return
				}
			}
			run.Count("timeouts_after_fast_retransmit_judged", int64(len(instants)))
		}
		// the other half: two more segments of the flight were lost. The peer's ACKs advance to
		// each hole in turn (partial ACKs, 100 ms apart), each hole is retransmitted at once,
		// then the peer goes silent: the last hole is retransmitted by timeout, not sooner than
		// 200 ms after the transmission its partial ACK triggered.
		if !bad && !timeoutDuringAcks && c.K%2 == 1 && c.DupAcks >= 3 && int64(c.Lost+6)*mss <= maxEnd && c.RTTus <= 10007 {
			last := map[int64]time.Duration{}
			for h := 2; h <= 4 && !bad; h += 2 {
				hole := absSeg(c.Lost + h)
				for _, d := range sendAck(hole, nil, fmt.Sprintf("partial ACK up to the hole at segment %d", c.Lost+h)) {
					last[d.rel] = d.t
				}
				if h == 2 {
					time.Sleep(100 * time.Millisecond)
					rawpeer.Settle()
					for _, d := range note(conn.Take(), "between the partial ACKs") {
						last[d.rel] = d.t
					}
				}
			}
			hole := absSeg(c.Lost + 4)
			if t2, ok := last[hole]; ok && !bad {
				time.Sleep(3 * time.Second)
				rawpeer.Settle()
				for _, d := range note(conn.Take(), "silence after two partial ACKs") {
					if d.rel == hole {
						if gap := d.t - t2; gap < 200*time.Millisecond {
							viol("timeout/too-soon", fmt.Sprintf("the segment at offset %d was retransmitted when a partial ACK uncovered it and again, by timeout, %v later (minimum 200 ms); an earlier partial ACK had arrived 100 ms before", hole, gap))
						}
						run.Count("timeouts_after_partial_acks_judged", 1)
						break
					}
				}
			} else if !bad {
				run.Count("partial_ack_did_not_retransmit_the_hole(recorded)", 1)
			}
		}
	case "latewrite":
		// everything is acknowledged (after the configured delay), the application pauses and
		// writes again, then the peer goes silent: whatever is retransmitted, no segment may be
		// sent again sooner than 200 ms after its previous transmission
		if maxEnd < total {
			run.Count("latewrite_flight_not_fully_sent", 1)
			return
		}
		sendAck(total, nil, "cumulative ACK of everything")
		time.Sleep(time.Duration(c.LateMs) * time.Millisecond)
		rawpeer.Settle()
		note(conn.Take(), "pause before the second write")
		more := make([]byte, mss)
		for i := range more {
			more[i] = tcpx.PByte(uint64(c.K), 0, total+int64(i))
		}
		conn.EP.Write(tcpip.SlicePayload(more), tcpip.WriteOptions{})
		rawpeer.Settle()
		var last = map[int64]time.Duration{}
		for _, d := range note(conn.Take(), "after the second write") {
			last[d.rel] = d.t
		}
		tr("second write at %v", last)
		time.Sleep(10 * time.Second)
		rawpeer.Settle()
		nrex := 0
		for _, d := range note(conn.Take(), "silence after the second write") {
			if prev, ok := last[d.rel]; ok {
				nrex++
				if gap := d.t - prev; gap < 200*time.Millisecond {
					viol("timeout/too-soon", fmt.Sprintf("the segment at offset %d, first sent %v after the connection's earlier data had been acknowledged and %d ms of pause, was retransmitted %v after its previous transmission (minimum 200 ms)", d.rel, prev, c.LateMs, gap))
					return
				}
			}
			last[d.rel] = d.t
		}
		if nrex == 0 {
			viol("timeout/no-retransmission", "peer silent for 10 s after the second write: nothing was retransmitted")
			return
		}
		run.Count("latewrite_retransmissions_judged", int64(nrex))
	case "cwnd":
		// the peer acknowledges promptly; sometimes inside segments (ack division)
		for step := 0; step < 400 && highestAck < total && !bad; step++ {
			if maxEnd <= highestAck {
				time.Sleep(300 * time.Millisecond)
				rawpeer.Settle()
				if len(note(conn.Take(), "idle")) == 0 && maxEnd <= highestAck {
					break
				}
			}
			ack := highestAck + mss*int64(1+r.Intn(3))
			if c.PartialAcks && r.Bool() {
				ack = highestAck + 1 + int64(r.Intn(int(mss)))
			}
			if ack > maxEnd {
				ack = maxEnd
			}
			if r.Chance(1, 8) {
				ack = highestAck // a duplicate
			}
			sendAck(ack, nil, "ACK")
		}
		run.Count("cwnd_scenarios", 1)
	}
	run.Case(fw.Hash(c.Kind, c.CC, c.V6, c.Active, c.MSS, c.TS, c.SACK, c.Flight, c.Lost, c.AckFirst, c.RTTus, c.PartialAcks), true)
	if c.K < 2 {
		run.Sample(map[string]interface{}{"cfg": c, "trace": trace})
	}
}

func child(t *testing.T) {
	var lo, hi int
	fmt.Sscan(os.Getenv("VERIF_RANGE"), &lo, &hi)
	vt.Bubble(t, func() {
		for k := lo; k < hi && run.Violations() < 4; k++ {
			scenario(gen(run.Seed, k))
		}
		os.Exit(run.Finish("", nil))
	})
}

func TestC05(t *testing.T) {
	log.SetOutput(io.Discard)
	tcpx.InstallSteering()
	run = fw.Start("C05", "exploration")
	if fw.IsChild() {
		child(t)
		return
	}
	n := fw.N(1600, 60000)
	nchild := 16
	var wg sync.WaitGroup
	for c := 0; c < nchild; c++ {
		c := c
		wg.Add(1)
		go func() {
			defer wg.Done()
			tag := fmt.Sprintf("vt%d", c)
			res := run.RunChild(fw.ChildSpec{Bin: os.Getenv("VERIF_BIN_VT"), Test: "^TestC05$", Tag: tag, Env: []string{fmt.Sprintf("VERIF_RANGE=%d %d", n*c/nchild, n*(c+1)/nchild)}, Timeout: time.Duration(fw.N(10, 90)) * time.Minute})
			if !res.Done {
				run.ChildCrashed(res, "C05", tag)
			}
		}()
	}
	wg.Wait()
	code := run.Finish("scripted raw peer against one real stack in virtual time; the tap is a totally ordered log of (virtual instant, segment). Kinds: 'silent' (flight of 1-20 segments, first j acknowledged, then 130 s of silence: every retransmission must carry the earliest unacknowledged offset, come >= 200 ms after that segment's previous transmission, intervals at least doubling, exactly one data segment per timeout instant); 'fastrexmit' (flight 5-64, segment #l lost at every position incl. the very first, 3-6 duplicate ACKs with/without SACK blocks, ACKs delayed by 0..2 s of virtual RTT: the retransmission must be in the log at the instant the third duplicate ACK is delivered); 'cwnd' (20-220 segments, prompt / duplicate / mid-segment ACKs). At every emission: <= 10 distinct segments before the first ACK; with Reno, segments in flight <= 10 + segments acknowledged + duplicate ACKs delivered so far. Reno and CUBIC, IPv4/IPv6, active/passive, MSS 100..1200, timestamps, SACK, wrap-adjacent ISS. distinct = configuration classes Later additions: One fast-retransmit scenario in three delivers its three duplicate ACKs byte-identical and back to back on one processor (all three sit in the endpoint's queue before its goroutine runs). ICMP fragmentation-needed reports that name the MTU already in use arrive after the first flight: nothing may be sent because of them. Fast-retransmit scenarios continue with two more holes uncovered by partial ACKs 100 ms apart, then silence (200 ms rule for the last hole).",
		[]string{"no timer can fire while the bubble is being quiesced after an injected ACK (time advances by 1 us per step; a coincidence would only make a retransmission look earlier, never later)", "CUBIC is held to the clauses not qualified 'with the default controller'"})
	os.Exit(code)
}
