package tcpx

import (
	crand "crypto/rand"
	"io"
	"runtime"
	"strings"
	"sync"
)

// steerReader replaces crypto/rand.Reader: a 4-byte read issued from the
// active-open path of the TCP handshake (handshake.resetState called from the
// endpoint's main loop) returns the queued ISS; everything else is real
// randomness.
type steerReader struct {
	mu   sync.Mutex
	next *uint32
	real io.Reader
}

func (s *steerReader) Read(b []byte) (int, error) {
	if len(b) == 4 {
		s.mu.Lock()
		v := s.next
		if v != nil {
			pcs := make([]uintptr, 24)
			n := runtime.Callers(2, pcs)
			fr := runtime.CallersFrames(pcs[:n])
			reset, active := false, false
			for {
				f, more := fr.Next()
				if strings.HasSuffix(f.Function, "tcp.(*handshake).resetState") {
					reset = true
				}
				if strings.HasSuffix(f.Function, "tcp.(*endpoint).protocolMainLoop") {
					active = true
				}
				if !more {
					break
				}
			}
			if reset && active {
				s.next = nil
				s.mu.Unlock()
				b[0], b[1], b[2], b[3] = byte(*v), byte(*v>>8), byte(*v>>16), byte(*v>>24)
				return 4, nil
			}
		}
		s.mu.Unlock()
	}
	return s.real.Read(b)
}

// InstallSteering replaces crypto/rand.Reader for this process.
func InstallSteering() {
	sr := &steerReader{real: crand.Reader}
	crand.Reader = sr
	SteerISS = func(v *uint32) {
		sr.mu.Lock()
		x := *v
		sr.next = &x
		sr.mu.Unlock()
	}
}
