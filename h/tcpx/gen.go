package tcpx

import "verifh/fw"

// Gen draws one scenario configuration from the PRNG stream (seed, label, k).
func Gen(seed int64, label string, k int, realTime bool) *Scenario {
	r := fw.NewRand(seed, label, "scenario", k)
	sc := &Scenario{K: k, Seed: r.U64()}
	sc.V6 = r.Chance(1, 3)
	sc.SACK = r.Bool()
	if r.Bool() {
		sc.CC = "cubic"
	} else {
		sc.CC = "reno"
	}
	sc.MTU = []uint32{1500, 1500, 576, 9000, 65535, 1280, 296, 100}[r.Intn(8)]
	if sc.V6 && sc.MTU < 1280 {
		sc.MTU = 1280
	}
	sc.LatencyUs = []int{200, 1000, 5000, 20000, 100000}[r.Intn(5)]
	bufs := []int{0, 0, 4096, 4096, 8192, 20000, 65536, 1 << 20} // the stack's own minimum is 4096
	for i := 0; i < 2; i++ {
		sc.SndBuf[i] = bufs[r.Intn(len(bufs))]
		sc.RcvBuf[i] = bufs[r.Intn(len(bufs))]
	}
	sizes := []int{0, 1, 100, 1448, 5000, 40000, 200000, 1 << 20, 4 << 20}
	maxSize := len(sizes)
	if realTime {
		maxSize = 5
	}
	for d := 0; d < 2; d++ {
		sc.Bytes[d] = sizes[r.Intn(maxSize)]
		if sc.Bytes[d] > 1000 {
			sc.Bytes[d] -= r.Intn(1000)
		}
		// tiny buffers make huge transfers crawl: bound the work
		if (sc.SndBuf[d] > 0 && sc.SndBuf[d] < 1000 || sc.RcvBuf[1-d] > 0 && sc.RcvBuf[1-d] < 1000) && sc.Bytes[d] > 20000 {
			sc.Bytes[d] = 2000 + r.Intn(18000)
		}
		sc.MaxChunk[d] = []int{1, 7, 100, 1448, 4096, 65536, 262144}[r.Intn(7)]
		if sc.MaxChunk[d] < 100 && sc.Bytes[d] > 30000 {
			sc.MaxChunk[d] = 1448
		}
		if r.Chance(1, 4) {
			sc.PaceUs[d] = []int{50, 500, 5000}[r.Intn(3)]
			if sc.Bytes[d] > 200000 {
				sc.PaceUs[d] = 50
			}
		}
		if r.Chance(1, 4) {
			sc.PauseRead[d] = 1 + r.Intn(sc.Bytes[d]+1)
			sc.PauseMs[d] = []int{50, 500, 3000}[r.Intn(3)]
			if r.Chance(1, 3) {
				sc.GrowRcvBuf[d] = []int{16384, 65536, 1 << 20}[r.Intn(3)]
			}
		}
		switch r.Intn(6) {
		case 0: // clean
		case 1:
			sc.Faults[d] = FaultCfg{DropPct: 1 + r.Intn(5)}
		case 2:
			sc.Faults[d] = FaultCfg{DropPct: r.Intn(4), DupPct: 1 + r.Intn(10), DelayPct: 5 + r.Intn(30), MaxDelayMs: 1 + r.Intn(200)}
		case 3:
			sc.Faults[d] = FaultCfg{DelayPct: 20 + r.Intn(60), MaxDelayMs: 1 + r.Intn(50), ReplayPct: r.Intn(5)}
		case 4:
			sc.Faults[d] = FaultCfg{DropPct: 2 + r.Intn(10), Burst: 2 + r.Intn(6), DupPct: r.Intn(5), DelayPct: r.Intn(20), MaxDelayMs: 30, ReplayPct: r.Intn(3)}
		case 5:
			sc.Faults[d] = FaultCfg{DropPct: 10 + r.Intn(15), DupPct: 10, DelayPct: 30, MaxDelayMs: 300, ReplayPct: 5}
			if sc.Bytes[d] > 100000 {
				sc.Bytes[d] = 100000
			}
		}
		if r.Chance(1, 4) {
			sc.Faults[d].RefusePct = 1 + r.Intn(3)
		}
	}
	// initial sequence numbers: random, or placed so that the stream crosses 2^31 / 2^32
	place := func(total, rcvbuf int) *uint32 {
		if rcvbuf == 0 {
			rcvbuf = 1 << 20 // the stack's default
		}
		var target uint32
		switch r.Intn(4) {
		case 0:
			return nil
		case 1:
			target = 1 << 31
		default:
			target = 0 // 2^32
		}
		delta := uint32(1 + r.Intn(total+2))
		switch r.Intn(3) {
		case 0:
			delta = uint32(1 + r.Intn(3))
		case 1:
			// more than one receive window below the boundary: the window's right edge crosses it
			// later than the connection's first byte does, with the left edge still below
			delta += uint32(rcvbuf)
		}
		v := target - delta
		return &v
	}
	if r.Bool() {
		sc.ISS = place(sc.Bytes[0], sc.RcvBuf[1])
	} else if r.Bool() {
		sc.PassiveISS = place(sc.Bytes[1], sc.RcvBuf[0])
	}
	sc.Close = []string{"AB", "BA", "sim"}[r.Intn(3)]
	if realTime {
		sc.DeadlineS = 25
		if sc.LatencyUs > 5000 {
			sc.LatencyUs = 5000
		}
		for d := 0; d < 2; d++ {
			if sc.Faults[d].DropPct > 5 {
				sc.Faults[d].DropPct = 5
			}
			sc.PauseMs[d] = 50
		}
	}
	return sc
}
