// Package tcpx runs one TCP exchange between two real stacks over the
// adversarial wire and judges it at the API boundary with position-coded
// payloads. It is used inside a synctest bubble (virtual time) and in real time.
package tcpx

import (
	"fmt"
	"github.com/brewlin/net-protocol/pkg/buffer"
	"sync"
	"sync/atomic"
	"time"

	"github.com/brewlin/net-protocol/pkg/waiter"
	tcpip "github.com/brewlin/net-protocol/protocol"
	"github.com/brewlin/net-protocol/protocol/network/ipv4"
	"github.com/brewlin/net-protocol/protocol/network/ipv6"
	"github.com/brewlin/net-protocol/protocol/transport/tcp"
	"github.com/brewlin/net-protocol/stack"
	"verifh/fw"
	"verifh/rfc"
	"verifh/vt"
	"verifh/wire"
)

type FaultCfg struct {
	DropPct    int `json:"drop_pct"`
	DupPct     int `json:"dup_pct"`
	DelayPct   int `json:"delay_pct"`
	MaxDelayMs int `json:"max_delay_ms"`
	ReplayPct  int `json:"replay_pct"` // a stale copy delivered seconds later
	Burst      int `json:"burst"`      // >0: losses come in bursts of this length
	RefusePct  int `json:"refuse_pct"` // the sending link refuses the packet (WritePacket returns an error)
}

// DropRule drops the first Times transmissions of the packet identified by Key.
type DropRule struct {
	Key   string `json:"key"`
	Times int    `json:"times"`
}

// DelayRule holds back the first transmission of the packet identified by Key.
type DelayRule struct {
	Key string `json:"key"`
	Ms  int    `json:"ms"`
}

type Scenario struct {
	K          int         `json:"k"`
	Seed       uint64      `json:"seed"`
	V6         bool        `json:"v6"`
	SACK       bool        `json:"sack"`
	CC         string      `json:"cc"`
	MTU        uint32      `json:"mtu"`
	LatencyUs  int         `json:"latency_us"`
	SndBuf     [2]int      `json:"sndbuf"`
	RcvBuf     [2]int      `json:"rcvbuf"`
	Bytes      [2]int      `json:"bytes"`     // A->B, B->A
	MaxChunk   [2]int      `json:"max_chunk"` // writer chunk bound
	PaceUs     [2]int      `json:"reader_pace_us"`
	PauseRead  [2]int      `json:"reader_pause_after"` // reader of direction d pauses after this many bytes (0 = never)
	PauseMs    [2]int      `json:"reader_pause_ms"`
	GrowRcvBuf [2]int      `json:"grow_rcvbuf,omitempty"` // halfway through its pause the reader of direction d sets its receive buffer to this size
	Faults     [2]FaultCfg `json:"faults"`
	Drops      []DropRule  `json:"drops"`
	Delays     []DelayRule `json:"delays,omitempty"`
	ISS        *uint32     `json:"iss_active"`
	PassiveISS *uint32     `json:"iss_passive"`
	Close      string      `json:"close"` // order of write-side shutdowns: "AB", "BA", "sim", "A-then-data"
	DeadlineS  int         `json:"deadline_s"`
	Probe      bool        `json:"probe,omitempty"` // record the sender state seen by the stack's TCP probe
}

type DirStats struct {
	Offered, Accepted, Read int64
	EOF                     bool
	ReadErr                 string
	WriteErr                string
	Retrans                 int
	OutOfOrder              int
	Dups                    int
	Segments                int
	WrapCross32             bool
	WrapCross31             bool
}

type Result struct {
	Connected             bool
	ConnectErr            string
	Dir                   [2]DirStats
	Mismatch              string // C01 violation description
	PastEOF               string // data after end-of-stream
	Stalled               bool   // neither completed nor failed by the virtual deadline
	Virtual               time.Duration
	Identities            []string  // packet identities in first-transmission order (fault-free enumeration)
	ClosedState           [2]string // "" if the closed-state observables are right
	LastTx                [2]time.Duration
	ActiveISS, PassiveISS uint32
	Frames                int
	FrameErrs             []string
	Errors                [2]string // explicit endpoint errors (ErrorOption / hard errors)
	// window bookkeeping per data direction d (sender = endpoint d): the window field of
	// the last segment the receiver emitted, whether that segment was dropped by the
	// fault plan, and the window field of the last segment actually delivered to the sender
	LastWndEmitted   [2]int
	LastWndDropped   [2]bool
	LastWndDelivered [2]int
	StillActive      bool   // packets were still flowing shortly before the deadline (slow, not stalled)
	Refused          [2]int // packets the sending link refused to take
	LastWndRefused   [2]int // per data direction: window field of the last segment of the receiver that its link refused
	// handshake bookkeeping (until the passive side has handed the connection to Accept):
	// SYN-ACKs emitted by / delivered from the passive side; segments without SYN emitted by
	// the active side, how many of them the fault plan dropped and how many were delivered;
	// whether a SYN-ACK was delivered after the active side's last emission (unanswered).
	Hs struct {
		SynAckEmitted, SynAckDropped, SynAckDelivered int
		ClientEmitted, ClientDropped, ClientDelivered int
		SynAckUnanswered                              bool
	}
	LastSender [2]string // last sender state reported by the TCP probe of host d (diagnosis only)
}

// Payload byte at offset i of direction d.
func PByte(seed uint64, d int, i int64) byte {
	x := uint64(i)*0x9E3779B97F4A7C15 + seed + uint64(d)*0x1234567
	x ^= x >> 29
	return byte(x) ^ byte(x>>17) ^ byte(i>>11)
}

func fill(b []byte, seed uint64, d int, off int64) {
	for i := range b {
		b[i] = PByte(seed, d, off+int64(i))
	}
}

// ISS steering: see DESIGN §1. Steer is installed over crypto/rand.Reader by
// the check's init and hands out the next active-open ISS.
var SteerISS func(v *uint32)

type ep struct {
	e  tcpip.Endpoint
	wq *waiter.Queue
	ch chan struct{}
	we waiter.Entry
}

func newEP(h *wire.Host, v6 bool) (*ep, error) {
	wq := &waiter.Queue{}
	np := ipv4.ProtocolNumber
	if v6 {
		np = ipv6.ProtocolNumber
	}
	e, err := h.S.NewEndpoint(tcp.ProtocolNumber, np, wq)
	if err != nil {
		return nil, fmt.Errorf("NewEndpoint: %v", err)
	}
	x := &ep{e: e, wq: wq}
	x.we, x.ch = waiter.NewChannelEntry(nil)
	wq.EventRegister(&x.we, waiter.EventIn|waiter.EventOut|waiter.EventErr|waiter.EventHUp)
	return x, nil
}

func wrapEP(e tcpip.Endpoint, wq *waiter.Queue) *ep {
	x := &ep{e: e, wq: wq}
	x.we, x.ch = waiter.NewChannelEntry(nil)
	wq.EventRegister(&x.we, waiter.EventIn|waiter.EventOut|waiter.EventErr|waiter.EventHUp)
	return x
}

// Obs watches one direction of the wire.
type Obs struct {
	mu       *sync.Mutex // shared by both directions
	iss      uint32
	haveISS  bool
	seen     map[string]int // identity -> transmissions
	order    []string
	maxEnd   int64 // highest relative sequence end emitted
	lastTx   time.Duration
	st       *DirStats
	dropLeft map[string]int
	delayMs  map[string]int
	expect   int64 // next in-order relative seq at delivery
}

func flagStr(f uint8) string {
	s := ""
	if f&rfc.SYN != 0 {
		s += "S"
	}
	if f&rfc.FIN != 0 {
		s += "F"
	}
	if f&rfc.RST != 0 {
		s += "R"
	}
	if f&rfc.ACK != 0 {
		s += "a"
	}
	return s
}

// decodeTCP returns the TCP segment of a network-layer packet (nil if not TCP).
func DecodeTCP(proto tcpip.NetworkProtocolNumber, data []byte) (*rfc.TCP, error) {
	if proto == ipv4.ProtocolNumber {
		ip, err := rfc.ParseIPv4(data)
		if err != nil {
			return nil, err
		}
		if ip.Proto != rfc.ProtoTCP || ip.FragOff != 0 || ip.Flags&1 != 0 {
			return nil, nil
		}
		t, err := rfc.ParseTCP4(ip.Payload, ip.Src, ip.Dst, true)
		return &t, err
	}
	if proto == ipv6.ProtocolNumber {
		ip, err := rfc.ParseIPv6(data)
		if err != nil {
			return nil, err
		}
		if ip.Next != rfc.ProtoTCP {
			return nil, nil
		}
		t, err := rfc.ParseTCP6(ip.Payload, ip.Src, ip.Dst, true)
		return &t, err
	}
	return nil, nil
}

// Run executes the scenario. sleep/now are the time primitives (virtual inside a bubble).
func Run(sc *Scenario, frameCheck func(dir int, f *wire.Frame) string) Result {
	resv := &Result{}
	res := resv
	var resMu sync.Mutex
	var omu sync.Mutex
	var nframes int64
	snapshot := func() Result {
		omu.Lock()
		resMu.Lock()
		out := *res
		out.Frames = int(atomic.LoadInt64(&nframes))
		out.FrameErrs = append([]string(nil), res.FrameErrs...)
		out.Identities = append([]string(nil), res.Identities...)
		resMu.Unlock()
		omu.Unlock()
		return out
	}
	rng := fw.NewRand(int64(sc.Seed), "tcpx", sc.K)
	lat := time.Duration(sc.LatencyUs) * time.Microsecond
	if lat <= 0 {
		lat = 5 * time.Millisecond
	}
	topo, err := wire.NewTopo(sc.MTU, sc.SACK, sc.CC, lat)
	if err != nil {
		res.ConnectErr = "harness: " + err.Error()
		return snapshot()
	}
	defer topo.Close()
	if sc.Probe {
		for i, h := range []*wire.Host{topo.A, topo.B} {
			i := i
			h.S.AddTCPProbe(func(st stack.TCPEndpointState) {
				x := st.Sender
				m := fmt.Sprintf("una=%d nxt=%d cwnd=%d ssthresh=%d outstanding=%d sndwnd=%d dupack=%d fr=%v[%d,%d] rto=%v closed=%v maxpayload=%d rcvnxt=%d", uint32(x.SndUna), uint32(x.SndNxt), x.SndCwnd, x.Ssthresh, x.Outstanding, x.SndWnd, x.DupAckCount, x.FastRecovery.Active, uint32(x.FastRecovery.First), uint32(x.FastRecovery.Last), x.RTO, x.Closed, x.MaxPayloadSize, uint32(st.Receiver.RcvNxt))
				resMu.Lock()
				res.LastSender[i] = m
				resMu.Unlock()
			})
		}
	}
	t0 := time.Now()
	obs := [2]*Obs{{mu: &omu, seen: map[string]int{}, dropLeft: map[string]int{}, st: &res.Dir[0]}, {mu: &omu, seen: map[string]int{}, dropLeft: map[string]int{}, st: &res.Dir[1]}}
	for _, d := range sc.Drops {
		var dir int
		fmt.Sscanf(d.Key, "%d|", &dir)
		obs[dir].dropLeft[d.Key] = d.Times
	}
	for _, d := range sc.Delays {
		var dir int
		fmt.Sscanf(d.Key, "%d|", &dir)
		if obs[dir].delayMs == nil {
			obs[dir].delayMs = map[string]int{}
		}
		obs[dir].delayMs[d.Key] = d.Ms
	}
	var burstLeft [2]int
	probing := sc.PassiveISS != nil // guarded by omu (held in decide)
	faultRng := [2]*fw.Rand{rng.Split("faults", 0), rng.Split("faults", 1)}
	writerRng := [2]*fw.Rand{rng.Split("writer", 0), rng.Split("writer", 1)}
	mkDecide := func(dir int) func(f *wire.Frame) wire.Action {
		fr := faultRng[dir]
		fc := sc.Faults[dir]
		return func(f *wire.Frame) (a wire.Action) {
			o := obs[dir]
			o.mu.Lock()
			defer o.mu.Unlock()
			atomic.AddInt64(&nframes, 1)
			if frameCheck != nil {
				if m := frameCheck(dir, f); m != "" {
					resMu.Lock()
					if len(res.FrameErrs) < 5 {
						res.FrameErrs = append(res.FrameErrs, m)
					}
					resMu.Unlock()
				}
			}
			o.lastTx = time.Since(t0)
			t, err := DecodeTCP(f.Proto, f.Data)
			if err != nil || t == nil {
				return a
			}
			if t.Flags&rfc.SYN != 0 && !o.haveISS {
				o.iss, o.haveISS = t.Seq, true
			}
			rel := int64(t.Seq - o.iss)
			n := len(t.Payload)
			wndDir := 1 - dir
			defer func() {
				resMu.Lock()
				res.LastWndEmitted[wndDir] = int(t.Window)
				res.LastWndDropped[wndDir] = a.Drop
				if !res.Connected {
					switch {
					case dir == 1 && t.Flags&rfc.SYN != 0:
						res.Hs.SynAckEmitted++
						if a.Drop {
							res.Hs.SynAckDropped++
						}
					case dir == 0 && t.Flags&rfc.SYN == 0:
						res.Hs.ClientEmitted++
						res.Hs.SynAckUnanswered = false
						if a.Drop {
							res.Hs.ClientDropped++
						}
					}
				}
				resMu.Unlock()
			}()
			key := ""
			if n > 0 || t.Flags&(rfc.SYN|rfc.FIN|rfc.RST) != 0 {
				key = fmt.Sprintf("%d|%s|%d|%d", dir, flagStr(t.Flags&^rfc.ACK), rel, n)
			} else {
				ackRel := int64(t.Ack - obs[1-dir].iss)
				key = fmt.Sprintf("%d|ack|%d|w%d", dir, ackRel, t.Window)
			}
			o.seen[key]++
			if o.seen[key] == 1 {
				o.order = append(o.order, key)
			}
			if n > 0 {
				o.st.Segments++
				end := rel + int64(n)
				if end <= o.maxEnd {
					o.st.Retrans++
				}
				if end > o.maxEnd {
					o.maxEnd = end
				}
				s0, s1 := t.Seq, t.Seq+uint32(n)
				if s1 < s0 {
					o.st.WrapCross32 = true
				}
				if s0 < 1<<31 && s1 >= 1<<31 && s1 > s0 {
					o.st.WrapCross31 = true
				}
			}
			if probing {
				// the ISS probe connection is scaffolding, not part of the scenario: no
				// faults, so that none of its segments is still in flight (delayed or
				// replayed) when the judged connection reuses the 4-tuple
				return a
			}
			if left := o.dropLeft[key]; left > 0 {
				o.dropLeft[key] = left - 1
				a.Drop = true
				return a
			}
			if ms, ok := o.delayMs[key]; ok && o.seen[key] == 1 {
				a.Delay = time.Duration(ms) * time.Millisecond
				return a
			}
			if burstLeft[dir] > 0 {
				burstLeft[dir]--
				a.Drop = true
				return a
			}
			if fc.DropPct > 0 && fr.Intn(100) < fc.DropPct {
				a.Drop = true
				if fc.Burst > 0 {
					burstLeft[dir] = fr.Intn(fc.Burst)
				}
				return a
			}
			if fc.DupPct > 0 && fr.Intn(100) < fc.DupPct {
				a.Dup = 1 + fr.Intn(2)
				for i := 0; i < a.Dup; i++ {
					a.DupDelays = append(a.DupDelays, time.Duration(fr.Intn(fc.MaxDelayMs+1))*time.Millisecond)
				}
			}
			if fc.DelayPct > 0 && fr.Intn(100) < fc.DelayPct {
				a.Delay = time.Duration(fr.Intn(fc.MaxDelayMs*1000+1)) * time.Microsecond
			}
			if fc.ReplayPct > 0 && fr.Intn(100) < fc.ReplayPct {
				a.Dup++
				a.DupDelays = append(a.DupDelays, time.Duration(500+fr.Intn(4000))*time.Millisecond)
			}
			return a
		}
	}
	for d, h := range []*wire.Host{topo.A, topo.B} {
		if pct := sc.Faults[d].RefusePct; pct > 0 {
			rr := rng.Split("refuse", d)
			var rmu sync.Mutex
			h.L.Refuse = func(proto tcpip.NetworkProtocolNumber, hv buffer.View, pl buffer.VectorisedView) bool {
				omu.Lock()
				pr := probing
				omu.Unlock()
				rmu.Lock()
				defer rmu.Unlock()
				if !pr && rr.Intn(100) < pct {
					wnd := -1
					var flags uint8
					if t, err := DecodeTCP(proto, append(append([]byte(nil), hv...), pl.ToView()...)); err == nil && t != nil {
						wnd, flags = int(t.Window), t.Flags
					}
					resMu.Lock()
					res.Refused[d]++
					if !res.Connected && wnd >= 0 {
						// handshake bookkeeping: a refused segment was emitted by its stack and lost
						switch {
						case d == 1 && flags&rfc.SYN != 0:
							res.Hs.SynAckEmitted++
							res.Hs.SynAckDropped++
						case d == 0 && flags&rfc.SYN == 0:
							res.Hs.ClientEmitted++
							res.Hs.ClientDropped++
							res.Hs.SynAckUnanswered = false
						}
					}
					if wnd >= 0 {
						res.LastWndRefused[1-d] = wnd // window advertised to the sender of data direction 1-d
					}
					resMu.Unlock()
					return true
				}
				return false
			}
		}
	}
	topo.AB.Decide = mkDecide(0)
	topo.BA.Decide = mkDecide(1)
	var maxAckDelivered [2]int64
	mkDeliver := func(dir int) func(f *wire.Frame) {
		return func(f *wire.Frame) {
			t, err := DecodeTCP(f.Proto, f.Data)
			if err == nil && t != nil {
				resMu.Lock()
				if !res.Connected {
					switch {
					case dir == 1 && t.Flags&rfc.SYN != 0:
						res.Hs.SynAckDelivered++
						res.Hs.SynAckUnanswered = true // until the active side emits something
					case dir == 0 && t.Flags&rfc.SYN == 0:
						res.Hs.ClientDelivered++
					}
				}
				resMu.Unlock()
			}
			if err == nil && t != nil && t.Flags&rfc.ACK != 0 {
				// only an ACK that is not older than the newest one delivered so far tells the
				// sender anything about the window (a stale one is ignored by the sender)
				omu.Lock()
				ackRel := int64(t.Ack - obs[1-dir].iss)
				fresh := ackRel >= maxAckDelivered[1-dir]
				if fresh {
					maxAckDelivered[1-dir] = ackRel
				}
				omu.Unlock()
				if fresh {
					resMu.Lock()
					res.LastWndDelivered[1-dir] = int(t.Window)
					resMu.Unlock()
				}
			}
			if err != nil || t == nil || len(t.Payload) == 0 {
				return
			}
			o := obs[dir]
			o.mu.Lock()
			rel := int64(t.Seq - o.iss)
			if rel > o.expect {
				o.st.OutOfOrder++
			} else if rel+int64(len(t.Payload)) <= o.expect {
				o.st.Dups++
			}
			if e := rel + int64(len(t.Payload)); rel <= o.expect && e > o.expect {
				o.expect = e
			}
			o.mu.Unlock()
		}
	}
	// relative seq 0 is the SYN; data starts at 1
	obs[0].expect, obs[1].expect = 1, 1
	topo.AB.OnDeliver = mkDeliver(0)
	topo.BA.OnDeliver = mkDeliver(1)

	deadlineS := sc.DeadlineS
	if deadlineS == 0 {
		deadlineS = 1800
	}
	deadline := time.After(time.Duration(deadlineS) * time.Second)
	expired := make(chan struct{})
	go func() { <-deadline; close(expired) }()
	waitEv := func(x *ep) bool { // false = deadline
		select {
		case <-x.ch:
			return true
		case <-expired:
			return false
		}
	}

	// listener on B
	lb, err := newEP(topo.B, sc.V6)
	if err != nil {
		res.ConnectErr = "harness: " + err.Error()
		return snapshot()
	}
	addrA, addrB := wire.AddrA4, wire.AddrB4
	if sc.V6 {
		addrA, addrB = wire.AddrA6, wire.AddrB6
	}
	if rb := sc.RcvBuf[1]; rb > 0 {
		lb.e.SetSockOpt(tcpip.ReceiveBufferSizeOption(rb)) // inherited by accepted endpoints through the listen window
	}
	if e := lb.e.Bind(tcpip.FullAddress{Port: 80}, nil); e != nil {
		res.ConnectErr = "harness: bind: " + e.String()
		return snapshot()
	}
	if e := lb.e.Listen(8); e != nil {
		res.ConnectErr = "harness: listen: " + e.String()
		return snapshot()
	}
	connect := func(localPort uint16, iss *uint32) (*ep, string) {
		ca, err := newEP(topo.A, sc.V6)
		if err != nil {
			return nil, "harness: " + err.Error()
		}
		if sb := sc.SndBuf[0]; sb > 0 {
			ca.e.SetSockOpt(tcpip.SendBufferSizeOption(sb))
		}
		if rb := sc.RcvBuf[0]; rb > 0 {
			ca.e.SetSockOpt(tcpip.ReceiveBufferSizeOption(rb))
		}
		if localPort != 0 {
			if e := ca.e.Bind(tcpip.FullAddress{Addr: addrA, Port: localPort}, nil); e != nil {
				return nil, "harness: bind A: " + e.String()
			}
		}
		if iss != nil && SteerISS != nil {
			SteerISS(iss)
		}
		e := ca.e.Connect(tcpip.FullAddress{Addr: addrB, Port: 80})
		if e != nil && e != tcpip.ErrConnectStarted {
			return nil, e.String()
		}
		for {
			if ca.e.Readiness(waiter.EventOut)&waiter.EventOut != 0 {
				break
			}
			if !waitEv(ca) {
				return nil, "deadline"
			}
		}
		if e := ca.e.GetSockOpt(tcpip.ErrorOption{}); e != nil {
			return nil, e.String()
		}
		return ca, ""
	}
	accept := func() (*ep, string) {
		for {
			ne, nwq, e := lb.e.Accept()
			if e == nil {
				return wrapEP(ne, nwq), ""
			}
			if e != tcpip.ErrWouldBlock {
				return nil, e.String()
			}
			if !waitEv(lb) {
				return nil, "deadline"
			}
		}
	}
	var ca, cb *ep
	var cerr string
	if sc.PassiveISS != nil {
		// probe: learn K = (passive ISS - active ISS) for this 4-tuple, then reconnect from
		// the same port with the active ISS chosen so that the passive ISS hits the target.
		x := rng.U32()
		pa, e1 := connect(40000, &x)
		if e1 != "" {
			res.ConnectErr = "probe: " + e1
			return snapshot()
		}
		pb, e2 := accept()
		if e2 != "" {
			res.ConnectErr = "probe accept: " + e2
			return snapshot()
		}
		omu.Lock()
		k := obs[1].iss - obs[0].iss
		obs[0].haveISS, obs[1].haveISS = false, false
		obs[0].seen, obs[1].seen = map[string]int{}, map[string]int{}
		obs[0].order, obs[1].order = nil, nil
		obs[0].maxEnd, obs[1].maxEnd = 0, 0
		obs[0].expect, obs[1].expect = 1, 1
		*obs[0].st, *obs[1].st = DirStats{}, DirStats{}
		omu.Unlock()
		pa.e.Close()
		pb.e.Close()
		time.Sleep(5 * time.Second) // let the probe connection finish closing (same time-stamp bucket: 64 s)
		omu.Lock()
		probing = false
		omu.Unlock()
		resMu.Lock()
		res.Hs.SynAckEmitted, res.Hs.SynAckDropped, res.Hs.SynAckDelivered, res.Hs.ClientEmitted, res.Hs.ClientDropped, res.Hs.ClientDelivered, res.Hs.SynAckUnanswered = 0, 0, 0, 0, 0, 0, false
		resMu.Unlock()
		want := *sc.PassiveISS - k
		ca, cerr = connect(40000, &want)
	} else {
		ca, cerr = connect(0, sc.ISS)
	}
	if cerr != "" {
		res.ConnectErr = cerr
		res.Virtual = time.Since(t0)
		res.Stalled = cerr == "deadline"
		collect(res, obs, &resMu)
		return snapshot()
	}
	cb, cerr = accept()
	if cerr != "" {
		res.ConnectErr = "accept: " + cerr
		res.Virtual = time.Since(t0)
		res.Stalled = cerr == "deadline"
		collect(res, obs, &resMu)
		return snapshot()
	}
	resMu.Lock()
	res.Connected = true
	resMu.Unlock()
	omu.Lock()
	res.ActiveISS, res.PassiveISS = obs[0].iss, obs[1].iss
	omu.Unlock()
	if sb := sc.SndBuf[1]; sb > 0 {
		cb.e.SetSockOpt(tcpip.SendBufferSizeOption(sb))
	}
	if rb := sc.RcvBuf[1]; rb > 0 {
		cb.e.SetSockOpt(tcpip.ReceiveBufferSizeOption(rb))
	}

	eps := [2]*ep{ca, cb} // writer of direction d is eps[d]; reader is eps[1-d]
	// Each endpoint has ONE waiter channel; a reader and a writer goroutine share the
	// endpoint, so notifications are fanned out to both.
	type fan struct{ r, w chan struct{} }
	fans := [2]fan{}
	for i := range eps {
		fans[i] = fan{make(chan struct{}, 1), make(chan struct{}, 1)}
		go func(x *ep, f fan) {
			for {
				select {
				case <-x.ch:
					select {
					case f.r <- struct{}{}:
					default:
					}
					select {
					case f.w <- struct{}{}:
					default:
					}
				case <-expired:
					return
				}
			}
		}(eps[i], fans[i])
	}
	wait := func(c chan struct{}) bool {
		select {
		case <-c:
			return true
		case <-expired:
			return false
		}
	}
	var offered [2]int64
	var wg sync.WaitGroup
	shutdownOrder := make(chan int, 2)
	writer := func(d int) {
		defer wg.Done()
		x := eps[d]
		wr := writerRng[d]
		total := int64(sc.Bytes[d])
		var off int64
		maxc := sc.MaxChunk[d]
		if maxc <= 0 {
			maxc = 65536
		}
		for off < total {
			n := 1 + wr.Intn(maxc)
			if wr.Chance(1, 8) {
				n = 1 + wr.Intn(16)
			}
			if int64(n) > total-off {
				n = int(total - off)
			}
			buf := make([]byte, n)
			fill(buf, sc.Seed, d, off)
			atomic.AddInt64(&offered[d], int64(n)) // before the call: a fast reader can never overtake it
			got, _, e := x.e.Write(tcpip.SlicePayload(buf), tcpip.WriteOptions{})
			off += int64(got)
			atomic.AddInt64(&offered[d], int64(got)-int64(n))
			if e == tcpip.ErrWouldBlock {
				if x.e.Readiness(waiter.EventOut)&waiter.EventOut == 0 {
					if !wait(fans[d].w) {
						break
					}
				}
				continue
			}
			if e != nil {
				resMu.Lock()
				res.Dir[d].WriteErr = e.String()
				resMu.Unlock()
				break
			}
		}
		resMu.Lock()
		res.Dir[d].Accepted = off
		resMu.Unlock()
		shutdownOrder <- d
	}
	reader := func(d int) {
		defer wg.Done()
		x := eps[1-d]
		var off int64
		paused := false
		for {
			v, _, e := x.e.Read(nil)
			if e == tcpip.ErrWouldBlock {
				if !wait(fans[1-d].r) {
					break
				}
				continue
			}
			if e == tcpip.ErrClosedForReceive {
				resMu.Lock()
				res.Dir[d].EOF = true
				resMu.Unlock()
				// nothing may ever appear after end-of-stream
				for i := 0; i < 3; i++ {
					time.Sleep(300 * time.Millisecond)
					if v2, _, e2 := x.e.Read(nil); e2 == nil || len(v2) > 0 {
						resMu.Lock()
						res.PastEOF = fmt.Sprintf("direction %d: Read returned %d bytes after end-of-stream", d, len(v2))
						resMu.Unlock()
					}
				}
				break
			}
			if e != nil {
				resMu.Lock()
				res.Dir[d].ReadErr = e.String()
				resMu.Unlock()
				break
			}
			lim := atomic.LoadInt64(&offered[d])
			for i, b := range v {
				if off+int64(i) >= lim {
					resMu.Lock()
					if res.Mismatch == "" {
						res.Mismatch = fmt.Sprintf("direction %d: Read returned byte at stream offset %d but only %d bytes were ever offered to Write (invented data)", d, off+int64(i), lim)
					}
					resMu.Unlock()
					break
				}
				if want := PByte(sc.Seed, d, off+int64(i)); b != want {
					resMu.Lock()
					if res.Mismatch == "" {
						res.Mismatch = fmt.Sprintf("direction %d: byte at stream offset %d is %#02x, the byte written at that offset was %#02x (Read returned %d bytes at offset %d; the bytes match the stream at offset %d)", d, off+int64(i), b, want, len(v), off, findShift(v, sc.Seed, d, off))
					}
					resMu.Unlock()
					break
				}
			}
			off += int64(len(v))
			resMu.Lock()
			res.Dir[d].Read = off
			bad := res.Mismatch != ""
			resMu.Unlock()
			if bad {
				break
			}
			if sc.PaceUs[d] > 0 {
				time.Sleep(time.Duration(sc.PaceUs[d]) * time.Microsecond)
			}
			if !paused && sc.PauseRead[d] > 0 && off >= int64(sc.PauseRead[d]) {
				paused = true
				if sc.GrowRcvBuf[d] > 0 {
					time.Sleep(time.Duration(sc.PauseMs[d]) * time.Millisecond / 2)
					x.e.SetSockOpt(tcpip.ReceiveBufferSizeOption(sc.GrowRcvBuf[d]))
					time.Sleep(time.Duration(sc.PauseMs[d]) * time.Millisecond / 2)
				} else {
					time.Sleep(time.Duration(sc.PauseMs[d]) * time.Millisecond)
				}
			}
		}
	}
	wg.Add(4)
	go writer(0)
	go writer(1)
	go reader(0)
	go reader(1)
	// write-side shutdowns in the requested order
	go func() {
		done := map[int]bool{}
		pending := map[int]bool{}
		do := func(d int) {
			if !done[d] {
				done[d] = true
				eps[d].e.Shutdown(tcpip.ShutdownWrite)
			}
		}
		for i := 0; i < 2; i++ {
			var d int
			select {
			case d = <-shutdownOrder:
			case <-expired:
				return
			}
			pending[d] = true
			switch sc.Close {
			case "BA":
				if pending[1] {
					do(1)
				}
				if done[1] && pending[0] {
					do(0)
				}
			case "sim":
				if pending[0] && pending[1] {
					do(0)
					do(1)
				}
			default: // "AB" and anything else: A first
				if pending[0] {
					do(0)
				}
				if done[0] && pending[1] {
					do(1)
				}
			}
		}
		do(0)
		do(1)
	}()
	fin := make(chan struct{})
	go func() { wg.Wait(); close(fin) }()
	select {
	case <-fin:
	case <-expired:
	}
	res.Virtual = time.Since(t0)
	// explicit errors
	resMu.Lock()
	for d := 0; d < 2; d++ {
		res.Dir[d].Offered = atomic.LoadInt64(&offered[d])
	}
	for i, x := range eps {
		if e := x.e.GetSockOpt(tcpip.ErrorOption{}); e != nil {
			res.Errors[i] = e.String()
		}
		// an endpoint whose connection was aborted (e.g. retransmission give-up) reports
		// its hard error from Write/Read, not from ErrorOption
		if _, _, e := x.e.Write(tcpip.SlicePayload(nil), tcpip.WriteOptions{}); e != nil && e != tcpip.ErrClosedForSend && e != tcpip.ErrWouldBlock && res.Errors[i] == "" {
			res.Errors[i] = e.String()
		}
	}
	resMu.Unlock()
	resMu.Lock()
	complete := res.Dir[0].EOF && res.Dir[1].EOF && res.Dir[0].Read == int64(sc.Bytes[0]) && res.Dir[1].Read == int64(sc.Bytes[1])
	failed := res.Errors[0] != "" || res.Errors[1] != "" || res.Dir[0].ReadErr != "" || res.Dir[1].ReadErr != "" || res.Dir[0].WriteErr != "" || res.Dir[1].WriteErr != ""
	res.Stalled = !complete && !failed
	resMu.Unlock()
	if res.Stalled {
		// still exchanging packets close to the deadline: slow, not quiet
		omu.Lock()
		last := obs[0].lastTx
		if obs[1].lastTx > last {
			last = obs[1].lastTx
		}
		omu.Unlock()
		if time.Since(t0)-last < 6*time.Minute {
			resMu.Lock()
			res.Stalled = false
			res.StillActive = true
			resMu.Unlock()
		}
	}
	if complete && !failed {
		// let the closing exchange finish, then look at the closed-state observables
		time.Sleep(10 * time.Second)
		for i, x := range eps {
			res.ClosedState[i] = closedState(x)
		}
		// a closed endpoint is silent: whatever it emits during the following virtual minute
		// (a FIN it still retransmits, say) shows that it never reached the closed state. The
		// peer is silent by then, so not even TIME-WAIT has anything to answer.
		at := time.Since(t0)
		if vt.Virtual {
			time.Sleep(60 * time.Second)
		}
		omu.Lock()
		for i := range eps {
			if vt.Virtual && obs[i].lastTx > at && res.ClosedState[i] == "" {
				res.ClosedState[i] = fmt.Sprintf("still transmitting: its last packet left %v after both sides had read end-of-stream and 10 further seconds had passed", obs[i].lastTx-at)
			}
		}
		omu.Unlock()
	}
	collect(res, obs, &resMu)
	for _, x := range eps {
		x.e.Close()
	}
	lb.e.Close()
	return snapshot()
}

func closedState(x *ep) string {
	if _, _, e := x.e.Write(tcpip.SlicePayload([]byte{1}), tcpip.WriteOptions{}); e != tcpip.ErrClosedForSend {
		return fmt.Sprintf("Write after close returned %v, want ErrClosedForSend", e)
	}
	if _, _, e := x.e.Read(nil); e != tcpip.ErrClosedForReceive {
		return fmt.Sprintf("Read after close returned %v, want ErrClosedForReceive", e)
	}
	if e := x.e.GetSockOpt(tcpip.ErrorOption{}); e != nil {
		return fmt.Sprintf("ErrorOption = %v after an orderly close", e)
	}
	return ""
}

func collect(res *Result, obs [2]*Obs, mu *sync.Mutex) {
	var last [2]time.Duration
	var ids []string
	obs[0].mu.Lock() // shared by both directions; lock order: observer lock, then result lock
	for d := 0; d < 2; d++ {
		last[d] = obs[d].lastTx
		ids = append(ids, obs[d].order...)
	}
	obs[0].mu.Unlock()
	mu.Lock()
	res.LastTx = last
	res.Identities = ids
	mu.Unlock()
}

// findShift looks for the stream offset at which the returned bytes do match
// (explains a mismatch as loss / duplication / reordering); -1 if none nearby.
func findShift(v []byte, seed uint64, d int, off int64) int64 {
	n := len(v)
	if n > 16 {
		n = 16
	}
	for delta := int64(-70000); delta <= 70000; delta++ {
		o := off + delta
		if o < 0 || delta == 0 {
			continue
		}
		ok := true
		for i := 0; i < n; i++ {
			if v[i] != PByte(seed, d, o+int64(i)) {
				ok = false
				break
			}
		}
		if ok {
			return o
		}
	}
	return -1
}
