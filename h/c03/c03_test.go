package c03

import (
	"fmt"
	"io"
	"log"
	"os"
	"sync"
	"testing"
	"time"

	"github.com/brewlin/net-protocol/pkg/waiter"
	tcpip "github.com/brewlin/net-protocol/protocol"
	"github.com/brewlin/net-protocol/protocol/network/ipv4"
	"github.com/brewlin/net-protocol/protocol/network/ipv6"
	"github.com/brewlin/net-protocol/protocol/transport/tcp"
	"verifh/fw"
	"verifh/rawpeer"
	"verifh/rfc"
	"verifh/tcpx"
	"verifh/vt"
	"verifh/wire"
)

var run *fw.Run

type step struct {
	Kind  string `json:"k"` // syn, synburst, dupsyn, othersyn, badack, goodack, rst-in, rst-out, data, wait, synack-bad, synack-good, rstack-good, rst-plain
	Delta int64  `json:"d,omitempty"`
}

type script struct {
	K        int      `json:"k"`
	Mode     string   `json:"mode"` // normal, cookie, pressure
	Active   bool     `json:"active"`
	V6       bool     `json:"v6"`
	PeerISS  uint32   `json:"peer_iss"`
	OwnISS   *uint32  `json:"own_iss,omitempty"`
	Opts     []string `json:"syn_options"`
	Steps    []step   `json:"steps"`
}

var issPool = []uint32{0, 1, 1<<31 - 1, 1 << 31, 1<<32 - 2, 1<<32 - 1}

func pickISS(r *fw.Rand) uint32 {
	if r.Chance(1, 2) {
		return issPool[r.Intn(len(issPool))]
	}
	return r.U32()
}

func pickDelta(r *fw.Rand, y uint32) int64 {
	switch r.Intn(8) {
	case 0:
		return 1
	case 1:
		return -1
	case 2:
		return []int64{2, -2, 1 << 16, -(1 << 16), 1 << 31}[r.Intn(5)]
	case 3:
		return -int64(y) - 1 // ack number 0
	case 4:
		return -int64(y) - 2 // ack number 2^32-1
	}
	d := int64(r.U32())
	if d == 0 {
		d = 7
	}
	return d
}

var optAlphabet = []string{"mss", "ws", "ts", "sackperm", "nop", "unknown", "mss-small", "ws-big", "eol-pad"}

func genScript(seed int64, k int, mode string) *script {
	r := fw.NewRand(seed, "C03", mode, k)
	sc := &script{K: k, Mode: mode, V6: r.Chance(1, 4), PeerISS: pickISS(r)}
	n := r.Intn(5)
	for i := 0; i < n; i++ {
		sc.Opts = append(sc.Opts, optAlphabet[r.Intn(len(optAlphabet))])
	}
	if r.Chance(1, 3) {
		sc.Active = true
		v := pickISS(r)
		sc.OwnISS = &v
		for i := 0; i < 1+r.Intn(4); i++ {
			sc.Steps = append(sc.Steps, step{Kind: []string{"synack-bad", "synack-bad", "rst-plain", "rstack-bad", "wait", "ack-only"}[r.Intn(6)], Delta: 0})
		}
		sc.Steps = append(sc.Steps, step{Kind: []string{"synack-good", "synack-good", "rstack-good"}[r.Intn(3)]})
		return sc
	}
	sc.Steps = append(sc.Steps, step{Kind: "syn"})
	if mode == "normal" && k%5 == 3 {
		// the SYN arrives two or three times back to back (duplicated by the network): the
		// copies race each other through the listener; still exactly one handshake
		sc.Steps[0] = step{Kind: "synburst", Delta: int64(2 + k%2)}
	}
	if k%7 == 0 { // the canonical exchange: must yield exactly one connection
		sc.Steps = append(sc.Steps, step{Kind: "goodack"})
		return sc
	}
	for i := 0; i < r.Intn(5); i++ {
		sc.Steps = append(sc.Steps, step{Kind: []string{"badack", "badack", "badack", "dupsyn", "wait", "data", "rst-out", "othersyn", "rst-in", "crossack-port", "crossack-addr", "rst-ack-exact", "flag-syn", "noack"}[r.Intn(14)]})
	}
	if r.Chance(4, 5) {
		sc.Steps = append(sc.Steps, step{Kind: "goodack"})
	}
	if r.Chance(1, 3) {
		sc.Steps = append(sc.Steps, step{Kind: "badack"})
	}
	return sc
}

func buildOpts(names []string, r *fw.Rand, tsval uint32) (opts []byte, hasTS bool, mss uint16) {
	mss = 536
	for _, n := range names {
		switch n {
		case "mss":
			v := uint16(1 + r.Intn(65535))
			opts = append(opts, rfc.OptMSS(v)...)
			mss = v
		case "mss-small":
			v := uint16(1 + r.Intn(100))
			opts = append(opts, rfc.OptMSS(v)...)
			mss = v
		case "ws":
			opts = append(opts, rfc.OptWS(uint8(r.Intn(15)))...)
		case "ws-big":
			opts = append(opts, rfc.OptWS(uint8(15+r.Intn(240)))...)
		case "ts":
			opts = append(opts, rfc.OptTS(tsval, 0)...)
			hasTS = true
		case "sackperm":
			opts = append(opts, rfc.OptSACKPerm()...)
		case "nop":
			opts = append(opts, 1)
		case "unknown":
			l := 2 + r.Intn(5)
			opts = append(opts, byte(60+r.Intn(100)), byte(l))
			opts = append(opts, r.Bytes(l-2)...)
		case "eol-pad":
			opts = append(opts, 0)
			for len(opts)%4 != 0 {
				opts = append(opts, 0)
			}
			return
		}
		if len(opts) > 36 {
			break
		}
	}
	return
}

type env struct {
	h       *wire.Host
	p       *rawpeer.Peer
	nextPort uint16
}

func newEnv(v6 bool) *env {
	h, err := rawpeer.NewHost(1500, true, "reno")
	if err != nil {
		run.Broken("harness: " + err.Error())
		return nil
	}
	return &env{h: h, p: rawpeer.New(h, v6), nextPort: 2000}
}

func rstsOf(segs []rawpeer.Seg) (rsts []rawpeer.Seg, others []rawpeer.Seg) {
	for _, s := range segs {
		if s.Has(rfc.RST) {
			rsts = append(rsts, s)
		} else {
			others = append(others, s)
		}
	}
	return
}

func viol(key, what string, sc *script, trace []string) {
	run.Violation("C03/"+key, what, map[string]interface{}{"script": sc, "trace": trace})
}

func runPassive(e *env, sc *script) {
	r := fw.NewRand(int64(sc.K), "C03", "run", sc.Mode)
	lport := e.nextPort
	pport := uint16(30000 + sc.K%20000)
	e.nextPort++
	var trace []string
	tr := func(f string, a ...interface{}) { trace = append(trace, fmt.Sprintf(f, a...)) }
	np := ipv4.ProtocolNumber
	if sc.V6 {
		np = ipv6.ProtocolNumber
	}
	wq := &waiter.Queue{}
	lep, err := e.h.S.NewEndpoint(tcp.ProtocolNumber, np, wq)
	if err != nil {
		run.Broken("harness: NewEndpoint " + err.String())
		return
	}
	defer lep.Close()
	if err := lep.Bind(tcpip.FullAddress{Port: lport}, nil); err != nil {
		run.Broken("harness: bind " + err.String())
		return
	}
	if err := lep.Listen(16); err != nil {
		run.Broken("harness: listen " + err.String())
		return
	}
	if sc.Mode == "pressure" {
		// fill the SYN-received budget with half-open handshakes from other ports
		for i := 0; i < 3; i++ {
			e.p.Send(rfc.TCP{SrcPort: uint16(50000 + i), DstPort: lport, Seq: r.U32(), Flags: rfc.SYN, Window: 30000})
		}
		e.p.Take()
	}
	take := func() []rawpeer.Seg { return e.p.TakeFor(lport, pport) }
	x := sc.PeerISS
	tsval := r.U32()
	opts, hasTS, _ := buildOpts(sc.Opts, r, tsval)
	base := rfc.TCP{SrcPort: pport, DstPort: lport, Window: 30000}
	var y uint32
	haveY := false
	goodAckSent := false // a peer ACK for exactly Y+1 was sent after the latest SYN-ACK
	dead := false        // the half-open connection was torn down by the script
	accepted := 0
	var lastAckDelta int64
	tsOK := false
	var tsecr uint32
	cookieModeOn := sc.Mode != "normal"
	poll := func(after string) {
		ne, _, aerr := lep.Accept()
		if aerr == nil {
			accepted++
			ra, _ := ne.GetRemoteAddress()
			tr("accept -> connection from port %d", ra.Port)
			if !goodAckSent {
				key := "passive/accept-without-handshake"
				if (cookieModeOn || dead) && lastAckDelta >= -3 && lastAckDelta <= 3 {
					// the specific failing input: cookie validation only checks that the low bits
					// decode to an MSS index < 4, so ack = cookie+1+d passes whenever index+d stays within 0..3
					key = "passive/cookie-accepts-ack-off-by-up-to-3"
				}
				viol(key, fmt.Sprintf("%s mode: Accept returned a connection after '%s' although the peer never acknowledged the stack's sequence number %d (+1)", sc.Mode, after, y), sc, trace)
			}
			if ra.Port != pport || ra.Addr != e.p.PeerAddr() {
				viol("passive/wrong-remote", fmt.Sprintf("accepted connection reports remote %v:%d, the handshake came from port %d", []byte(ra.Addr), ra.Port, pport), sc, trace)
			}
			ne.Close()
			rawpeer.Settle()
			e.p.Take()
		}
	}
	cookieMode := sc.Mode != "normal"
	for _, st := range sc.Steps {
		switch st.Kind {
		case "syn", "dupsyn", "synburst":
			t := base
			t.Seq, t.Flags, t.RawOpts = x, rfc.SYN, opts
			for i := int64(1); st.Kind == "synburst" && i < st.Delta; i++ {
				e.p.SendNoSettle(t)
			}
			e.p.Send(t)
			segs := take()
			tr("%s seq=%d -> %v", st.Kind, x, segs)
			for _, s := range segs {
				if s.Has(rfc.SYN | rfc.ACK) {
					if s.Ack != x+1 {
						viol("passive/synack-ack", fmt.Sprintf("SYN-ACK acknowledges %d, the SYN had sequence number %d", s.Ack, x), sc, trace)
					}
					y, haveY = s.Seq, true
					goodAckSent = false
					if _, ecr, ok := s.TS(); ok {
						tsOK = true
						_ = ecr
						v, _, _ := s.TS()
						tsecr = v
					}
					if hasTS != tsOK && !cookieMode {
						// timestamps must be echoed iff offered
						viol("passive/synack-ts", fmt.Sprintf("SYN offered timestamps=%v but SYN-ACK carries timestamps=%v", hasTS, tsOK), sc, trace)
					}
				}
			}
			if (st.Kind == "syn" || st.Kind == "synburst") && !haveY {
				viol("passive/no-synack", "a SYN to a listening port drew no SYN-ACK", sc, trace)
				return
			}
		case "othersyn":
			t := base
			t.Seq, t.Flags, t.RawOpts = x+1000+uint32(r.Intn(5000)), rfc.SYN, opts
			e.p.Send(t)
			tr("othersyn seq=%d -> %v", t.Seq, take())
			dead = true
			haveY = false // whatever follows belongs to a different handshake attempt
		case "badack", "goodack", "data":
			if !haveY {
				continue
			}
			t := base
			t.Seq, t.Flags = x+1, rfc.ACK
			if tsOK && !(st.Kind == "badack" && r.Chance(1, 3)) {
				// (a wrong acknowledgement is refused before anything else about the segment
				// matters: one third of them arrive without the negotiated timestamp option)
				t.RawOpts = append([]byte{1, 1}, rfc.OptTS(tsval+1, tsecr)...)
			}
			ackv := y + 1
			if st.Kind == "badack" {
				d := st.Delta
				if d == 0 {
					d = pickDelta(r, y)
				}
				ackv = uint32(int64(y) + 1 + d)
				if ackv == y+1 {
					ackv = y + 2
				}
			}
			t.Ack = ackv
			if st.Kind == "data" {
				t.Payload = []byte("early-data")
				t.Flags |= rfc.PSH
			}
			if ackv == y+1 {
				goodAckSent = true // the statement has no clause that a reset cancels a later exact acknowledgement
			}
			lastAckDelta = int64(ackv) - int64(y+1)
			e.p.Send(t)
			segs := take()
			tr("%s ack=%d (Y+1=%d) -> %v", st.Kind, ackv, y+1, segs)
			rsts, _ := rstsOf(segs)
			if ackv != y+1 && !dead && accepted == 0 && !goodAckSent {
				if !cookieMode {
					if len(rsts) != 1 || rsts[0].Seq != ackv {
						viol("passive/bad-ack-not-reset", fmt.Sprintf("normal mode: handshake segment acknowledging %d (the stack chose %d) drew %d resets %v; expected exactly one with sequence number %d", ackv, y, len(rsts), rsts, ackv), sc, trace)
					}
				} else if len(rsts) > 1 || (len(rsts) == 1 && rsts[0].Seq != ackv) {
					viol("passive/bad-ack-reset-seq", fmt.Sprintf("%s mode: reset for a handshake segment acknowledging %d has sequence number %v", sc.Mode, ackv, rsts), sc, trace)
				}
				run.Count("bad_handshake_acks_judged", 1)
			}
		case "crossack-port", "crossack-addr":
			// the exact acknowledgement, but from a peer that never sent a SYN
			if !haveY {
				continue
			}
			t := base
			t.Seq, t.Ack, t.Flags = x+1, y+1, rfc.ACK
			if tsOK {
				t.RawOpts = append([]byte{1, 1}, rfc.OptTS(tsval+1, tsecr)...)
			}
			saved4, saved6 := e.p.Peer4, e.p.Peer6
			if st.Kind == "crossack-port" {
				t.SrcPort = pport + 1 + uint16(r.Intn(100))
			} else {
				e.p.Peer4[3] ^= byte(1 + r.Intn(200))
				e.p.Peer6[15] ^= byte(1 + r.Intn(200))
			}
			e.p.Send(t)
			e.p.Peer4, e.p.Peer6 = saved4, saved6
			e.p.Take()
			tr("%s from port %d", st.Kind, t.SrcPort)
			if ne, _, aerr := lep.Accept(); aerr == nil {
				ra, _ := ne.GetRemoteAddress()
				viol("passive/accept-from-stranger", fmt.Sprintf("%s mode: an ACK carrying the handshake's numbers but sent from %v:%d, which never sent a SYN, produced a connection", sc.Mode, []byte(ra.Addr), ra.Port), sc, trace)
				ne.Close()
				return
			}
			run.Count("cross_tuple_acks_judged", 1)
		case "rst-in":
			t := base
			t.Seq, t.Flags = x+1, rfc.RST
			e.p.Send(t)
			segs := take()
			tr("rst seq=%d -> %v", t.Seq, segs)
			if len(segs) > 0 {
				viol("reset-answered", fmt.Sprintf("a reset was answered with %v", segs), sc, trace)
			}
			if accepted == 0 && !goodAckSent {
				dead = true
			}
		case "rst-ack-exact":
			// the peer aborts with RST|ACK acknowledging exactly the stack's SYN-ACK: this ends
			// the attempt (or is ignored); it must never be taken for the handshake ACK
			if !haveY {
				continue
			}
			t := base
			t.Seq, t.Ack, t.Flags = x+1, y+1, rfc.RST|rfc.ACK
			e.p.Send(t)
			segs := take()
			tr("rst|ack seq=%d ack=%d -> %v", t.Seq, t.Ack, segs)
			if len(segs) > 0 {
				viol("reset-answered", fmt.Sprintf("a reset (RST|ACK acknowledging the SYN-ACK) was answered with %v", segs), sc, trace)
			}
			if accepted == 0 && !goodAckSent {
				dead = true
			}
			poll("RST|ACK acknowledging the SYN-ACK")
		case "flag-syn":
			// SYN combined with RST (and other bits) from another port to the listening port:
			// a segment carrying RST is never answered, and it starts nothing
			fl := []uint8{rfc.SYN | rfc.RST, rfc.SYN | rfc.RST | rfc.ACK, rfc.SYN | rfc.RST | rfc.FIN, rfc.SYN | rfc.RST | rfc.PSH | rfc.URG}[r.Intn(4)]
			t := base
			t.SrcPort = pport + 1
			t.Seq, t.Ack, t.Flags, t.RawOpts = x+7, r.U32(), fl, opts
			e.p.Send(t)
			segs := e.p.TakeFor(lport, pport+1)
			tr("flags %#02x from port %d -> %v", fl, pport+1, segs)
			if len(segs) > 0 {
				viol("reset-answered", fmt.Sprintf("a segment with flags %#02x (RST set) sent to the listening port was answered with %v", fl, segs), sc, trace)
			}
			run.Count("flag_combinations_to_listener", 1)
		case "rst-out":
			t := base
			t.Seq, t.Flags = x+1+0x50000000, rfc.RST
			if r.Bool() {
				t.Seq = x + 1 - 100000
			}
			e.p.Send(t)
			segs := take()
			tr("rst(out of window) seq=%d -> %v", t.Seq, segs)
			if len(segs) > 0 {
				viol("reset-answered", fmt.Sprintf("a reset was answered with %v", segs), sc, trace)
			}
		case "noack":
			// a segment without the ACK bit (FIN only, no flags at all, PSH|URG - what scanners
			// send) with whatever in its acknowledgement field: it acknowledges nothing, so it
			// cannot complete a handshake (the Accept poll below judges that)
			if !haveY {
				continue
			}
			t := base
			t.Seq, t.Ack = x+1, []uint32{0, y + 1, r.U32()}[r.Intn(3)]
			t.Flags = []uint8{rfc.FIN, 0, rfc.PSH | rfc.URG, rfc.FIN | rfc.PSH}[r.Intn(4)]
			if tsOK {
				t.RawOpts = append([]byte{1, 1}, rfc.OptTS(tsval+1, tsecr)...)
			}
			e.p.Send(t)
			tr("segment without ACK bit, flags %#02x, ack field %d -> %v", t.Flags, t.Ack, take())
			run.Count("handshake_segments_without_ack_bit", 1)
		case "wait":
			time.Sleep(1500 * time.Millisecond)
			rawpeer.Settle()
			segs := take()
			tr("wait 1.5s -> %v", segs)
			for _, s := range segs {
				if s.Has(rfc.SYN|rfc.ACK) && haveY && s.Seq != y {
					viol("passive/synack-changed", fmt.Sprintf("retransmitted SYN-ACK carries sequence number %d, the first one %d", s.Seq, y), sc, trace)
				}
			}
		}
		poll(st.Kind)
		if accepted > 0 {
			break // the handshake is over; later steps would talk to a closed connection
		}
	}
	// sufficient condition: the canonical exchange must produce exactly one connection
	canonical := len(sc.Steps) == 2 && sc.Steps[0].Kind == "syn" && sc.Steps[1].Kind == "goodack"
	if canonical {
		run.Count("canonical_handshakes", 1)
	}
	if canonical && accepted != 1 {
		viol("passive/handshake-not-accepted", fmt.Sprintf("%s mode: SYN, SYN-ACK, ACK(%d) completed but Accept yields %d connections", sc.Mode, y+1, accepted), sc, trace)
	}
	if accepted > 1 {
		viol("passive/accepted-twice", fmt.Sprintf("one handshake produced %d accepted connections", accepted), sc, trace)
	}
	cls := ""
	for _, s := range sc.Steps {
		cls += s.Kind[:2]
	}
	run.Case(fw.Hash("p", sc.Mode, cls, sc.Opts, sc.PeerISS>>28, sc.V6), true)
	if sc.K < 2 {
		run.Sample(map[string]interface{}{"script": sc, "trace": trace})
	}
}

func runActive(e *env, sc *script) {
	r := fw.NewRand(int64(sc.K), "C03", "runa", sc.Mode)
	pport := uint16(7000 + sc.K%3000)
	var trace []string
	tr := func(f string, a ...interface{}) { trace = append(trace, fmt.Sprintf(f, a...)) }
	np := ipv4.ProtocolNumber
	if sc.V6 {
		np = ipv6.ProtocolNumber
	}
	wq := &waiter.Queue{}
	ep, err := e.h.S.NewEndpoint(tcp.ProtocolNumber, np, wq)
	if err != nil {
		run.Broken("harness: NewEndpoint " + err.String())
		return
	}
	defer ep.Close()
	tcpx.SteerISS(sc.OwnISS)
	if err := ep.Connect(tcpip.FullAddress{Addr: e.p.PeerAddr(), Port: pport}); err != tcpip.ErrConnectStarted {
		run.Broken("harness: connect " + err.String())
		return
	}
	rawpeer.Settle()
	var segs []rawpeer.Seg
	for _, sg := range e.p.Take() {
		if sg.DstPort == pport {
			segs = append(segs, sg)
		}
	}
	if len(segs) != 1 || !segs[0].Has(rfc.SYN) || segs[0].Has(rfc.ACK) {
		viol("active/no-syn", fmt.Sprintf("Connect emitted %v instead of one SYN", segs), sc, trace)
		return
	}
	syn := segs[0]
	iss := syn.Seq
	if iss != *sc.OwnISS {
		run.Count("iss_steering_missed", 1)
	}
	tr("connect -> %v", syn)
	tsval, _, synTS := syn.TS()
	y := sc.PeerISS
	opts, _, _ := buildOpts(sc.Opts, r, r.U32())
	if synTS {
		opts = append(opts, rfc.OptTS(r.U32(), tsval)...)
	}
	for len(opts) > 40 {
		opts = opts[:len(opts)-1]
	}
	base := rfc.TCP{SrcPort: pport, DstPort: syn.SrcPort, Window: 30000}
	connected := func() bool {
		return ep.Readiness(waiter.EventOut)&waiter.EventOut != 0
	}
	goodSeen, refused := false, false
	for _, st := range sc.Steps {
		t := base
		var ackv uint32
		switch st.Kind {
		case "synack-bad", "rstack-bad", "ack-only":
			d := pickDelta(r, iss)
			ackv = uint32(int64(iss) + 1 + d)
			if ackv == iss+1 {
				ackv++
			}
			t.Seq, t.Ack = y, ackv
			switch st.Kind {
			case "synack-bad":
				t.Flags, t.RawOpts = rfc.SYN|rfc.ACK, opts
			case "rstack-bad":
				t.Flags = rfc.RST | rfc.ACK
			default:
				t.Flags = rfc.ACK
			}
		case "synack-good":
			t.Seq, t.Ack, t.Flags, t.RawOpts = y, iss+1, rfc.SYN|rfc.ACK, opts
			ackv = iss + 1
		case "rstack-good":
			t.Seq, t.Ack, t.Flags = y, iss+1, rfc.RST|rfc.ACK
			ackv = iss + 1
		case "rst-plain":
			t.Seq, t.Flags = y, rfc.RST
		case "wait":
			time.Sleep(1200 * time.Millisecond)
			rawpeer.Settle()
			tr("wait -> %v", e.p.TakeFor(syn.SrcPort, pport))
			continue
		}
		if refused || goodSeen {
			break
		}
		e.p.Send(t)
		segs := e.p.TakeFor(syn.SrcPort, pport)
		tr("%s seq=%d ack=%d -> %v", st.Kind, t.Seq, ackv, segs)
		rsts, others := rstsOf(segs)
		switch st.Kind {
		case "synack-bad", "ack-only":
			if len(rsts) != 1 || rsts[0].Seq != ackv {
				viol("active/bad-synack-not-reset", fmt.Sprintf("%s acknowledging %d (own SYN was %d) drew resets %v; expected exactly one with sequence number %d", st.Kind, ackv, iss, rsts, ackv), sc, trace)
			}
			run.Count("bad_synacks_judged", 1)
		case "rstack-bad", "rst-plain":
			if len(segs) != 0 {
				viol("reset-answered", fmt.Sprintf("a reset was answered with %v", segs), sc, trace)
			}
		case "synack-good":
			goodSeen = true
			okAck := false
			for _, s := range others {
				if s.Flags&(rfc.SYN|rfc.ACK|rfc.RST|rfc.FIN) == rfc.ACK && s.Ack == y+1 && s.Seq == iss+1 {
					okAck = true
				}
			}
			if !okAck || !connected() {
				viol("active/good-synack-not-completed", fmt.Sprintf("SYN-ACK acknowledging exactly ISS+1=%d: stack answered %v, connected=%v", iss+1, segs, connected()), sc, trace)
			}
			if e := ep.GetSockOpt(tcpip.ErrorOption{}); e != nil {
				viol("active/error-after-good-handshake", "ErrorOption = "+e.String(), sc, trace)
			}
		case "rstack-good":
			refused = true
			if len(segs) != 0 {
				viol("reset-answered", fmt.Sprintf("a reset was answered with %v", segs), sc, trace)
			}
		}
		if st.Kind != "synack-good" && st.Kind != "rstack-good" && connected() && ep.GetSockOpt(tcpip.ErrorOption{}) == nil {
			// Readiness(EventOut) is also raised when the attempt failed; only a clean completion counts
			if _, _, werr := ep.Write(tcpip.SlicePayload([]byte{1}), tcpip.WriteOptions{}); werr == nil {
				viol("active/connected-without-handshake", fmt.Sprintf("Connect completed after '%s' although no SYN-ACK acknowledged ISS+1=%d", st.Kind, iss+1), sc, trace)
			}
		}
	}
	cls := ""
	for _, s := range sc.Steps {
		cls += s.Kind[:4]
	}
	run.Case(fw.Hash("a", cls, sc.Opts, *sc.OwnISS>>28, sc.PeerISS>>28, sc.V6), true)
}

// strays: segments for which no socket exists.
func runStrays(e *env, k int) {
	r := fw.NewRand(int64(k), "C03", "stray")
	var trace []string
	flagsets := []uint8{rfc.SYN, rfc.ACK, rfc.SYN | rfc.ACK, rfc.FIN | rfc.ACK, rfc.FIN, rfc.PSH | rfc.ACK, 0, rfc.URG | rfc.ACK, rfc.SYN | rfc.FIN, rfc.RST, rfc.RST | rfc.ACK, rfc.RST | rfc.SYN}
	for i := 0; i < 12; i++ {
		fl := flagsets[r.Intn(len(flagsets))]
		t := rfc.TCP{SrcPort: uint16(1024 + r.Intn(60000)), DstPort: uint16(10 + r.Intn(900)), Seq: pickISS(r), Ack: pickISS(r), Flags: fl, Window: uint16(r.U32())}
		if r.Chance(1, 2) {
			t.Payload = r.Bytes(r.Intn(40))
		}
		e.p.Send(t)
		segs := e.p.TakeFor(t.DstPort, t.SrcPort)
		trace = append(trace, fmt.Sprintf("stray fl=%#x seq=%d ack=%d len=%d -> %v", fl, t.Seq, t.Ack, len(t.Payload), segs))
		sc := &script{K: k, Mode: "stray"}
		if fl&rfc.RST != 0 {
			if len(segs) != 0 {
				viol("reset-answered", fmt.Sprintf("a reset for a port without socket was answered with %v", segs), sc, trace)
			}
			run.Count("stray_resets_sent", 1)
			continue
		}
		wantSeq := uint32(0)
		if fl&rfc.ACK != 0 {
			wantSeq = t.Ack
		}
		wantAck := t.Seq + uint32(len(t.Payload))
		if fl&rfc.SYN != 0 {
			wantAck++
		}
		if fl&rfc.FIN != 0 {
			wantAck++
		}
		if len(segs) != 1 || !segs[0].Has(rfc.RST) || segs[0].Seq != wantSeq || segs[0].Ack != wantAck || !segs[0].Has(rfc.ACK) || segs[0].SrcPort != t.DstPort || segs[0].DstPort != t.SrcPort {
			viol("stray/reset-wrong", fmt.Sprintf("segment fl=%#x seq=%d ack=%d len=%d for a port without socket drew %v; expected exactly one reset with seq=%d acknowledging %d", fl, t.Seq, t.Ack, len(t.Payload), segs, wantSeq, wantAck), sc, trace)
		}
		run.Count("strays_judged", 1)
	}
	run.Case(fw.Hash("stray", k), true)
}

func child(t *testing.T) {
	var lo, hi int
	fmt.Sscan(os.Getenv("VERIF_RANGE"), &lo, &hi)
	mode := os.Getenv("VERIF_MODE")
	vt.Bubble(t, func() {
		switch mode {
		case "cookie":
			tcp.SynRcvdCountThreshold = 0
		case "pressure":
			tcp.SynRcvdCountThreshold = 3
		}
		var e4, e6 *env
		for k := lo; k < hi && run.Violations() < 5; k++ {
			if (k-lo)%40 == 0 {
				e4, e6 = newEnv(false), newEnv(true)
				if e4 == nil || e6 == nil {
					break
				}
			}
			sc := genScript(run.Seed, k, mode)
			e := e4
			if sc.V6 {
				e = e6
			}
			if sc.Active {
				runActive(e, sc)
			} else {
				runPassive(e, sc)
			}
			if k%5 == 0 && mode == "normal" {
				runStrays(e, k)
			}
		}
		os.Exit(run.Finish("", nil))
	})
}

func TestC03(t *testing.T) {
	log.SetOutput(io.Discard)
	tcpx.InstallSteering()
	run = fw.Start("C03", "exploration")
	if fw.IsChild() {
		child(t)
		return
	}
	n := fw.N(2400, 120000)
	var wg sync.WaitGroup
	modes := []string{"normal", "normal", "normal", "normal", "cookie", "cookie", "pressure", "pressure"}
	per := n / len(modes)
	for c, m := range modes {
		for half := 0; half < 2; half++ {
			c, m, half := c, m, half
			wg.Add(1)
			go func() {
				defer wg.Done()
				lo := c*per + half*per/2
				tag := fmt.Sprintf("%s%d_%d", m, c, half)
				res := run.RunChild(fw.ChildSpec{Bin: os.Getenv("VERIF_BIN_VT"), Test: "^TestC03$", Tag: tag, Env: []string{fmt.Sprintf("VERIF_RANGE=%d %d", lo, lo+per/2), "VERIF_MODE=" + m}, Timeout: time.Duration(fw.N(10, 90)) * time.Minute})
				if !res.Done {
					run.ChildCrashed(res, "C03", tag)
				}
			}()
		}
	}
	wg.Wait()
	code := run.Finish("scripted raw peer against one real stack in virtual time (quiescence after every injected segment, so replies are attributed to the segment that caused them). Passive scripts: SYN with PRNG option sets (MSS incl. tiny, WS 0..255, TS, SACK-permitted, NOP, unknown kinds, EOL padding, none) then orders of bad ACK (delta in +-1, +-2, +-2^16, 2^31, ack 0, ack 2^32-1, random), duplicate SYN, other-sequence SYN, early data, in/out-of-window RST, 1.5 s waits, good ACK; normal mode, cookie mode (threshold 0) and genuine pressure (threshold 3 filled by half-open handshakes). Active scripts: Connect with steered ISS (0, 1, 2^31-1, 2^31, 2^32-2, 2^32-1, random), peer answers bad SYN-ACK / bare ACK / RST / RST-ACK then the good SYN-ACK or RST-ACK. Strays: all flag combinations to ports without sockets. Verdicts: Accept/Connect complete only after the exact acknowledgement; bad acknowledgement => exactly one reset with that sequence number (may be dropped in cookie mode); strays => exactly one reset with the RFC 793 fields; a reset is never answered. distinct = distinct (mode, step-kind sequence, option set, ISS class) Later additions: One wrong ACK in three arrives without the negotiated timestamp option. Handshake segments without the ACK bit (FIN only, no flags, PSH|URG) must not complete a handshake.",
		[]string{"a bare ACK to a listener with no half-open connection is outside the statement (recorded only)", "expected reset fields computed by the independent codec h/rfc"})
	os.Exit(code)
}
