package c15

import (
	"bytes"
	"fmt"
	"os"
	"runtime"
	"strings"
	"sync"
	"sync/atomic"
	"testing"
	"time"

	"github.com/brewlin/net-protocol/pkg/seqnum"
	tcpip "github.com/brewlin/net-protocol/protocol"
	"github.com/brewlin/net-protocol/protocol/header"
	"verifh/fw"
	"verifh/rfc"
)

var run *fw.Run

func bad(key, what string, replay interface{}) { run.Violation("C15/"+key, what, replay) }

// guard runs f and reports a panic as a violation (a codec must not read or
// write outside the buffer it was given).
// reused encodes once more into a buffer that already holds another header (all ones):
// the result must not depend on what the buffer held before. n = bytes the encoder owns.
func reused(key string, n int, clean []byte, replay interface{}, enc func(b []byte)) {
	d := bytes.Repeat([]byte{0xff}, len(clean))
	copy(d[n:], clean[n:])
	enc(d)
	if !bytes.Equal(d[:n], clean[:n]) {
		bad(key+"/encode-into-used-buffer", fmt.Sprintf("encoding into a buffer that held another header gives %x, into a zeroed buffer %x", d[:n], clean[:n]), replay)
	}
}

// stable: values handed out by address getters are values, not windows onto the header:
// rewriting the header afterwards must not change what was read before.
func stable() {
	r := fw.NewRand(run.Seed, "C15", "stable")
	for i := 0; i < 200; i++ {
		a, b := r.Bytes(16), r.Bytes(16)
		h6 := header.IPv6(make([]byte, 40))
		h6.Encode(&header.IPv6Fields{PayloadLength: 0, NextHeader: 6, HopLimit: 1, SrcAddr: tcpip.Address(a), DstAddr: tcpip.Address(b)})
		src, dst := h6.SourceAddress(), h6.DestinationAddress()
		h6.SetSourceAddress(dst)
		h6.SetDestinationAddress(src)
		if string(src) != string(a) || string(dst) != string(b) || string(h6.SourceAddress()) != string(b) || string(h6.DestinationAddress()) != string(a) {
			bad("ipv6/getters/value-changes-with-buffer", fmt.Sprintf("source %x / destination %x were read, then the two were swapped in place: the values read before now are %x / %x, the header holds %x / %x", a, b, []byte(src), []byte(dst), []byte(h6.SourceAddress()), []byte(h6.DestinationAddress())), nil)
			return
		}
		h4 := header.IPv4(make([]byte, 20))
		h4.Encode(&header.IPv4Fields{IHL: 20, TotalLength: 20, TTL: 1, Protocol: 6, SrcAddr: tcpip.Address(a[:4]), DstAddr: tcpip.Address(b[:4])})
		s4, d4 := h4.SourceAddress(), h4.DestinationAddress()
		h4.SetSourceAddress(d4)
		h4.SetDestinationAddress(s4)
		if string(s4) != string(a[:4]) || string(d4) != string(b[:4]) || string(h4.SourceAddress()) != string(b[:4]) || string(h4.DestinationAddress()) != string(a[:4]) {
			bad("ipv4/getters/value-changes-with-buffer", fmt.Sprintf("source %x / destination %x read, swapped in place: values read before are now %x / %x", a[:4], b[:4], []byte(s4), []byte(d4)), nil)
			return
		}
		eb := make([]byte, 14)
		header.Ethernet(eb).Encode(&header.EthernetFields{SrcAddr: tcpip.LinkAddress(a[:6]), DstAddr: tcpip.LinkAddress(b[:6]), Type: 0x0800})
		es, ed := header.Ethernet(eb).SourceAddress(), header.Ethernet(eb).DestinationAddress()
		header.Ethernet(eb).Encode(&header.EthernetFields{SrcAddr: ed, DstAddr: es, Type: 0x0800})
		if string(es) != string(a[:6]) || string(ed) != string(b[:6]) {
			bad("eth/getters/value-changes-with-buffer", fmt.Sprintf("source %x / destination %x read, header rewritten: values read before are now %x / %x", a[:6], b[:6], []byte(es), []byte(ed)), nil)
			return
		}
		run.Case(fw.Hash("stable", i%8), true)
	}
}

// Every guarded call is on record while it runs: a parser that never returns (a loop that
// does not advance) would otherwise hang the check. These calls take nanoseconds; one that
// is still running after a minute is reported with its input.
type inflightCall struct {
	key    string
	replay interface{}
	since  time.Time
}

var (
	inflight  sync.Map
	guardSeq  int64
	finishing int32
)

func guard(key string, replay interface{}, f func()) {
	id := atomic.AddInt64(&guardSeq, 1)
	inflight.Store(id, inflightCall{key, replay, time.Now()})
	defer inflight.Delete(id)
	defer func() {
		if r := recover(); r != nil {
			bad(key+"/panic", fmt.Sprintf("panic: %v", r), replay)
		}
	}()
	f()
}

func runawayMonitor() {
	for {
		time.Sleep(5 * time.Second)
		inflight.Range(func(k, v interface{}) bool {
			c := v.(inflightCall)
			if time.Since(c.since) > time.Minute && atomic.CompareAndSwapInt32(&finishing, 0, 1) {
				bad(c.key+"/does-not-return", "a call on this input has been running for more than a minute (it takes nanoseconds): the code under test does not terminate on it", c.replay)
				os.Exit(run.Finish("(aborted: a call under test did not return)", nil))
			}
			return true
		})
	}
}

func par(n int, f func(i int)) {
	var wg sync.WaitGroup
	sem := make(chan struct{}, runtime.NumCPU())
	for i := 0; i < n; i++ {
		i := i
		wg.Add(1)
		sem <- struct{}{}
		go func() { defer wg.Done(); defer func() { <-sem }(); f(i) }()
	}
	wg.Wait()
}

// ---------------------------------------------------------------------------

func checksums() {
	maxLen := fw.N(2048, 65535)
	var evals int64
	fill := func(kind int, n int, r *fw.Rand) []byte {
		b := make([]byte, n)
		switch kind {
		case 0:
		case 1:
			for i := range b {
				b[i] = 0xff
			}
		case 2:
			for i := range b {
				if i%2 == 0 {
					b[i] = 0xff
				}
			}
		case 3:
			for i := range b {
				if i%2 == 1 {
					b[i] = 0xff
				}
			}
		default:
			copy(b, r.Bytes(n))
		}
		return b
	}
	par(maxLen+1, func(n int) {
		if n > 4096 && fw.Thorough() && n%7 != 0 && n < 65000 && n&(n-1) != 0 && (n+1)&n != 0 {
			return // thorough: every length to 4096 and from 65000, every 7th and all 2^k, 2^k-1 between
		}
		r := fw.NewRand(run.Seed, "C15", "cs", n)
		var local int64
		for kind := 0; kind < 6; kind++ {
			b := fill(kind, n, r)
			inits := []uint16{0, 1, 0xfffe, 0xffff, 0x8000, 0x7fff, 0x00ff, 0xff00, uint16(r.U32()), uint16(r.U32())}
			if n <= 64 && (kind < 2 || kind == 4) {
				inits = inits[:0]
				for v := 0; v < 65536; v++ {
					inits = append(inits, uint16(v))
				}
			}
			for _, in := range inits {
				got := header.Checksum(b, in)
				want := rfc.Sum16(b, in)
				local++
				if got != want {
					bad("Checksum", fmt.Sprintf("Checksum(len %d kind %d, initial %#04x) = %#04x, RFC 1071 sum is %#04x", n, kind, in, got, want), map[string]interface{}{"len": n, "kind": kind, "initial": in, "buf_hex": fmt.Sprintf("%x", b[:min(n, 64)])})
					return
				}
			}
			// derived: a packet carrying the complemented sum verifies
			if n >= 2 {
				p := append([]byte(nil), b...)
				off := (r.Intn(n-1) / 2) * 2
				p[off], p[off+1] = 0, 0
				c := ^header.Checksum(p, 0)
				p[off], p[off+1] = byte(c>>8), byte(c)
				if v := header.Checksum(p, 0); v != 0xffff {
					bad("Checksum/verify", fmt.Sprintf("packet of %d bytes carrying the complemented sum at %d sums to %#04x, not 0xffff", n, off, v), map[string]interface{}{"len": n, "kind": kind, "off": off})
					return
				}
				local++
			}
			// chunked: summing two even-aligned pieces with the running initial equals the whole
			if n >= 2 {
				cut := (r.Intn(n) / 2) * 2
				in := uint16(r.U32())
				if got, want := header.Checksum(b[cut:], header.Checksum(b[:cut], in)), rfc.Sum16(b, in); got != want {
					bad("Checksum/chunked", fmt.Sprintf("len %d cut %d initial %#04x: chained = %#04x whole = %#04x", n, cut, in, got, want), nil)
					return
				}
				local++
			}
		}
		atomic.AddInt64(&evals, local)
		run.Distinct(fw.Hash("cs-len", n))
	})
	run.AddEvals(evals)
	run.Count("checksum_evaluations", evals)
	run.Count("checksum_max_len", int64(maxLen))

	// ChecksumCombine: all 2^32 pairs (always exhaustive; ~1 s on 16 cores)
	var mism int64
	var first uint64
	par(256, func(hi int) {
		for a := hi << 8; a < (hi+1)<<8; a++ {
			for b := 0; b < 65536; b++ {
				if header.ChecksumCombine(uint16(a), uint16(b)) != rfc.Add16(uint16(a), uint16(b)) {
					if atomic.AddInt64(&mism, 1) == 1 {
						atomic.StoreUint64(&first, uint64(a)<<16|uint64(b))
					}
				}
			}
		}
	})
	run.AddEvals(1 << 32)
	run.Count("ChecksumCombine_pairs(exhaustive)", 1<<32)
	run.Distinct(fw.Hash("combine-exhaustive"))
	if mism > 0 {
		a, b := uint16(first>>16), uint16(first)
		bad("ChecksumCombine", fmt.Sprintf("%d of 2^32 pairs differ, e.g. ChecksumCombine(%#04x,%#04x)=%#04x, one's-complement sum is %#04x", mism, a, b, header.ChecksumCombine(a, b), rfc.Add16(a, b)), map[string]uint16{"a": a, "b": b})
	}

	// PseudoHeaderChecksum
	r := fw.NewRand(run.Seed, "C15", "ph")
	for i := 0; i < fw.N(20000, 2000000); i++ {
		al := 4
		if i%2 == 1 {
			al = 16
		}
		src, dst := r.Bytes(al), r.Bytes(al)
		proto := uint8(r.U32())
		got := header.PseudoHeaderChecksum(tcpip.TransportProtocolNumber(proto), tcpip.Address(src), tcpip.Address(dst))
		want := rfc.Sum16([]byte{0, proto}, rfc.Sum16(dst, rfc.Sum16(src, 0)))
		run.Case(fw.Hash("ph", al, proto), true)
		if got != want {
			bad("PseudoHeaderChecksum", fmt.Sprintf("src %x dst %x proto %d: %#04x want %#04x", src, dst, proto, got, want), nil)
			break
		}
		// the same pair of addresses asked about by several protocols in a row (a host's TCP,
		// UDP and ICMPv6 traffic to one peer): the answer is a function of all three arguments
		if i%4 == 0 {
			for j := 0; j < 4; j++ {
				p2 := []uint8{6, 17, 58, 1, uint8(r.U32())}[r.Intn(5)]
				got := header.PseudoHeaderChecksum(tcpip.TransportProtocolNumber(p2), tcpip.Address(src), tcpip.Address(dst))
				want := rfc.Sum16([]byte{0, p2}, rfc.Sum16(dst, rfc.Sum16(src, 0)))
				if got != want {
					bad("PseudoHeaderChecksum", fmt.Sprintf("src %x dst %x proto %d (asked right after proto %d for the same addresses): %#04x want %#04x", src, dst, p2, proto, got, want), nil)
					return
				}
				proto = p2
			}
			run.Count("pseudo_header_protocol_sequences_per_address_pair", 1)
		}
	}
}

// concurrentHeaders: the header functions are called from every endpoint's own goroutine,
// so their result must not depend on what other goroutines are computing at the same time.
// Eight workers run the TCP checksum helpers and the pseudo-header sum on their own buffers
// and inputs (two address pairs are shared by all workers); every result is compared with
// the independent computation.
func concurrentHeaders() {
	workers := 8
	per := fw.N(150000, 3000000)
	pairs := [][2][]byte{{{10, 0, 0, 1}, {10, 0, 0, 2}}, {{0xfd, 0, 0, 0, 0, 0, 0, 0, 0, 0, 0, 0, 0, 0, 0, 1}, {0xfd, 0, 0, 0, 0, 0, 0, 0, 0, 0, 0, 0, 0, 0, 0, 2}}}
	var stop int32
	var wg sync.WaitGroup
	for w := 0; w < workers; w++ {
		w := w
		wg.Add(1)
		go func() {
			defer wg.Done()
			defer func() {
				if x := recover(); x != nil && atomic.CompareAndSwapInt32(&stop, 0, 1) {
					bad("concurrent/panic", fmt.Sprintf("worker %d: a header function panicked on a well-formed 20-byte header: %v", w, x), nil)
				}
			}()
			r := fw.NewRand(run.Seed, "C15", "conc", w)
			h := header.TCP(make([]byte, 20))
			for i := 0; i < per && atomic.LoadInt32(&stop) == 0; i++ {
				partial, length := uint16(r.U32()), uint16(r.U32())
				switch i % 3 {
				case 0:
					copy(h, r.Bytes(20))
					h[12] = 5<<4 | h[12]&0x0f // data offset: the 20 bytes at hand
					got := h.CalculateChecksum(partial, length)
					want := rfc.Sum16(h, rfc.Sum16([]byte{byte(length >> 8), byte(length)}, partial))
					if got != want && atomic.CompareAndSwapInt32(&stop, 0, 1) {
						bad("concurrent/tcp-CalculateChecksum", fmt.Sprintf("worker %d call %d: header %x partial %#04x length %d: %#04x, computed alone it is %#04x (other goroutines were computing other segments' checksums at the same time)", w, i, []byte(h), partial, length, got, want), nil)
					}
				case 1:
					seq, ack, fl, wnd := r.U32(), r.U32(), byte(r.Intn(64)), uint16(r.U32())
					h.EncodePartial(partial, length, seq, ack, fl, wnd)
					sa := []byte{byte(seq >> 24), byte(seq >> 16), byte(seq >> 8), byte(seq), byte(ack >> 24), byte(ack >> 16), byte(ack >> 8), byte(ack)}
					want := ^rfc.Sum16([]byte{byte(wnd >> 8), byte(wnd)}, rfc.Sum16(sa, rfc.Sum16([]byte{byte(length >> 8), byte(length), 0, fl}, partial)))
					if got := h.Checksum(); (got != want || h.SequenceNumber() != seq || h.AckNumber() != ack || h.WindowSize() != wnd) && atomic.CompareAndSwapInt32(&stop, 0, 1) {
						bad("concurrent/tcp-EncodePartial", fmt.Sprintf("worker %d call %d: partial %#04x length %d seq %d ack %d flags %#x window %d: checksum field %#04x, computed alone it is %#04x", w, i, partial, length, seq, ack, fl, wnd, got, want), nil)
					}
				default:
					pr := pairs[r.Intn(2)]
					p := []uint8{6, 17, 58, 1}[r.Intn(4)]
					got := header.PseudoHeaderChecksum(tcpip.TransportProtocolNumber(p), tcpip.Address(pr[0]), tcpip.Address(pr[1]))
					want := rfc.Sum16([]byte{0, p}, rfc.Sum16(pr[1], rfc.Sum16(pr[0], 0)))
					if got != want && atomic.CompareAndSwapInt32(&stop, 0, 1) {
						bad("concurrent/PseudoHeaderChecksum", fmt.Sprintf("worker %d call %d: src %x dst %x proto %d: %#04x want %#04x", w, i, pr[0], pr[1], p, got, want), nil)
					}
				}
			}
		}()
	}
	wg.Wait()
	run.AddEvals(int64(workers * per))
	run.Count("concurrent_header_calls", int64(workers*per))
	run.Distinct(fw.Hash("concurrent-headers"))
}

func min(a, b int) int {
	if a < b {
		return a
	}
	return b
}

// ---------------------------------------------------------------------------
// field sweeps: for each 16-bit-or-smaller field every value once (others
// PRNG), wider fields boundaries + PRNG.

func u32vals(r *fw.Rand, n int) []uint32 {
	v := []uint32{0, 1, 0x7fffffff, 0x80000000, 0x80000001, 0xfffffffe, 0xffffffff, 0x0000ffff, 0x00010000, 0xff000000, 0x000000ff}
	for i := 0; i < n; i++ {
		v = append(v, r.U32())
	}
	return v
}

func codecs() {
	nfield := 65536
	// ---- Ethernet
	par(16, func(w int) {
		r := fw.NewRand(run.Seed, "C15", "eth", w)
		for v := w; v < nfield; v += 16 {
			src, dst := r.Bytes(6), r.Bytes(6)
			b := make([]byte, 14)
			rep := map[string]interface{}{"hdr": "eth", "type": v}
			guard("eth", rep, func() {
				header.Ethernet(b).Encode(&header.EthernetFields{SrcAddr: tcpip.LinkAddress(src), DstAddr: tcpip.LinkAddress(dst), Type: tcpip.NetworkProtocolNumber(v)})
				e, err := rfc.ParseEth(b)
				if err != nil || e.Type != uint16(v) || !bytes.Equal(e.Src[:], src) || !bytes.Equal(e.Dst[:], dst) {
					bad("eth/encode", fmt.Sprintf("encoded %x decodes to %+v", b, e), rep)
				}
				h := header.Ethernet(b)
				if uint16(h.Type()) != uint16(v) || string(h.SourceAddress()) != string(src) || string(h.DestinationAddress()) != string(dst) {
					bad("eth/getters", "getters disagree with encoded values", rep)
				}
				// reverse: rfc builds, repo reads
				var e2 rfc.Eth
				copy(e2.Src[:], src)
				copy(e2.Dst[:], dst)
				e2.Type = uint16(v)
				h2 := header.Ethernet(e2.Bytes())
				if uint16(h2.Type()) != uint16(v) || string(h2.SourceAddress()) != string(src) || string(h2.DestinationAddress()) != string(dst) {
					bad("eth/decode", "getters disagree with an RFC-built header", rep)
				}
			})
			run.Case(fw.Hash("eth", v), true)
		}
	})
	// ---- ARP
	par(16, func(w int) {
		r := fw.NewRand(run.Seed, "C15", "arp", w)
		for v := w; v < nfield; v += 16 {
			a := rfc.ARP{HType: 1, PType: 0x0800, HLen: 6, PLen: 4, Op: uint16(v)}
			copy(a.SHA[:], r.Bytes(6))
			copy(a.SPA[:], r.Bytes(4))
			copy(a.THA[:], r.Bytes(6))
			copy(a.TPA[:], r.Bytes(4))
			rep := map[string]interface{}{"hdr": "arp", "op": v}
			guard("arp", rep, func() {
				h := header.ARP(make([]byte, header.ARPSize))
				h.SetIpv4OverEthernet()
				h.SetOp(header.ARPOp(v))
				copy(h.HardwareAddressSender(), a.SHA[:])
				copy(h.ProtocolAddressSender(), a.SPA[:])
				copy(h.HardwareAddressTarget(), a.THA[:])
				copy(h.ProtocolAddressTarget(), a.TPA[:])
				d, err := rfc.ParseARP(h)
				if err != nil || d != a {
					bad("arp/encode", fmt.Sprintf("encoded %x decodes to %+v err %v, want %+v", []byte(h), d, err, a), rep)
				}
				g := header.ARP(a.Bytes())
				if !g.IsValid() || uint16(g.Op()) != uint16(v) || !bytes.Equal(g.HardwareAddressSender(), a.SHA[:]) || !bytes.Equal(g.ProtocolAddressSender(), a.SPA[:]) || !bytes.Equal(g.HardwareAddressTarget(), a.THA[:]) || !bytes.Equal(g.ProtocolAddressTarget(), a.TPA[:]) {
					bad("arp/decode", "getters disagree with an RFC-built packet", rep)
				}
			})
			run.Case(fw.Hash("arp", v), true)
		}
	})
	// ARP.IsValid on every length and on each wrong fixed field
	for n := 0; n <= 40; n++ {
		guard("arp/IsValid", n, func() {
			b := make([]byte, n)
			if n >= 8 {
				header.ARP(b).SetIpv4OverEthernet()
			}
			if got := header.ARP(b).IsValid(); got != (n >= 28) {
				bad("arp/IsValid", fmt.Sprintf("IsValid on %d bytes = %v", n, got), n)
			}
		})
	}

	// ---- IPv4: fields swept one at a time
	type f4 struct {
		name string
		max  int
	}
	ipv4Fields := []f4{{"tos", 256}, {"totallen", 65536}, {"id", 65536}, {"flags", 8}, {"fragoff", 8192}, {"ttl", 256}, {"proto", 256}, {"csum", 65536}, {"ihl", 11}}
	par(len(ipv4Fields), func(fi int) {
		fld := ipv4Fields[fi]
		r := fw.NewRand(run.Seed, "C15", "ipv4", fld.name)
		for v := 0; v < fld.max; v++ {
			p := rfc.IPv4{IHL: 5, TOS: uint8(r.U32()), TotalLen: uint16(r.U32()), ID: uint16(r.U32()), Flags: uint8(r.Intn(8)), FragOff: uint16(r.Intn(8192)), TTL: uint8(r.U32()), Proto: uint8(r.U32()), Csum: uint16(r.U32())}
			copy(p.Src[:], r.Bytes(4))
			copy(p.Dst[:], r.Bytes(4))
			switch fld.name {
			case "tos":
				p.TOS = uint8(v)
			case "totallen":
				p.TotalLen = uint16(v)
			case "id":
				p.ID = uint16(v)
			case "flags":
				p.Flags = uint8(v)
			case "fragoff":
				p.FragOff = uint16(v)
			case "ttl":
				p.TTL = uint8(v)
			case "proto":
				p.Proto = uint8(v)
			case "csum":
				p.Csum = uint16(v)
			case "ihl":
				p.IHL = uint8(5 + v)
				p.Options = r.Bytes(4 * v)
			}
			rep := map[string]interface{}{"hdr": "ipv4", "field": fld.name, "value": v}
			guard("ipv4", rep, func() {
				hl := int(p.IHL) * 4
				b := make([]byte, hl)
				copy(b[20:], p.Options)
				header.IPv4(b).Encode(&header.IPv4Fields{IHL: uint8(hl), TOS: p.TOS, TotalLength: p.TotalLen, ID: p.ID, Flags: p.Flags, FragmentOffset: p.FragOff * 8, TTL: p.TTL, Protocol: p.Proto, Checksum: p.Csum, SrcAddr: tcpip.Address(p.Src[:]), DstAddr: tcpip.Address(p.Dst[:])})
				want := p.Bytes(false)
				if !bytes.Equal(b, want) {
					bad("ipv4/encode/"+fld.name, fmt.Sprintf("Encode produced %x, RFC 791 layout is %x", b, want), rep)
				}
				reused("ipv4", 20, b, rep, func(d []byte) {
					header.IPv4(d).Encode(&header.IPv4Fields{IHL: uint8(hl), TOS: p.TOS, TotalLength: p.TotalLen, ID: p.ID, Flags: p.Flags, FragmentOffset: p.FragOff * 8, TTL: p.TTL, Protocol: p.Proto, Checksum: p.Csum, SrcAddr: tcpip.Address(p.Src[:]), DstAddr: tcpip.Address(p.Dst[:])})
				})
				h := header.IPv4(want)
				tos, _ := h.TOS()
				if int(h.HeaderLength()) != hl || tos != p.TOS || h.TotalLength() != p.TotalLen || h.ID() != p.ID || h.Flags() != p.Flags || h.FragmentOffset() != p.FragOff*8 || h.TTL() != p.TTL || h.Protocol() != p.Proto || h.Checksum() != p.Csum || string(h.SourceAddress()) != string(p.Src[:]) || string(h.DestinationAddress()) != string(p.Dst[:]) || uint8(h.TransportProtocol()) != p.Proto {
					bad("ipv4/getters/"+fld.name, fmt.Sprintf("getters disagree with RFC-built header %x", want), rep)
				}
				// checksum: fill, then verify with both
				h.SetChecksum(0)
				h.SetChecksum(^h.CalculateChecksum())
				if rfc.Sum16(want[:hl], 0) != 0xffff {
					bad("ipv4/checksum", fmt.Sprintf("header %x with CalculateChecksum() complement does not verify", want[:hl]), rep)
				}
				if header.IPVersion(want) != 4 {
					bad("ipv4/version", "IPVersion != 4", rep)
				}
			})
			run.Case(fw.Hash("ipv4", fld.name, v), true)
		}
	})
	// IPv4 setters + EncodePartial + Payload + IsValid
	{
		r := fw.NewRand(run.Seed, "C15", "ipv4set")
		for i := 0; i < fw.N(20000, 400000); i++ {
			pl := r.Intn(64)
			p := rfc.IPv4{IHL: 5, TTL: 64, Proto: 6, ID: uint16(r.U32()), Payload: r.Bytes(pl)}
			copy(p.Src[:], r.Bytes(4))
			copy(p.Dst[:], r.Bytes(4))
			raw := p.Bytes(true)
			guard("ipv4/setters", i, func() {
				h := header.IPv4(raw)
				if !bytes.Equal(h.Payload(), p.Payload) || int(h.PayloadLength()) != pl {
					bad("ipv4/payload", "Payload()/PayloadLength() disagree", i)
				}
				if !h.IsValid(len(raw)) || h.IsValid(len(raw)-1) && pl >= 0 && len(raw)-1 < int(h.TotalLength()) {
					bad("ipv4/IsValid", "IsValid disagrees with lengths", i)
				}
				ns, nd := r.Bytes(4), r.Bytes(4)
				h.SetSourceAddress(tcpip.Address(ns))
				h.SetDestinationAddress(tcpip.Address(nd))
				tl := uint16(r.U32())
				h.SetTotalLength(tl)
				fl, fo := uint8(r.Intn(8)), uint16(r.Intn(8192))
				h.SetFlagsFragmentOffset(fl, fo*8)
				tos := uint8(r.U32())
				h.SetTOS(tos, 0)
				h.SetChecksum(0)
				h.SetChecksum(^h.CalculateChecksum())
				raw2 := append([]byte(nil), raw[:20]...)
				q, err := rfc.ParseIPv4(append(raw2, make([]byte, 0)...))
				_ = err // total length is random here; only field equality is judged
				if q.TOS != tos || q.TotalLen != tl || q.Flags != fl || q.FragOff != fo || !bytes.Equal(q.Src[:], ns) || !bytes.Equal(q.Dst[:], nd) || rfc.Sum16(raw[:20], 0) != 0xffff {
					bad("ipv4/setters", fmt.Sprintf("after setters header %x decodes to %+v", raw[:20], q), i)
				}
				// EncodePartial: partial = sum of the header with length and checksum zero
				h.SetTotalLength(0)
				h.SetChecksum(0)
				partial := header.Checksum(raw[:20], 0)
				tl2 := uint16(r.U32())
				h.EncodePartial(partial, tl2)
				if h.TotalLength() != tl2 || rfc.Sum16(raw[:20], 0) != 0xffff {
					bad("ipv4/EncodePartial", fmt.Sprintf("header %x does not verify after EncodePartial", raw[:20]), i)
				}
			})
			run.Case(fw.Hash("ipv4set", i%64), true)
		}
	}
	// ---- IPv6
	par(4, func(w int) {
		r := fw.NewRand(run.Seed, "C15", "ipv6", w)
		names := []string{"tc", "payloadlen", "next", "hop"}
		maxes := []int{256, 65536, 256, 256}
		for v := 0; v < maxes[w]; v++ {
			p := rfc.IPv6{TC: uint8(r.U32()), Flow: r.U32() & 0xfffff, PayloadLen: uint16(r.U32()), Next: uint8(r.U32()), Hop: uint8(r.U32())}
			copy(p.Src[:], r.Bytes(16))
			copy(p.Dst[:], r.Bytes(16))
			switch w {
			case 0:
				p.TC = uint8(v)
			case 1:
				p.PayloadLen = uint16(v)
			case 2:
				p.Next = uint8(v)
			case 3:
				p.Hop = uint8(v)
			}
			rep := map[string]interface{}{"hdr": "ipv6", "field": names[w], "value": v}
			guard("ipv6", rep, func() {
				b := make([]byte, 40)
				header.IPv6(b).Encode(&header.IPv6Fields{TrafficClass: p.TC, FlowLabel: p.Flow, PayloadLength: p.PayloadLen, NextHeader: p.Next, HopLimit: p.Hop, SrcAddr: tcpip.Address(p.Src[:]), DstAddr: tcpip.Address(p.Dst[:])})
				want := p.Bytes(false)
				if !bytes.Equal(b, want) {
					bad("ipv6/encode/"+names[w], fmt.Sprintf("Encode produced %x, RFC 8200 layout is %x", b, want), rep)
				}
				reused("ipv6", 40, b, rep, func(d []byte) {
					header.IPv6(d).Encode(&header.IPv6Fields{TrafficClass: p.TC, FlowLabel: p.Flow, PayloadLength: p.PayloadLen, NextHeader: p.Next, HopLimit: p.Hop, SrcAddr: tcpip.Address(p.Src[:]), DstAddr: tcpip.Address(p.Dst[:])})
				})
				h := header.IPv6(want)
				tc, fl := h.TOS()
				if tc != p.TC || fl != p.Flow || h.PayloadLength() != p.PayloadLen || h.NextHeader() != p.Next || h.HopLimit() != p.Hop || string(h.SourceAddress()) != string(p.Src[:]) || string(h.DestinationAddress()) != string(p.Dst[:]) || uint8(h.TransportProtocol()) != p.Next {
					bad("ipv6/getters/"+names[w], fmt.Sprintf("getters disagree with RFC-built header %x", want), rep)
				}
				if header.IPVersion(want) != 6 {
					bad("ipv6/version", "IPVersion != 6", rep)
				}
			})
			run.Case(fw.Hash("ipv6", w, v), true)
		}
		// flow label: boundaries + PRNG (20 bits: sweep all in thorough)
		if w == 0 {
			nfl := fw.N(1<<14, 1<<20)
			for i := 0; i < nfl; i++ {
				fl := uint32(i)
				if !fw.Thorough() {
					fl = r.U32() & 0xfffff
					if i < 64 {
						fl = []uint32{0, 1, 0xfffff, 0xffffe, 0x80000, 0x7ffff, 0x0ffff, 0x10000}[i%8]
					}
				}
				b := make([]byte, 40)
				tc := uint8(r.U32())
				header.IPv6(b).SetTOS(tc, fl)
				q, _ := rfc.ParseIPv6(b)
				gtc, gfl := header.IPv6(b).TOS()
				if q.TC != tc || q.Flow != fl || gtc != tc || gfl != fl {
					bad("ipv6/flow", fmt.Sprintf("SetTOS(%d,%#x) -> %x decodes tc=%d flow=%#x", tc, fl, b[:4], q.TC, q.Flow), nil)
					break
				}
				run.Case(fw.Hash("ipv6flow", fl>>10), true)
			}
		}
	})
	// ---- IPv6 fragment header
	par(8, func(w int) {
		r := fw.NewRand(run.Seed, "C15", "frag6", w)
		for off := w; off < 8192; off += 8 {
			for _, m := range []bool{false, true} {
				f := rfc.Frag6{Next: uint8(r.U32()), Off: uint16(off), More: m, ID: r.U32()}
				rep := map[string]interface{}{"hdr": "ipv6frag", "off": off, "more": m}
				guard("ipv6frag", rep, func() {
					b := make([]byte, 8)
					header.IPv6Fragment(b).Encode(&header.IPv6FragmentFields{NextHeader: f.Next, FragmentOffset: f.Off, M: f.More, Identification: f.ID})
					if want := f.Bytes(); !bytes.Equal(b, want) {
						bad("ipv6frag/encode", fmt.Sprintf("Encode produced %x, RFC 8200 layout is %x", b, want), rep)
					}
					// into a buffer that held another fragment header (all ones). The reserved byte is
					// not the encoder's (it is ignored on reception), so fields are compared, not bytes.
					d := bytes.Repeat([]byte{0xff}, 8)
					header.IPv6Fragment(d).Encode(&header.IPv6FragmentFields{NextHeader: f.Next, FragmentOffset: f.Off, M: f.More, Identification: f.ID})
					if g, err := rfc.ParseFrag6(d); err != nil || g.Next != f.Next || g.Off != f.Off || g.More != f.More || g.ID != f.ID {
						bad("ipv6frag/encode-into-used-buffer", fmt.Sprintf("encoded next=%d off=%d more=%v id=%d into a buffer that held another fragment header: %x reads back as next=%d off=%d more=%v id=%d", f.Next, f.Off, f.More, f.ID, d, g.Next, g.Off, g.More, g.ID), rep)
					}
					h := header.IPv6Fragment(f.Bytes())
					if !h.IsValid() || h.NextHeader() != f.Next || h.FragmentOffset() != f.Off || h.More() != f.More || h.ID() != f.ID || uint8(h.TransportProtocol()) != f.Next {
						bad("ipv6frag/getters", "getters disagree with RFC-built header", rep)
					}
				})
				run.Case(fw.Hash("frag6", off, m), true)
			}
		}
	})
	// ---- UDP
	par(4, func(w int) {
		r := fw.NewRand(run.Seed, "C15", "udp", w)
		for v := 0; v < nfield; v++ {
			u := rfc.UDP{SrcPort: uint16(r.U32()), DstPort: uint16(r.U32()), Len: uint16(r.U32()), Csum: uint16(r.U32())}
			switch w {
			case 0:
				u.SrcPort = uint16(v)
			case 1:
				u.DstPort = uint16(v)
			case 2:
				u.Len = uint16(v)
			case 3:
				u.Csum = uint16(v)
			}
			rep := map[string]interface{}{"hdr": "udp", "field": w, "value": v}
			guard("udp", rep, func() {
				b := make([]byte, 8)
				header.UDP(b).Encode(&header.UDPFields{SrcPort: u.SrcPort, DstPort: u.DstPort, Length: u.Len, Checksum: u.Csum})
				want := u.Bytes4([4]byte{}, [4]byte{}, false)
				if !bytes.Equal(b, want) {
					bad("udp/encode", fmt.Sprintf("Encode produced %x, RFC 768 layout is %x", b, want), rep)
				}
				reused("udp", 8, b, rep, func(d []byte) {
					header.UDP(d).Encode(&header.UDPFields{SrcPort: u.SrcPort, DstPort: u.DstPort, Length: u.Len, Checksum: u.Csum})
				})
				h := header.UDP(want)
				if h.SourcePort() != u.SrcPort || h.DestinationPort() != u.DstPort || h.Length() != u.Len || h.Checksum() != u.Csum {
					bad("udp/getters", "getters disagree with RFC-built header", rep)
				}
				sp, dp, cs := uint16(r.U32()), uint16(r.U32()), uint16(r.U32())
				h.SetSourcePort(sp)
				h.SetDestinationPort(dp)
				h.SetChecksum(cs)
				if rfc.Be16(want[0:]) != sp || rfc.Be16(want[2:]) != dp || rfc.Be16(want[6:]) != cs {
					bad("udp/setters", "setters wrote the wrong bytes", rep)
				}
			})
			run.Case(fw.Hash("udp", w, v), true)
		}
	})
	// UDP whole-datagram checksum the way the stack computes it
	{
		r := fw.NewRand(run.Seed, "C15", "udpsum")
		for i := 0; i < fw.N(6000, 200000); i++ {
			pl := i % 1500
			if i >= 3000 {
				pl = r.Intn(65000)
			}
			payload := r.Bytes(pl)
			var src, dst [4]byte
			copy(src[:], r.Bytes(4))
			copy(dst[:], r.Bytes(4))
			b := make([]byte, 8+pl)
			copy(b[8:], payload)
			h := header.UDP(b)
			length := uint16(8 + pl)
			h.Encode(&header.UDPFields{SrcPort: uint16(r.U32()), DstPort: uint16(r.U32()), Length: length})
			xsum := header.PseudoHeaderChecksum(17, tcpip.Address(src[:]), tcpip.Address(dst[:]))
			xsum = header.Checksum(payload, xsum)
			h.SetChecksum(^h.CalculateChecksum(xsum, length))
			if _, err := rfc.ParseUDP4(b, src, dst); err != nil && h.Checksum() != 0 {
				bad("udp/checksum", fmt.Sprintf("payload %d bytes: %v", pl, err), map[string]interface{}{"payload_len": pl})
				break
			}
			if !bytes.Equal(h.Payload(), payload) {
				bad("udp/payload", "Payload() differs", pl)
			}
			run.Case(fw.Hash("udpsum", pl), true)
		}
	}
	// ---- ICMPv4 / ICMPv6 type, code, checksum, payload
	for v := 0; v < 65536; v++ {
		b := make([]byte, 8)
		guard("icmp", v, func() {
			h := header.ICMPv4(b)
			h.SetType(header.ICMPv4Type(v >> 8))
			h.SetCode(byte(v))
			h.SetChecksum(uint16(v) ^ 0x5aa5)
			if b[0] != byte(v>>8) || b[1] != byte(v) || rfc.Be16(b[2:]) != uint16(v)^0x5aa5 || h.Type() != header.ICMPv4Type(v>>8) || h.Code() != byte(v) || h.Checksum() != uint16(v)^0x5aa5 || len(h.Payload()) != 4 {
				bad("icmpv4", fmt.Sprintf("type/code/checksum %#x mis-encoded: %x", v, b), v)
			}
			c := make([]byte, 8)
			g := header.ICMPv6(c)
			g.SetType(header.ICMPv6Type(v >> 8))
			g.SetCode(byte(v))
			g.SetChecksum(uint16(v) ^ 0x5aa5)
			if c[0] != byte(v>>8) || c[1] != byte(v) || rfc.Be16(c[2:]) != uint16(v)^0x5aa5 || g.Type() != header.ICMPv6Type(v>>8) || g.Code() != byte(v) || g.Checksum() != uint16(v)^0x5aa5 || len(g.Payload()) != 4 {
				bad("icmpv6", fmt.Sprintf("type/code/checksum %#x mis-encoded: %x", v, c), v)
			}
		})
		run.Case(fw.Hash("icmp", v), true)
	}
}

// ---------------------------------------------------------------------------
// TCP header and options

func tcpCodec() {
	names := []string{"sport", "dport", "window", "csum", "urg", "flags", "dataoff"}
	maxes := []int{65536, 65536, 65536, 65536, 65536, 256, 11}
	par(len(names), func(w int) {
		r := fw.NewRand(run.Seed, "C15", "tcp", w)
		for v := 0; v < maxes[w]; v++ {
			t := rfc.TCP{SrcPort: uint16(r.U32()), DstPort: uint16(r.U32()), Seq: r.U32(), Ack: r.U32(), DataOff: 5, Flags: uint8(r.Intn(64)), Window: uint16(r.U32()), Csum: uint16(r.U32()), Urg: uint16(r.U32())}
			switch w {
			case 0:
				t.SrcPort = uint16(v)
			case 1:
				t.DstPort = uint16(v)
			case 2:
				t.Window = uint16(v)
			case 3:
				t.Csum = uint16(v)
			case 4:
				t.Urg = uint16(v)
			case 5:
				t.Flags = uint8(v)
			case 6:
				t.DataOff = uint8(5 + v)
				t.RawOpts = make([]byte, 4*v)
				for i := range t.RawOpts {
					t.RawOpts[i] = 1
				}
			}
			rep := map[string]interface{}{"hdr": "tcp", "field": names[w], "value": v}
			guard("tcp", rep, func() {
				hl := int(t.DataOff) * 4
				b := make([]byte, hl)
				copy(b[20:], t.RawOpts)
				header.TCP(b).Encode(&header.TCPFields{SrcPort: t.SrcPort, DstPort: t.DstPort, SeqNum: t.Seq, AckNum: t.Ack, DataOffset: uint8(hl), Flags: t.Flags, WindowSize: t.Window, Checksum: t.Csum, UrgentPointer: t.Urg})
				want := t.Bytes4([4]byte{}, [4]byte{}, false)
				if w == 5 && v >= 64 {
					// the two reserved/ECN bits: compare the raw flags byte
					want[13] = uint8(v)
				}
				if !bytes.Equal(b, want) {
					bad("tcp/encode/"+names[w], fmt.Sprintf("Encode produced %x, RFC 793 layout is %x", b, want), rep)
				}
				reused("tcp", 20, b, rep, func(d []byte) {
					header.TCP(d).Encode(&header.TCPFields{SrcPort: t.SrcPort, DstPort: t.DstPort, SeqNum: t.Seq, AckNum: t.Ack, DataOffset: uint8(hl), Flags: t.Flags, WindowSize: t.Window, Checksum: t.Csum, UrgentPointer: t.Urg})
				})
				h := header.TCP(want)
				if h.SourcePort() != t.SrcPort || h.DestinationPort() != t.DstPort || h.SequenceNumber() != t.Seq || h.AckNumber() != t.Ack || int(h.DataOffset()) != hl || h.Flags() != want[13] || h.WindowSize() != t.Window || h.Checksum() != t.Csum || !bytes.Equal(h.Options(), t.RawOpts) || len(h.Payload()) != 0 {
					bad("tcp/getters/"+names[w], fmt.Sprintf("getters disagree with RFC-built header %x", want), rep)
				}
				// the four bits next to the data offset (reserved, NS) as another encoder may set
				// them: the data offset is the high nibble only
				for _, low := range []byte{0x1, 0x4, 0x8, 0xf} {
					w2 := append(append([]byte(nil), want...), 0xAA, 0xBB, 0xCC)
					w2[12] |= low
					h2 := header.TCP(w2)
					if int(h2.DataOffset()) != hl || !bytes.Equal(h2.Options(), t.RawOpts) || !bytes.Equal(h2.Payload(), []byte{0xAA, 0xBB, 0xCC}) {
						bad("tcp/getters/reserved-bits", fmt.Sprintf("header %x with the low nibble of octet 12 set to %#x: DataOffset()=%d (RFC 793: %d), options %x, payload %x", w2[:hl], low, h2.DataOffset(), hl, h2.Options(), h2.Payload()), rep)
						break
					}
				}
			})
			run.Case(fw.Hash("tcp", w, v), true)
		}
	})
	// 32-bit fields
	{
		r := fw.NewRand(run.Seed, "C15", "tcp32")
		for _, s := range u32vals(r, fw.N(20000, 1000000)) {
			a := r.U32()
			b := make([]byte, 20)
			header.TCP(b).Encode(&header.TCPFields{SeqNum: s, AckNum: a, DataOffset: 20})
			if rfc.Be32(b[4:]) != s || rfc.Be32(b[8:]) != a || header.TCP(b).SequenceNumber() != s || header.TCP(b).AckNumber() != a {
				bad("tcp/seqack", fmt.Sprintf("seq %#x ack %#x encoded as %x", s, a, b), nil)
				break
			}
			run.Case(fw.Hash("tcp32", s>>24), true)
		}
	}
	// full segment checksum the way the stack computes it (payload + EncodePartial path)
	{
		r := fw.NewRand(run.Seed, "C15", "tcpsum")
		for i := 0; i < fw.N(6000, 200000); i++ {
			pl := i % 1500
			if i >= 3000 {
				pl = r.Intn(65000)
			}
			optw := r.Intn(11)
			var src, dst [4]byte
			copy(src[:], r.Bytes(4))
			copy(dst[:], r.Bytes(4))
			payload := r.Bytes(pl)
			hl := 20 + 4*optw
			b := make([]byte, hl+pl)
			for j := 20; j < hl; j++ {
				b[j] = 1
			}
			copy(b[hl:], payload)
			h := header.TCP(b[:hl])
			h.Encode(&header.TCPFields{SrcPort: uint16(r.U32()), DstPort: uint16(r.U32()), SeqNum: r.U32(), AckNum: r.U32(), DataOffset: uint8(hl), Flags: uint8(r.Intn(64)), WindowSize: uint16(r.U32())})
			length := uint16(hl + pl)
			xsum := header.PseudoHeaderChecksum(6, tcpip.Address(src[:]), tcpip.Address(dst[:]))
			xsum = header.Checksum(payload, xsum)
			h.SetChecksum(^h.CalculateChecksum(xsum, length))
			if _, err := rfc.ParseTCP4(b, src, dst, true); err != nil {
				bad("tcp/checksum", fmt.Sprintf("payload %d bytes, %d option words: %v", pl, optw, err), map[string]interface{}{"payload_len": pl, "opt_words": optw})
				break
			}
			run.Case(fw.Hash("tcpsum", pl, optw), true)
		}
	}
}

// An abstract option for generation.
type gopt struct {
	Kind  string // mss ws ts sackperm sack nop eol unknown
	A, B  uint32
	Blk   [][2]uint32
	Bytes []byte
}

func (g gopt) rfcBytes() []byte {
	switch g.Kind {
	case "mss":
		return rfc.OptMSS(uint16(g.A))
	case "ws":
		return rfc.OptWS(uint8(g.A))
	case "ts":
		return rfc.OptTS(g.A, g.B)
	case "sackperm":
		return rfc.OptSACKPerm()
	case "sack":
		return rfc.OptSACK(g.Blk)
	case "nop":
		return []byte{1}
	case "eol":
		return []byte{0}
	}
	return g.Bytes
}

func (g gopt) repoEncode(b []byte) int {
	switch g.Kind {
	case "mss":
		return header.EncodeMSSOption(g.A, b)
	case "ws":
		return header.EncodeWSOption(int(g.A), b)
	case "ts":
		return header.EncodeTSOption(g.A, g.B, b)
	case "sackperm":
		return header.EncodeSACKPermittedOption(b)
	case "sack":
		var bl []header.SACKBlock
		for _, x := range g.Blk {
			bl = append(bl, header.SACKBlock{Start: seqnum.Value(x[0]), End: seqnum.Value(x[1])})
		}
		return header.EncodeSACKBlocks(bl, b)
	case "nop":
		return header.EncodeNOP(b)
	}
	return copy(b, g.Bytes)
}

func genOpt(r *fw.Rand, kind int) gopt {
	switch kind {
	case 0:
		return gopt{Kind: "mss", A: uint32(1 + r.Intn(65535))}
	case 1:
		return gopt{Kind: "ws", A: uint32(r.Intn(15))}
	case 2:
		return gopt{Kind: "ts", A: r.U32(), B: r.U32()}
	case 3:
		return gopt{Kind: "sackperm"}
	case 4:
		n := r.Intn(5)
		g := gopt{Kind: "sack"}
		for i := 0; i < n; i++ {
			g.Blk = append(g.Blk, [2]uint32{r.U32(), r.U32()})
		}
		if n == 0 {
			g.Bytes = []byte{5, 2}
		}
		return g
	case 5:
		return gopt{Kind: "nop"}
	default:
		l := 2 + r.Intn(6)
		b := append([]byte{byte(30 + r.Intn(200)), byte(l)}, r.Bytes(l-2)...)
		return gopt{Kind: "unknown", Bytes: b}
	}
}

// expected parse results of a well-formed option list
func expectSyn(opts []gopt, isAck bool) header.TCPSynOptions {
	e := header.TCPSynOptions{MSS: 536, WS: -1}
	for _, g := range opts {
		switch g.Kind {
		case "mss":
			e.MSS = uint16(g.A)
		case "ws":
			e.WS = int(g.A)
		case "ts":
			e.TS = true
			e.TSVal = g.A
			if isAck {
				e.TSEcr = g.B
			}
		case "sackperm":
			e.SACKPermitted = true
		}
	}
	return e
}

// sackEncoder: EncodeSACKBlocks for 0..6 blocks into destinations of every length 0..50
// (an option area that is nearly or entirely used up included): as many whole blocks as
// fit, nothing at all if none fits, nothing outside the destination.
func sackEncoder() {
	r := fw.NewRand(run.Seed, "C15", "sackenc")
	for nb := 0; nb <= 6; nb++ {
		for room := 0; room <= 50; room++ {
			var bl []header.SACKBlock
			var want []byte
			fit := 0
			if room >= 2 {
				fit = (room - 2) / 8
			}
			if fit > nb {
				fit = nb
			}
			if fit > 4 {
				fit = 4
			}
			for i := 0; i < nb; i++ {
				a, b := r.U32(), r.U32()
				bl = append(bl, header.SACKBlock{Start: seqnum.Value(a), End: seqnum.Value(b)})
				if i < fit {
					want = append(want, byte(a>>24), byte(a>>16), byte(a>>8), byte(a), byte(b>>24), byte(b>>16), byte(b>>8), byte(b))
				}
			}
			if fit > 0 {
				want = append([]byte{5, byte(2 + 8*fit)}, want...)
			}
			frame := bytes.Repeat([]byte{0xEE}, room+8)
			dst := frame[:room:room]
			n, msg := 0, ""
			func() {
				defer func() {
					if x := recover(); x != nil {
						msg = fmt.Sprintf("panic: %v", x)
					}
				}()
				n = header.EncodeSACKBlocks(bl, dst)
			}()
			rep := map[string]interface{}{"blocks": nb, "room": room}
			run.Case(fw.Hash("sackenc", nb, room), true)
			switch {
			case msg != "":
				bad("tcpopt/EncodeSACKBlocks", fmt.Sprintf("%d blocks into a destination of %d bytes: %s", nb, room, msg), rep)
				return
			case n != len(want) || !bytes.Equal(dst[:len(want)], want):
				bad("tcpopt/EncodeSACKBlocks", fmt.Sprintf("%d blocks into a destination of %d bytes: returned %d, wrote %x; %d blocks fit: want %d bytes %x", nb, room, n, dst[:minI(n, room)], fit, len(want), want), rep)
				return
			}
			for i := len(want); i < len(frame); i++ {
				if frame[i] != 0xEE {
					bad("tcpopt/EncodeSACKBlocks", fmt.Sprintf("%d blocks into a destination of %d bytes: byte %d, outside the %d bytes reported as written, was changed to %#x", nb, room, i, len(want), frame[i]), rep)
					return
				}
			}
		}
	}
	run.Count("sack_encoder_cases", 7*51)
}

func minI(a, b int) int {
	if a < 0 {
		return 0
	}
	if a < b {
		return a
	}
	return b
}

func tcpOptions() {
	sackEncoder()
	// (a) every sequence of up to 4 options from the alphabet, encoded by the
	// repo's encoders and by rfc's, parsed by both parsers.
	alpha := 7
	maxSeq := fw.N(4, 5)
	var seqs [][]int
	var rec func(cur []int)
	rec = func(cur []int) {
		seqs = append(seqs, append([]int(nil), cur...))
		if len(cur) == maxSeq {
			return
		}
		for k := 0; k < alpha; k++ {
			rec(append(cur, k))
		}
	}
	rec(nil)
	run.Count("option_sequences_exhaustive", int64(len(seqs)))
	par(16, func(w int) {
		r := fw.NewRand(run.Seed, "C15", "opts", w)
		for si := w; si < len(seqs); si += 16 {
			var opts []gopt
			for _, k := range seqs[si] {
				opts = append(opts, genOpt(r, k))
			}
			var viaRepo, viaRFC []byte
			buf := make([]byte, 128)
			off := 0
			fits := true
			for _, g := range opts {
				if g.Kind == "sack" && len(g.Blk) == 0 {
					off += copy(buf[off:], g.Bytes)
					continue
				}
				n := g.repoEncode(buf[off:])
				if n == 0 {
					fits = false
				}
				off += n
			}
			viaRepo = append([]byte(nil), buf[:off]...)
			for _, g := range opts {
				if g.Kind == "sack" && len(g.Blk) == 0 {
					viaRFC = append(viaRFC, g.Bytes...)
					continue
				}
				viaRFC = append(viaRFC, g.rfcBytes()...)
			}
			rep := map[string]interface{}{"options": opts, "repo_hex": fmt.Sprintf("%x", viaRepo), "rfc_hex": fmt.Sprintf("%x", viaRFC)}
			if fits && !bytes.Equal(viaRepo, viaRFC) {
				bad("tcpopt/encode", fmt.Sprintf("encoders produced %x, RFC layout is %x", viaRepo, viaRFC), rep)
				continue
			}
			// padding helper
			pad := make([]byte, len(viaRFC)+4)
			copy(pad, viaRFC)
			np := header.AddTCPOptionPadding(pad, len(viaRFC))
			if (len(viaRFC)+np)%4 != 0 || np < 0 || np > 3 {
				bad("tcpopt/padding", fmt.Sprintf("AddTCPOptionPadding(offset %d) = %d", len(viaRFC), np), rep)
			}
			padded := pad[:len(viaRFC)+np]
			if _, err := rfc.ParseTCPOpts(padded); err != nil {
				bad("tcpopt/padding", "padded options are not well-formed: "+err.Error(), rep)
			}
			for _, in := range [][]byte{viaRFC, padded} {
				guard("tcpopt/parse", rep, func() {
					for _, isAck := range []bool{false, true} {
						got := header.ParseSynOptions(in, isAck)
						want := expectSyn(opts, isAck)
						if got != want {
							bad("tcpopt/ParseSynOptions", fmt.Sprintf("options %x (isAck %v): parsed %+v, encoded values %+v", in, isAck, got, want), rep)
						}
					}
					got := header.ParseTCPOptions(in)
					var wantTS bool
					var tv, te uint32
					var blocks [][2]uint32
					hasSack := false
					for _, g := range opts {
						if g.Kind == "ts" {
							wantTS, tv, te = true, g.A, g.B
						}
						if g.Kind == "sack" {
							hasSack = true
							blocks = g.Blk // the parser keeps the last SACK option
						}
					}
					okBlocks := len(got.SACKBlocks) == len(blocks)
					if okBlocks {
						for i := range blocks {
							if uint32(got.SACKBlocks[i].Start) != blocks[i][0] || uint32(got.SACKBlocks[i].End) != blocks[i][1] {
								okBlocks = false
							}
						}
					}
					if got.TS != wantTS || got.TSVal != tv || got.TSEcr != te || !okBlocks || (!hasSack && got.SACKBlocks != nil) {
						bad("tcpopt/ParseTCPOptions", fmt.Sprintf("options %x: parsed %+v, encoded ts=%v %d %d blocks=%v", in, got, wantTS, tv, te, blocks), rep)
					}
				})
			}
			run.Case(fw.Hash("optseq", seqs[si]), len(opts) > 0)
			if si == 1234 {
				run.Sample(rep)
			}
		}
	})
	// (b) truncated tails of well-formed lists, and (c) every length 0..60 of random bytes:
	// the parsers must not panic (Go bounds checks make any read outside the input a panic).
	var nh int64
	par(16, func(w int) {
		r := fw.NewRand(run.Seed, "C15", "hostile", w)
		n := fw.N(200000, 10000000) / 16
		for i := 0; i < n; i++ {
			var in []byte
			switch i % 3 {
			case 0:
				in = r.Bytes(i / 3 % 61)
			case 1:
				for j := 0; j < 1+r.Intn(5); j++ {
					in = append(in, genOpt(r, r.Intn(7)).rfcBytes()...)
				}
				in = in[:r.Intn(len(in)+1)]
			default:
				// option-shaped noise: known kinds with hostile length bytes
				for len(in) < 40 && !r.Chance(1, 6) {
					k := []byte{0, 1, 2, 3, 4, 5, 8, byte(r.U32())}[r.Intn(8)]
					l := []byte{0, 1, 2, 3, 4, 9, 10, 11, 18, 34, 255, byte(r.U32())}[r.Intn(12)]
					in = append(in, k, l)
					in = append(in, r.Bytes(r.Intn(12))...)
				}
			}
			// exact-capacity copy at the end of its own allocation
			ex := make([]byte, len(in))
			copy(ex, in)
			guard("tcpopt/hostile", fmt.Sprintf("%x", in), func() {
				a := header.ParseSynOptions(ex, i&1 == 0)
				b := header.ParseTCPOptions(ex)
				// same bytes, different trailing memory: the result must not change
				big := make([]byte, len(in)+16)
				copy(big, in)
				for j := len(in); j < len(big); j++ {
					big[j] = byte(r.U32())
				}
				a2 := header.ParseSynOptions(big[:len(in)], i&1 == 0)
				b2 := header.ParseTCPOptions(big[:len(in)])
				if a != a2 || fmt.Sprint(b) != fmt.Sprint(b2) {
					bad("tcpopt/beyond-input", fmt.Sprintf("parse of %x depends on bytes beyond the input", in), fmt.Sprintf("%x", in))
				}
			})
			atomic.AddInt64(&nh, 1)
		}
	})
	run.AddEvals(nh)
	run.Count("hostile_option_inputs", nh)
	run.Distinct(fw.Hash("hostile-opts"))
}

// ---------------------------------------------------------------------------
// DNS query

func dns() {
	r := fw.NewRand(run.Seed, "C15", "dns")
	letters := "abcdefghijklmnopqrstuvwxyz0123456789-"
	for i := 0; i < fw.N(70000, 700000); i++ {
		id := uint16(i)
		nl := 1 + r.Intn(5)
		var labels []string
		for j := 0; j < nl; j++ {
			l := 1 + r.Intn(12)
			if r.Chance(1, 50) {
				l = 63
			}
			s := make([]byte, l)
			for k := range s {
				s[k] = letters[r.Intn(len(letters))]
			}
			labels = append(labels, string(s))
		}
		domain := strings.Join(labels, ".")
		qt, qc := uint16(r.U32()), uint16(r.U32())
		rep := map[string]interface{}{"id": id, "domain": domain, "qtype": qt, "qclass": qc}
		guard("dns", rep, func() {
			h := header.DNS(make([]byte, 12))
			h.Setheader(id)
			h.SetCount(1, 0, 0, 0)
			h.SetQuestion(domain, qt, qc)
			b := []byte(h)
			// independent RFC 1035 decode
			if len(b) < 12 || rfc.Be16(b[0:]) != id || rfc.Be16(b[2:]) != 0x0100 || rfc.Be16(b[4:]) != 1 || rfc.Be16(b[6:]) != 0 || rfc.Be16(b[8:]) != 0 || rfc.Be16(b[10:]) != 0 {
				bad("dns/header", fmt.Sprintf("header %x", b[:min(12, len(b))]), rep)
				return
			}
			off := 12
			var got []string
			for {
				if off >= len(b) {
					bad("dns/name", "name runs past the message", rep)
					return
				}
				l := int(b[off])
				off++
				if l == 0 {
					break
				}
				if off+l > len(b) {
					bad("dns/name", "label runs past the message", rep)
					return
				}
				got = append(got, string(b[off:off+l]))
				off += l
			}
			if strings.Join(got, ".") != domain || off+4 != len(b) || rfc.Be16(b[off:]) != qt || rfc.Be16(b[off+2:]) != qc {
				bad("dns/question", fmt.Sprintf("question decodes to %v type %d class %d (message %x)", got, rfc.Be16(b[off:]), rfc.Be16(b[off+2:]), b), rep)
			}
			if h.GetId() != id || h.GetQDCount() != 1 || h.GetANCount() != 0 || h.GetNSCount() != 0 || h.GetARCount() != 0 || h.GetDomainLen() != len(domain)+2 {
				bad("dns/getters", "getters disagree with the encoded query", rep)
			}
		})
		run.Case(fw.Hash("dns", nl, len(domain)), true)
		if i == 7 {
			run.Sample(rep)
		}
	}
}

func TestC15(t *testing.T) {
	run = fw.Start("C15", "exploration")
	go runawayMonitor()
	checksums()
	concurrentHeaders()
	codecs()
	tcpCodec()
	stable()
	tcpOptions()
	dns()
	run.Sample(map[string]interface{}{"checksum": "len 5 all-ones initial 0xffff", "got": header.Checksum([]byte{255, 255, 255, 255, 255}, 0xffff), "reference": rfc.Sum16([]byte{255, 255, 255, 255, 255}, 0xffff)})
	code := run.Finish("Checksum: every length 0..checksum_max_len x {zero, ones, alternating x2, PRNG x2} x initial values (all 2^16 for len<=64; boundaries+PRNG beyond), with complemented-sum verification and chained-chunk identity; ChecksumCombine: all 2^32 pairs; every header: each field of <=16 bits swept exhaustively (other fields PRNG), 32-bit fields at boundaries+PRNG, both directions (repo Encode -> independent decode; independent encode -> repo getters); TCP options: every sequence of up to N options over {MSS, WS, TS, SACK-permitted, SACK(0..4 blocks), NOP, unknown} through both encoders and both parsers, hostile/truncated/random option bytes of every length 0..60. distinct = distinct (header, field, value) / (length) / (option sequence) classes Later additions: Pseudo-header sums for one address pair under several protocols in a row; TCP checksum helpers and pseudo-header sum called from eight goroutines at once, each result compared with the independent computation. EncodeSACKBlocks for 0-6 blocks into destinations of every length 0-50 with canary bytes behind.",
		[]string{"independent decoder/encoder: h/rfc (imports nothing from /repo)", "a Go slice read beyond len panics, so 'never reads outside its input' is decided by 'no panic on an exact-length input' plus result-independence from trailing memory", "IPv4 FragmentOffset and IPv6 fragment offset are swept over their 13-bit domain; TCP flags byte over all 256 values"})
	os.Exit(code)
}
