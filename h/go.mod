module verifh

go 1.23

require (
	github.com/anishathalye/porcupine v1.3.0
	github.com/brewlin/net-protocol v0.0.0
)

replace github.com/brewlin/net-protocol => /repo
