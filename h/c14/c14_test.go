package c14

import (
	"fmt"
	"math/bits"
	"os"
	"runtime"
	"sync"
	"sync/atomic"
	"testing"

	"github.com/brewlin/net-protocol/pkg/seqnum"
	"verifh/fw"
)

// Reference definitions, in 64-bit integers, written from the statement.
const m32 = int64(1) << 32
const half = int64(1) << 31

func fwd(v, w uint32) int64 { return ((int64(w)-int64(v))%m32 + m32) % m32 } // forward distance v -> w

func refLess(v, w uint32) (ans bool, judged bool) {
	d := fwd(v, w)
	if d == half {
		return false, false // antipodal: RFC 1982 leaves it undefined; recorded, not judged
	}
	return d >= 1 && d <= half-1, true
}
func refInRange(v, a, b uint32) bool { return fwd(a, v) < fwd(a, b) }

// refOverlap: windows [a,a+b) and [x,x+y).
func refOverlap(a, b, x, y uint32) (ans bool, judged bool) {
	if b == 0 || y == 0 {
		return false, false
	}
	d := fwd(a, x)
	if d >= half {
		d -= m32
	}
	if d == -half {
		return false, false
	}
	lo, hi := int64(0), int64(b)
	if d < lo {
		lo = d
	}
	if d+int64(y) > hi {
		hi = d + int64(y)
	}
	if hi-lo >= half {
		return false, false
	}
	return d < int64(b) && d+int64(y) > 0, true
}

type viol struct {
	fn   string
	args []uint32
	got  interface{}
	want interface{}
}

func TestC14(t *testing.T) {
	run := fw.Start("C14", "exploration")
	rng := fw.NewRand(run.Seed, "C14")
	var vmu sync.Mutex
	var viols []viol
	report := func(v viol) {
		vmu.Lock()
		if len(viols) < 10 {
			viols = append(viols, v)
		}
		vmu.Unlock()
	}
	var evals, unjudged, straddle int64

	check2 := func(v, w uint32) (n, uj int64) {
		want, judged := refLess(v, w)
		got := seqnum.Value(v).LessThan(seqnum.Value(w))
		if judged && got != want {
			report(viol{"LessThan", []uint32{v, w}, got, want})
		}
		gotE := seqnum.Value(v).LessThanEq(seqnum.Value(w))
		if judged && gotE != (want || v == w) {
			report(viol{"LessThanEq", []uint32{v, w}, gotE, want || v == w})
		}
		if !judged {
			uj++
		}
		// Add/Size/UpdateForward on the same operands
		sz := seqnum.Value(v).Size(seqnum.Value(w))
		if int64(sz) != fwd(v, w) {
			report(viol{"Size", []uint32{v, w}, uint32(sz), fwd(v, w)})
		}
		if seqnum.Value(v).Add(sz) != seqnum.Value(w) {
			report(viol{"Add", []uint32{v, uint32(sz)}, uint32(seqnum.Value(v).Add(sz)), w})
		}
		u := seqnum.Value(v)
		u.UpdateForward(sz)
		if u != seqnum.Value(w) {
			report(viol{"UpdateForward", []uint32{v, uint32(sz)}, uint32(u), w})
		}
		return 5, uj
	}
	check3 := func(v, a, b uint32) int64 {
		want := refInRange(v, a, b)
		if got := seqnum.Value(v).InRange(seqnum.Value(a), seqnum.Value(b)); got != want {
			report(viol{"InRange", []uint32{v, a, b}, got, want})
		}
		// InWindow(v, a, size=b-a)
		size := uint32(fwd(a, b))
		if got := seqnum.Value(v).InWindow(seqnum.Value(a), seqnum.Size(size)); got != want {
			report(viol{"InWindow", []uint32{v, a, size}, got, want})
		}
		return 2
	}
	check4 := func(a, b, x, y uint32) (n, uj int64) {
		want, judged := refOverlap(a, b, x, y)
		got := seqnum.Overlap(seqnum.Value(a), seqnum.Size(b), seqnum.Value(x), seqnum.Size(y))
		if !judged {
			return 1, 1
		}
		if got != want {
			report(viol{"Overlap", []uint32{a, b, x, y}, got, want})
		}
		return 1, 0
	}

	bases := []uint32{0, 1, 1<<31 - 1, 1 << 31, 1<<31 + 1, 1<<32 - 1}
	for i := 0; i < fw.N(6, 10); i++ {
		bases = append(bases, rng.U32())
	}
	exhaustiveBases := 0
	if fw.Thorough() {
		exhaustiveBases = len(bases)
	}
	// distance lists
	var dists []uint32
	for k := 0; k < 32; k++ {
		p := uint32(1) << uint(k)
		span := uint32(fw.N(1<<9, 1<<12))
		for d := uint32(0); d <= span; d++ {
			dists = append(dists, p+d, p-d)
		}
	}
	for d := uint32(0); d < uint32(fw.N(1<<12, 1<<16)); d++ {
		dists = append(dists, d, -d, 1<<31+d, 1<<31-d)
	}
	stride := uint32(1) << 14
	for d := uint64(0); d < 1<<32; d += uint64(stride) {
		dists = append(dists, uint32(d)+rng.U32()%stride)
	}

	var wg sync.WaitGroup
	sem := make(chan struct{}, runtime.NumCPU())
	work := func(f func()) {
		wg.Add(1)
		sem <- struct{}{}
		go func() { defer wg.Done(); defer func() { <-sem }(); f() }()
	}
	for bi, base := range bases {
		base := base
		bi := bi
		// (1) two-argument functions: v=base, w=base+d and the converse
		if bi < exhaustiveBases {
			const chunks = 64
			for c := 0; c < chunks; c++ {
				c := c
				work(func() {
					var n, uj int64
					lo := uint64(c) << 26
					for d := lo; d < lo+1<<26; d++ {
						a, b := check2(base, base+uint32(d))
						n += a
						uj += b
					}
					atomic.AddInt64(&evals, n)
					atomic.AddInt64(&unjudged, uj)
				})
			}
			run.Count("bases_with_all_2^32_distances", 1)
		}
		work(func() {
			var n, uj int64
			r := fw.NewRand(run.Seed, "C14", "b", base)
			var seen [33]bool
			defer func() {
				for k, ok := range seen {
					if ok {
						for _, fn := range []string{"LessThan", "LessThanEq", "InRange", "InWindow", "Overlap", "Add", "Size", "UpdateForward"} {
							run.Distinct(fw.Hash(fn, base, k))
						}
					}
				}
			}()
			for _, d := range dists {
				seen[bits.Len32(d)] = true
				a, b := check2(base, base+d)
				n += a
				uj += b
				a, b = check2(base+d, base)
				n += a
				uj += b
				// three-argument: window starting at base of size d, probes around both edges
				for _, e := range []uint32{0, 1, d - 1, d, d + 1, 1<<32 - 1, r.U32()} {
					n += check3(base+e, base, base+d)
				}
				// four-argument: second window near the first one's edges
				y := r.U32() >> uint(r.Intn(32))
				for _, off := range []uint32{d, d - 1, d + 1, -y, 1 - y, -y - 1, r.U32()} {
					a, b := check4(base, d, base+off, y)
					n += a
					uj += b
					if uint64(base)+uint64(d) > 1<<32-1 || uint64(base+off)+uint64(y) > 1<<32-1 {
						atomic.AddInt64(&straddle, 1)
					}
				}
			}
			atomic.AddInt64(&evals, n)
			atomic.AddInt64(&unjudged, uj)
		})
	}
	// random tuples
	nrand := fw.N(4_000_000, 200_000_000)
	per := nrand / 32
	for c := 0; c < 32; c++ {
		c := c
		work(func() {
			r := fw.NewRand(run.Seed, "C14", "rand", c)
			var n, uj int64
			for i := 0; i < per; i++ {
				a, x := r.U32(), r.U32()
				sh1, sh2 := uint(r.Intn(33)), uint(r.Intn(33))
				b := uint32(r.U64() >> 32 >> sh1)
				y := uint32(r.U64() >> 32 >> sh2)
				if i&1 == 0 { // near each other
					x = a + uint32(int32(r.U32())>>uint(r.Intn(32)))
				}
				p, q := check4(a, b, x, y)
				n += p
				uj += q
				n += check3(x, a, a+b)
				p, q = check2(a, x)
				n += p
				uj += q
			}
			atomic.AddInt64(&evals, n)
			atomic.AddInt64(&unjudged, uj)
		})
	}
	wg.Wait()

	run.AddEvals(evals)
	// distinct non-trivial: the distinct (function, base, distance-class) buckets exercised
	run.Count("bases", int64(len(bases)))
	run.Count("distances_per_base_sampled", int64(len(dists)))
	run.Count("random_tuples", int64(nrand))
	run.Count("recorded_not_judged(antipodal/empty/span>=2^31)", unjudged)
	run.Count("overlap_cases_straddling_zero", straddle)
	run.Note("exhaustive", false)
	run.Sample(map[string]interface{}{"fn": "LessThan", "v": bases[2], "w": bases[2] + 1, "got": seqnum.Value(bases[2]).LessThan(seqnum.Value(bases[2] + 1))})
	run.Sample(map[string]interface{}{"fn": "Overlap", "a": uint32(0xfffffff0), "b": 32, "x": 5, "y": 1, "got": seqnum.Overlap(0xfffffff0, 32, 5, 1)})
	// part two: TCP transcripts must be invariant under translation of the initial sequence numbers
	{
		nv := fw.N(320, 20000)
		var cw sync.WaitGroup
		for c := 0; c < 16; c++ {
			c := c
			cw.Add(1)
			go func() {
				defer cw.Done()
				res := run.RunChild(fw.ChildSpec{Bin: os.Getenv("VERIF_BIN_VT"), Test: "^TestC14VT$", Tag: fmt.Sprintf("vt%d", c), Env: []string{fmt.Sprintf("VERIF_RANGE=%d %d", nv*c/16, nv*(c+1)/16)}})
				if !res.Done {
					run.ChildCrashed(res, "C14/tcp", c)
				}
			}()
		}
		cw.Wait()
	}
	for _, v := range viols {
		run.Violation(fmt.Sprintf("C14/%s", v.fn), fmt.Sprintf("%s%v = %v, definition gives %v", v.fn, v.args, v.got, v.want), v)
	}
	code := run.Finish("for each base point (boundaries 0,1,2^31±1,2^32-1 + PRNG bases): distances at ±k around every power of two, a 2^14-strided sweep with PRNG jitter, (thorough: all 2^32 distances) for LessThan/LessThanEq/Size/Add/UpdateForward; edge probes for InRange/InWindow; edge-aligned second windows for Overlap; plus PRNG tuples. distinct_nontrivial counts (function, base, log2-distance bucket) classes exercised Later additions: TCP half (h/script): a segment that starts behind the receive window's left edge and ends beyond its right edge must be accepted.",
		[]string{"antipodal distance 2^31 for the comparisons, empty windows and unions spanning >= 2^31 for Overlap are evaluated and counted but not judged (outside serial-number arithmetic's domain)", "TCP-level half: the same relative scripted-peer script (in-order, out-of-order, overlapping and duplicate data, writes, partial/duplicate/SACK ACKs, reads, pauses) is replayed in virtual time with both initial sequence numbers far from any wrap and then placed just below 2^31 / 2^32; the stack's transcript in relative numbers must be identical (a baseline that is not reproducible run-to-run is inconclusive); C01/C02/C04/C05 additionally place ISS at wrap-adjacent values"})
	os.Exit(code)
}
