package c14

import (
	"fmt"
	"io"
	"log"
	"os"
	"strings"
	"testing"

	"verifh/fw"
	"verifh/script"
	"verifh/tcpx"
	"verifh/vt"
)

// Part two of C14: a TCP exchange must not depend on where the sequence spaces
// start. The same relative script is played against a real stack with both
// initial sequence numbers far from any wrap, and again with them placed just
// below 2^31 / 2^32 so that the stream crosses the wrap; the stack's transcript,
// expressed in relative numbers, must be the same.

func TestC14VT(t *testing.T) {
	log.SetOutput(io.Discard)
	tcpx.InstallSteering()
	run := fw.Start("C14", "exploration")
	if !fw.IsChild() {
		t.Skip("child only")
	}
	var lo, hi int
	fmt.Sscan(os.Getenv("VERIF_RANGE"), &lo, &hi)
	vt.Bubble(t, func() {
		for k := lo; k < hi && run.Violations() < 3; k++ {
			sc := script.Gen(run.Seed, "C14", k)
			r := fw.NewRand(run.Seed, "C14", "place", k)
			base1, e1 := script.Play(sc, 1000000, 2000000)
			base2, e2 := script.Play(sc, 1000000, 2000000)
			if strings.HasPrefix(e1, "overlap:") {
				run.Violation("C14/tcp/segment-overlapping-the-window-refused", fmt.Sprintf("scripted exchange %d: %s", k, e1), map[string]interface{}{"script": sc, "own_iss": 1000000, "peer_iss": 2000000, "transcript": base1})
				continue
			}
			if e1 != "" || e2 != "" || fmt.Sprint(base1) != fmt.Sprint(base2) {
				// the baseline itself is not reproducible (goroutine scheduling): nothing to compare against
				run.Inconclusive("baseline-not-reproducible")
				run.Case(fw.Hash("vt", k), false)
				continue
			}
			d1, d2 := uint32(1+r.Intn(4000)), uint32(1+r.Intn(4000))
			placements := [][2]uint32{{0 - d1, 0 - d2}, {1<<31 - d1, 1<<31 - d2}, {0 - d1, 1<<31 - d2}, {^uint32(0), ^uint32(0)}}
			for _, pl := range placements {
				got, e := script.Play(sc, pl[0], pl[1])
				run.Count("wrap_placed_replays", 1)
				if e == "iss-steering-missed" {
					run.Count("iss_steering_missed", 1)
					continue
				}
				if e == "" && fmt.Sprint(got) != fmt.Sprint(base1) {
					// Goroutine order at one virtual instant is not pinned: about 1-3 % of the
					// runs of some scripts re-arm the retransmission timer a second later,
					// whatever the ISS. A difference counts only if no repetition of the
					// placed run ever matches any repetition of the baseline.
					seen := map[string]bool{fmt.Sprint(base1): true}
					same := false
					for rep := 0; rep < 6 && !same; rep++ {
						if b, eb := script.Play(sc, 1000000, 2000000); eb == "" {
							seen[fmt.Sprint(b)] = true
						}
						if g, eg := script.Play(sc, pl[0], pl[1]); eg == "" && seen[fmt.Sprint(g)] {
							same = true
						}
						if seen[fmt.Sprint(got)] {
							same = true
						}
					}
					if same {
						run.Count("differences_explained_by_scheduling(repetition matched)", 1)
						continue
					}
				}
				if e != "" || fmt.Sprint(got) != fmt.Sprint(base1) {
					at := 0
					for at < len(got) && at < len(base1) && got[at] == base1[at] {
						at++
					}
					a, b := "(end)", "(end)"
					if at < len(base1) {
						a = base1[at]
					}
					if at < len(got) {
						b = got[at]
					}
					run.Violation("C14/tcp/behaviour-depends-on-iss", fmt.Sprintf("the same relative script behaves differently when the sequence spaces start at own=%d peer=%d (%s): first difference at step %d: with ISS far from the wrap the stack did %q, wrap-adjacent it did %q", pl[0], pl[1], e, at, a, b), map[string]interface{}{"script": sc, "own_iss": pl[0], "peer_iss": pl[1], "baseline": base1, "got": got})
					break
				}
			}
			run.Case(fw.Hash("vt", sc.Active, sc.TS, sc.SACK, len(sc.Steps)), true)
			if k == lo {
				run.Sample(map[string]interface{}{"script_head": sc.Steps[:6], "transcript_head": base1[:6]})
			}
		}
		os.Exit(run.Finish("", nil))
	})
}
