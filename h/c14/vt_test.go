package c14

import (
	"fmt"
	"io"
	"log"
	"os"
	"sort"
	"testing"
	"time"

	tcpip "github.com/brewlin/net-protocol/protocol"
	"verifh/fw"
	"verifh/rawpeer"
	"verifh/rfc"
	"verifh/tcpx"
	"verifh/vt"
)

// Part two of C14: a TCP exchange must not depend on where the sequence spaces
// start. The same relative script is played against a real stack with both
// initial sequence numbers far from any wrap, and again with them placed just
// below 2^31 / 2^32 so that the stream crosses the wrap; the stack's transcript,
// expressed in relative numbers, must be the same.

type step struct {
	Kind string     `json:"k"` // data, ack, write, read, wait
	Off  int64      `json:"off,omitempty"`
	Len  int        `json:"len,omitempty"`
	Ack  int64      `json:"ack,omitempty"`
	Sack [][2]int64 `json:"sack,omitempty"`
	Ms   int        `json:"ms,omitempty"`
}

type vscript struct {
	K      int    `json:"k"`
	Active bool   `json:"active"`
	TS     bool   `json:"ts"`
	SACK   bool   `json:"sack"`
	Steps  []step `json:"steps"`
}

func genScript(seed int64, k int) vscript {
	r := fw.NewRand(seed, "C14", "script", k)
	sc := vscript{K: k, Active: r.Chance(1, 3), TS: r.Bool(), SACK: r.Bool()}
	var peerNext int64 // next in-order byte of the peer
	var written int64
	for i := 0; i < 12+r.Intn(30); i++ {
		switch r.Intn(9) {
		case 0, 1: // in-order peer data
			n := 1 + r.Intn(700)
			sc.Steps = append(sc.Steps, step{Kind: "data", Off: peerNext, Len: n})
			peerNext += int64(n)
		case 2: // out-of-order piece ahead
			gap := int64(1 + r.Intn(900))
			sc.Steps = append(sc.Steps, step{Kind: "data", Off: peerNext + gap, Len: 1 + r.Intn(500)})
		case 3: // overlapping / duplicate piece behind or across the edge
			back := int64(r.Intn(400))
			if back > peerNext {
				back = peerNext
			}
			sc.Steps = append(sc.Steps, step{Kind: "data", Off: peerNext - back, Len: 1 + r.Intn(800)})
			if e := peerNext - back + int64(sc.Steps[len(sc.Steps)-1].Len); e > peerNext {
				// the new part extends the in-order stream only if it closes no hole wrongly; keep the
				// model simple: treat it as in-order data up to its end
				peerNext = e
			}
		case 4: // application writes
			n := 1 + r.Intn(3000)
			sc.Steps = append(sc.Steps, step{Kind: "write", Len: n})
			written += int64(n)
		case 5: // peer acknowledges part of what was written, maybe with SACK blocks
			if written == 0 {
				continue
			}
			a := int64(r.Intn(int(written) + 1))
			st := step{Kind: "ack", Ack: a}
			if r.Chance(1, 3) && written-a > 10 {
				s0 := a + 1 + int64(r.Intn(int(written-a-1)))
				st.Sack = [][2]int64{{s0, s0 + 1 + int64(r.Intn(int(written-s0)+1))}}
			}
			sc.Steps = append(sc.Steps, st)
		case 6:
			sc.Steps = append(sc.Steps, step{Kind: "read"})
		case 7:
			sc.Steps = append(sc.Steps, step{Kind: "wait", Ms: []int{50, 250, 1100, 3000}[r.Intn(4)]})
		case 8: // duplicate ACKs
			if written == 0 {
				continue
			}
			for j := 0; j < 3; j++ {
				sc.Steps = append(sc.Steps, step{Kind: "ack", Ack: -1})
			}
		}
	}
	sc.Steps = append(sc.Steps, step{Kind: "read"}, step{Kind: "wait", Ms: 1500})
	return sc
}

// play runs the script with the given initial sequence numbers and returns the
// stack's transcript in relative terms, one entry per step.
func play(sc vscript, ownISS, peerISS uint32) ([]string, string) {
	h, err := rawpeer.NewHost(1500, sc.SACK, "reno")
	if err != nil {
		return nil, "harness: " + err.Error()
	}
	p := rawpeer.New(h, false)
	own := ownISS
	conn, emsg := p.Establish(rawpeer.EstOpts{Active: sc.Active, LPort: 80, PPort: 33333, PeerISS: peerISS, OwnISS: &own, MSS: 1000, WS: 3, TS: sc.TS, SACK: sc.SACK, Window: 60000})
	if conn == nil {
		return nil, emsg
	}
	defer conn.Close()
	if sc.Active && conn.ISS != ownISS {
		return nil, "iss-steering-missed"
	}
	var out []string
	var lastAck int64
	var readTotal, nearSeq, nearAck int64
	render := func(segs []rawpeer.Seg) string {
		var l []string
		for _, s := range segs {
			if s.Err != nil {
				l = append(l, "undecodable")
				continue
			}
			rs, ra := conn.RelSeq(s, nearSeq), conn.RelAck(s, nearAck)
			if rs > nearSeq {
				nearSeq = rs
			}
			if ra > nearAck {
				nearAck = ra
			}
			e := fmt.Sprintf("f%02x s%d a%d l%d w%d", s.Flags, rs, ra, len(s.Payload), s.Window)
			if d, ok := s.Opt(5); ok {
				for i := 0; i+8 <= len(d); i += 8 {
					e += fmt.Sprintf(" [%d,%d)", int64(rfc.Be32(d[i:])-(conn.IRS+1)), int64(rfc.Be32(d[i+4:])-(conn.IRS+1)))
				}
			}
			l = append(l, e)
		}
		sort.Strings(l) // emission order inside one quiescent step is scheduling, not arithmetic
		return fmt.Sprint(l)
	}
	for _, st := range sc.Steps {
		switch st.Kind {
		case "data":
			pl := make([]byte, st.Len)
			for i := range pl {
				pl[i] = tcpx.PByte(uint64(sc.K), 1, st.Off+int64(i))
			}
			conn.Send(st.Off, lastAck, rfc.ACK|rfc.PSH, 60000, pl, nil)
		case "ack":
			a := st.Ack
			if a < 0 {
				a = lastAck
			}
			if a > lastAck {
				lastAck = a
			}
			var extra []byte
			if len(st.Sack) > 0 && conn.SACKok {
				var bl [][2]uint32
				for _, b := range st.Sack {
					bl = append(bl, [2]uint32{conn.ISS + 1 + uint32(b[0]), conn.ISS + 1 + uint32(b[1])})
				}
				extra = append([]byte{1, 1}, rfc.OptSACK(bl)...)
			}
			conn.Send(0, a, rfc.ACK, 60000, nil, extra)
		case "write":
			buf := make([]byte, st.Len)
			for i := range buf {
				buf[i] = byte(i)
			}
			conn.EP.Write(tcpip.SlicePayload(buf), tcpip.WriteOptions{})
			rawpeer.Settle()
		case "read":
			for {
				v, _, e := conn.EP.Read(nil)
				if e != nil {
					break
				}
				for i, b := range v {
					if b != tcpx.PByte(uint64(sc.K), 1, readTotal+int64(i)) {
						return out, fmt.Sprintf("content mismatch at stream offset %d", readTotal+int64(i))
					}
				}
				readTotal += int64(len(v))
			}
			rawpeer.Settle()
		case "wait":
			time.Sleep(time.Duration(st.Ms) * time.Millisecond)
			rawpeer.Settle()
		}
		out = append(out, fmt.Sprintf("%s -> %s read=%d", st.Kind, render(conn.Take()), readTotal))
	}
	return out, ""
}

func TestC14VT(t *testing.T) {
	log.SetOutput(io.Discard)
	tcpx.InstallSteering()
	run := fw.Start("C14", "exploration")
	if !fw.IsChild() {
		t.Skip("child only")
	}
	var lo, hi int
	fmt.Sscan(os.Getenv("VERIF_RANGE"), &lo, &hi)
	vt.Bubble(t, func() {
		for k := lo; k < hi && run.Violations() < 3; k++ {
			sc := genScript(run.Seed, k)
			r := fw.NewRand(run.Seed, "C14", "place", k)
			base1, e1 := play(sc, 1000000, 2000000)
			base2, e2 := play(sc, 1000000, 2000000)
			if e1 != "" || e2 != "" || fmt.Sprint(base1) != fmt.Sprint(base2) {
				// the baseline itself is not reproducible (goroutine scheduling): nothing to compare against
				run.Inconclusive("baseline-not-reproducible")
				run.Case(fw.Hash("vt", k), false)
				continue
			}
			d1, d2 := uint32(1+r.Intn(4000)), uint32(1+r.Intn(4000))
			placements := [][2]uint32{{0 - d1, 0 - d2}, {1<<31 - d1, 1<<31 - d2}, {0 - d1, 1<<31 - d2}, {^uint32(0), ^uint32(0)}}
			for _, pl := range placements {
				got, e := play(sc, pl[0], pl[1])
				run.Count("wrap_placed_replays", 1)
				if e == "iss-steering-missed" {
					run.Count("iss_steering_missed", 1)
					continue
				}
				if e == "" && fmt.Sprint(got) != fmt.Sprint(base1) {
					// Goroutine order at one virtual instant is not pinned: about 1-3 % of the
					// runs of some scripts re-arm the retransmission timer a second later,
					// whatever the ISS. A difference counts only if no repetition of the
					// placed run ever matches any repetition of the baseline.
					seen := map[string]bool{fmt.Sprint(base1): true}
					same := false
					for rep := 0; rep < 6 && !same; rep++ {
						if b, eb := play(sc, 1000000, 2000000); eb == "" {
							seen[fmt.Sprint(b)] = true
						}
						if g, eg := play(sc, pl[0], pl[1]); eg == "" && seen[fmt.Sprint(g)] {
							same = true
						}
						if seen[fmt.Sprint(got)] {
							same = true
						}
					}
					if same {
						run.Count("differences_explained_by_scheduling(repetition matched)", 1)
						continue
					}
				}
				if e != "" || fmt.Sprint(got) != fmt.Sprint(base1) {
					at := 0
					for at < len(got) && at < len(base1) && got[at] == base1[at] {
						at++
					}
					a, b := "(end)", "(end)"
					if at < len(base1) {
						a = base1[at]
					}
					if at < len(got) {
						b = got[at]
					}
					run.Violation("C14/tcp/behaviour-depends-on-iss", fmt.Sprintf("the same relative script behaves differently when the sequence spaces start at own=%d peer=%d (%s): first difference at step %d: with ISS far from the wrap the stack did %q, wrap-adjacent it did %q", pl[0], pl[1], e, at, a, b), map[string]interface{}{"script": sc, "own_iss": pl[0], "peer_iss": pl[1], "baseline": base1, "got": got})
					break
				}
			}
			run.Case(fw.Hash("vt", sc.Active, sc.TS, sc.SACK, len(sc.Steps)), true)
			if k == lo {
				run.Sample(map[string]interface{}{"script_head": sc.Steps[:6], "transcript_head": base1[:6]})
			}
		}
		os.Exit(run.Finish("", nil))
	})
}
