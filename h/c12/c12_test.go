package c12

import (
	"bytes"
	"fmt"
	"io"
	"log"
	"os"
	"sync"
	"sync/atomic"
	"testing"
	"time"

	"github.com/brewlin/net-protocol/pkg/buffer"
	"github.com/brewlin/net-protocol/pkg/sleep"
	"github.com/brewlin/net-protocol/pkg/waiter"
	tcpip "github.com/brewlin/net-protocol/protocol"
	"github.com/brewlin/net-protocol/protocol/network/arp"
	"github.com/brewlin/net-protocol/protocol/network/ipv4"
	"github.com/brewlin/net-protocol/protocol/network/ipv6"
	"github.com/brewlin/net-protocol/protocol/transport/tcp"
	"github.com/brewlin/net-protocol/protocol/transport/udp"
	"github.com/brewlin/net-protocol/stack"
	"verifh/fw"
	"verifh/rawpeer"
	"verifh/rfc"
	"verifh/vt"
	"verifh/wire"
)

var run *fw.Run

var smac = [6]byte{2, 0, 0, 0, 0, 1}
var bcast = [6]byte{255, 255, 255, 255, 255, 255}

type emitted struct {
	t      time.Duration
	proto  uint16
	data   []byte
	remote []byte
}

type host struct {
	h   *wire.Host
	mu  sync.Mutex
	out []emitted
	t0  time.Time
}

func newHost() *host {
	h, err := wire.NewHost(wire.HostCfg{Name: "N", MTU: 1500, LinkAddr: tcpip.LinkAddress(smac[:]), Caps: stack.CapabilityResolutionRequired, V4: []tcpip.Address{wire.AddrA4, "\x0a\x00\x00\x07"}, V6: []tcpip.Address{wire.AddrA6}, WithARP: true})
	if err != nil {
		run.Broken("harness: " + err.Error())
		return nil
	}
	x := &host{h: h, t0: time.Now()}
	h.L.AddTap(func(f *wire.Frame) {
		x.mu.Lock()
		x.out = append(x.out, emitted{time.Since(x.t0), uint16(f.Proto), f.Data, []byte(f.Remote)})
		x.mu.Unlock()
	})
	return x
}

func (x *host) take() []emitted {
	x.mu.Lock()
	defer x.mu.Unlock()
	r := x.out
	x.out = nil
	return r
}

func ip4b(a tcpip.Address) (r [4]byte) { copy(r[:], a); return }

func (x *host) arp(op uint16, sha [6]byte, spa [4]byte, tha [6]byte, tpa [4]byte) {
	a := rfc.ARP{HType: 1, PType: 0x0800, HLen: 6, PLen: 4, Op: op, SHA: sha, SPA: spa, THA: tha, TPA: tpa}
	x.h.L.Inject(arp.ProtocolNumber, a.Bytes(), tcpip.LinkAddress(sha[:]))
}

// lookup asks the stack's neighbour cache without starting a wait.
func (x *host) lookup(addr tcpip.Address) (tcpip.LinkAddress, *tcpip.Error) {
	la, _, err := x.h.S.GetLinkAddress(1, addr, wire.AddrA4, ipv4.ProtocolNumber, &sleep.Waker{})
	return la, err
}

// ---- (a) answering requests, learning -----------------------------------------

func answering(k int) {
	r := fw.NewRand(run.Seed, "C12", "ans", k)
	x := newHost()
	if x == nil {
		return
	}
	ref := map[tcpip.Address]struct {
		mac [6]byte
		at  time.Time
	}{}
	var trace []string
	bad := false
	viol := func(key, what string) {
		if !bad {
			run.Violation("C12/"+key, what, map[string]interface{}{"k": k, "trace": trace})
		}
		bad = true
	}
	second := true // 10.0.0.7 is currently assigned
	for i := 0; i < 40 && !bad; i++ {
		if r.Chance(1, 10) { // the second address is removed / assigned again: answers must follow
			second = !second
			var e *tcpip.Error
			if second {
				e = x.h.S.AddAddress(1, ipv4.ProtocolNumber, "\x0a\x00\x00\x07")
			} else {
				e = x.h.S.RemoveAddress(1, "\x0a\x00\x00\x07")
			}
			trace = append(trace, fmt.Sprintf("address 10.0.0.7 assigned=%v (%v)", second, e))
			run.Count("own_address_toggles", 1)
		}
		spa := [4]byte{10, 0, 0, byte(20 + r.Intn(6))}
		var sha [6]byte
		copy(sha[:], r.Bytes(6))
		sha[0] &^= 1
		if r.Bool() { // the neighbour's usual, unchanged link address
			sha = [6]byte{2, 9, 9, 9, 9, spa[3]}
		}
		probe := false
		if r.Chance(1, 8) {
			// an address probe (RFC 5227; also what a host without an address yet sends): the
			// sender's protocol address is 0.0.0.0. Whether it is answered depends on the
			// target alone; nothing about learning from it is judged.
			spa, probe = [4]byte{}, true
			run.Count("arp_probes_with_unspecified_sender", 1)
		}
		targets := [][4]byte{ip4b(wire.AddrA4), {10, 0, 0, 7}, {10, 0, 0, 99}, {192, 168, 1, 1}, spa}
		tpa := targets[r.Intn(len(targets))]
		own := tpa == ip4b(wire.AddrA4) || (second && tpa == [4]byte{10, 0, 0, 7})
		op := uint16(1 + r.Intn(2))
		x.take()
		switch r.Intn(8) {
		case 0: // malformed: wrong sizes / truncated
			a := rfc.ARP{HType: 1, PType: 0x0800, HLen: 6, PLen: 4, Op: 1, SHA: sha, SPA: spa, TPA: tpa}
			b := a.Bytes()
			switch r.Intn(4) {
			case 0:
				b = b[:r.Intn(28)]
			case 1:
				b[4] = byte(r.Intn(6))
			case 2:
				b[5] = 16
			case 3:
				b[1] = 6
			}
			x.h.L.Inject(arp.ProtocolNumber, b, tcpip.LinkAddress(sha[:]))
			rawpeer.Settle()
			trace = append(trace, fmt.Sprintf("malformed ARP %x", b))
			nrep := 0
			for _, o := range x.take() {
				if a, err := rfc.ParseARP(o.data); o.proto == uint16(arp.ProtocolNumber) && err == nil && a.Op == 2 {
					nrep++
				}
			}
			if nrep != 0 {
				viol("arp/answered-malformed", fmt.Sprintf("a malformed ARP packet (%x) was answered with %d replies", b, nrep))
			}
			if la, err := x.lookup(tcpip.Address(spa[:])); err == nil && !probe {
				if _, known := ref[tcpip.Address(spa[:])]; !known {
					viol("arp/learned-from-malformed", fmt.Sprintf("mapping %v -> %x learned from a malformed packet", spa, []byte(la)))
				}
			}
			continue
		}
		var tha [6]byte
		if op == 2 {
			tha = smac
		}
		x.arp(op, sha, spa, tha, tpa)
		rawpeer.Settle()
		out := x.take()
		trace = append(trace, fmt.Sprintf("ARP op=%d %x/%v -> target %v: %d frames out", op, sha, spa, tpa, len(out)))
		run.Count("arp_packets_injected", 1)
		var replies []rfc.ARP
		var remotes [][]byte
		for _, o := range out {
			if o.proto == uint16(arp.ProtocolNumber) {
				if a, err := rfc.ParseARP(o.data); err == nil && a.Op == 2 {
					replies = append(replies, a)
					remotes = append(remotes, o.remote)
				} else if err != nil {
					viol("arp/malformed-reply", fmt.Sprintf("emitted ARP packet does not decode: %v", err))
				}
			}
		}
		if op == 1 && own {
			if len(replies) != 1 {
				viol("arp/request-not-answered", fmt.Sprintf("ARP request for own address %v drew %d replies", tpa, len(replies)))
				continue
			}
			a := replies[0]
			if a.SHA != smac || a.SPA != tpa || a.THA != sha || a.TPA != spa || !bytes.Equal(remotes[0], sha[:]) {
				viol("arp/reply-fields", fmt.Sprintf("reply to %x/%v asking for %v: sender %x/%v target %x/%v sent to MAC %x; expected sender %x/%v target %x/%v", sha, spa, tpa, a.SHA, a.SPA, a.THA, a.TPA, remotes[0], smac, tpa, sha, spa))
			}
			run.Count("arp_replies_verified", 1)
		} else if len(replies) != 0 {
			viol("arp/answered-foreign", fmt.Sprintf("ARP op=%d for target %v (own=%v) drew %d replies", op, tpa, own, len(replies)))
		}
		if probe {
			continue
		}
		// learning: from replies and from requests addressed to us; never from other requests
		learn := op == 2 || (op == 1 && own)
		if learn {
			ref[tcpip.Address(spa[:])] = struct {
				mac [6]byte
				at  time.Time
			}{sha, time.Now()}
		}
		// the cache may only say the latest learned mapping, or 'unknown'
		for addr, m := range ref {
			la, err := x.lookup(addr)
			if err == nil && !bytes.Equal([]byte(la), m.mac[:]) {
				viol("cache/wrong-mapping", fmt.Sprintf("neighbour %v is reported as %x, the latest mapping learned is %x", []byte(addr), []byte(la), m.mac))
			}
			if err != nil && time.Since(m.at) < 50*time.Second && learn && addr == tcpip.Address(spa[:]) {
				viol("cache/not-learned", fmt.Sprintf("mapping %v -> %x (from op=%d, target own=%v) was not learned: lookup says %v", spa, sha, op, own, err))
			}
			if err != nil {
				x.take() // the lookup started a resolution; drop its request
			}
		}
		if !learn {
			if la, err := x.lookup(tcpip.Address(spa[:])); err == nil {
				if m, known := ref[tcpip.Address(spa[:])]; !known || !bytes.Equal([]byte(la), m.mac[:]) {
					viol("cache/learned-from-foreign-request", fmt.Sprintf("a request not addressed to the stack taught it %v -> %x", spa, []byte(la)))
				}
			} else {
				x.take()
			}
		}
		if r.Chance(1, 10) {
			d := []time.Duration{30 * time.Second, 61 * time.Second, 10 * time.Minute}[r.Intn(3)]
			time.Sleep(d)
			rawpeer.Settle()
			x.take()
			trace = append(trace, fmt.Sprintf("time +%v", d))
			// expiry: nothing older than the age limit may be reported
			for addr, m := range ref {
				if time.Since(m.at) > 61*time.Second {
					if r.Bool() {
						delete(ref, addr) // not looked up: the next thing the cache hears may be a re-announcement
						continue
					}
					if la, err := x.lookup(addr); err == nil {
						viol("cache/reported-after-expiry", fmt.Sprintf("neighbour %v -> %x still reported %v after it was learned (age limit 1 min)", []byte(addr), []byte(la), time.Since(m.at)))
					} else {
						x.take()
					}
					delete(ref, addr)
					run.Count("expired_entries_checked", 1)
				}
			}
		}
	}
	run.Case(fw.Hash("ans", k), true)
}

// ---- (b) waiting for resolution: request schedule, success, failure -------------

func waiting(k int) {
	r := fw.NewRand(run.Seed, "C12", "wait", k)
	x := newHost()
	if x == nil {
		return
	}
	answerAfter := []int{0, 1, 2, 3, 99}[r.Intn(5)] // answer the n-th request (99 = stay silent)
	lateMs := []int{0, 1, 400, 900}[r.Intn(4)]      // well inside the 1 s retry interval
	useTCP := r.Chance(1, 3)
	nh := tcpip.Address([]byte{10, 0, 0, byte(30 + r.Intn(100))})
	if r.Chance(1, 6) {
		// host parts that look special without being so: everything is on-link behind the default
		// route and no subnet is configured, so 10.0.2.255 or 10.0.3.0 are ordinary neighbours
		nh = tcpip.Address([]byte{10, 0, byte(1 + r.Intn(3)), []byte{255, 255, 0, 254, 1}[r.Intn(5)]})
	}
	var nhm [6]byte
	copy(nhm[:], r.Bytes(6))
	nhm[0] &^= 1
	var trace []string
	rep := map[string]interface{}{"k": k, "answer_request_no": answerAfter, "late_ms": lateMs, "tcp": useTCP}
	bad := false
	viol := func(key, what string) {
		if !bad {
			rep["trace"] = trace
			run.Violation("C12/"+key, what, rep)
		}
		bad = true
	}
	var ep tcpip.Endpoint
	wq := &waiter.Queue{}
	we, ch := waiter.NewChannelEntry(nil)
	wq.EventRegister(&we, waiter.EventOut|waiter.EventIn|waiter.EventErr|waiter.EventHUp)
	payload := []byte(fmt.Sprintf("neigh-%d", k))
	// the device refuses the first resolution request (transmit queue full): that attempt is
	// spent without anything on the wire, the remaining ones follow on schedule
	var refused int32
	if r.Chance(1, 5) {
		rep["first_request_refused_by_the_link"] = true
		x.h.L.Refuse = func(proto tcpip.NetworkProtocolNumber, _ buffer.View, _ buffer.VectorisedView) bool {
			return proto == arp.ProtocolNumber && atomic.CompareAndSwapInt32(&refused, 0, 1)
		}
		run.Count("waits_with_first_request_refused", 1)
	}
	start := time.Now()
	x.take()
	var resolveCh <-chan struct{}
	if useTCP {
		ep, _ = x.h.S.NewEndpoint(tcp.ProtocolNumber, ipv4.ProtocolNumber, wq)
		if e := ep.Connect(tcpip.FullAddress{Addr: nh, Port: 80}); e != tcpip.ErrConnectStarted {
			run.Broken("harness: connect: " + e.String())
			return
		}
	} else {
		ep, _ = x.h.S.NewEndpoint(udp.ProtocolNumber, ipv4.ProtocolNumber, wq)
		wopts := tcpip.WriteOptions{To: &tcpip.FullAddress{Addr: nh, Port: 9}}
		if r.Chance(1, 3) {
			// the socket was connected to another, resolved neighbour before and has sent to it;
			// it is now re-connected to the unresolved one: nothing learned for the old peer
			// applies to the new one
			other := [4]byte{10, 0, 0, 29}
			om := [6]byte{2, 5, 5, 5, 5, 29}
			x.arp(2, om, other, smac, ip4b(wire.AddrA4))
			rawpeer.Settle()
			if e := ep.Connect(tcpip.FullAddress{Addr: tcpip.Address(other[:]), Port: 9}); e == nil {
				ep.Write(tcpip.SlicePayload([]byte("to the old peer")), tcpip.WriteOptions{})
				rawpeer.Settle()
				ce := ep.Connect(tcpip.FullAddress{Addr: nh, Port: 9})
				trace = append(trace, fmt.Sprintf("socket connected to %v (resolved), written to, then re-connected to %v -> %v", other, []byte(nh), ce))
				run.Count("waits_on_a_reconnected_socket", 1)
			}
			x.take()
			start = time.Now()
			wopts = tcpip.WriteOptions{} // a plain write on the connected socket
		}
		_, c, e := ep.Write(tcpip.SlicePayload(payload), wopts)
		if e != tcpip.ErrWouldBlock || c == nil {
			viol("wait/udp-write-did-not-wait", fmt.Sprintf("UDP write to an unresolved neighbour returned %v (channel %v); expected would-block with a wait channel", e, c != nil))
			return
		}
		resolveCh = c
	}
	defer ep.Close()
	// observe requests for up to 5 s of virtual time
	type reqRec struct {
		t time.Duration
	}
	var reqs []reqRec
	answered := false
	dataBefore := false
	var dataFrames []emitted
	resolvedAt := time.Duration(-1)
	// hands-off mode (every other scenario): the monitor does not ask the neighbour cache while
	// the operation waits - each lookup registers a waker of its own on the pending entry, so a
	// polling monitor hides whatever depends on the waiters of an entry. The harness knows when
	// the answer was injected; that is when resolution can have completed.
	handsOff := k%2 == 0
	var answerInjected int32
	if handsOff {
		run.Count("waits_observed_without_cache_lookups", 1)
	}
	for step := 0; step < 5200 && !bad; step++ {
		time.Sleep(time.Millisecond)
		if step%50 == 49 {
			rawpeer.Settle()
		}
		for _, o := range x.take() {
			if o.proto == uint16(arp.ProtocolNumber) {
				a, err := rfc.ParseARP(o.data)
				if err != nil {
					viol("wait/malformed-request", err.Error())
					break
				}
				if a.Op == 1 {
					if a.TPA != ip4b(nh) || a.SHA != smac || !bytes.Equal(o.remote, bcast[:]) {
						viol("wait/request-fields", fmt.Sprintf("resolution request: target %v sender %x sent to MAC %x; expected target %v sender %x broadcast", a.TPA, a.SHA, o.remote, ip4b(nh), smac))
					}
					reqs = append(reqs, reqRec{time.Since(start)})
					trace = append(trace, fmt.Sprintf("request #%d at %v", len(reqs), time.Since(start)))
					if len(reqs) == answerAfter+1 && !answered {
						answered = true
						go func() {
							time.Sleep(time.Duration(lateMs) * time.Millisecond)
							atomic.StoreInt32(&answerInjected, 1)
							x.arp(2, nhm, ip4b(nh), smac, ip4b(wire.AddrA4))
						}()
					}
				}
				continue
			}
			// any non-ARP frame toward the next hop
			if o.proto == uint16(ipv4.ProtocolNumber) {
				if handsOff {
					if atomic.LoadInt32(&answerInjected) == 0 {
						dataBefore = true
						trace = append(trace, fmt.Sprintf("IPv4 frame at %v before the neighbour had answered", time.Since(start)))
					}
				} else if resolvedAt < 0 {
					if la, err := x.lookup(nh); err != nil || !bytes.Equal([]byte(la), nhm[:]) {
						dataBefore = true
						trace = append(trace, fmt.Sprintf("IPv4 frame at %v before resolution", time.Since(start)))
					}
				}
				dataFrames = append(dataFrames, o)
			}
		}
		if handsOff {
			if resolvedAt < 0 && atomic.LoadInt32(&answerInjected) != 0 {
				resolvedAt = time.Since(start)
			}
		} else if resolvedAt < 0 {
			if la, err := x.lookup(nh); err == nil && bytes.Equal([]byte(la), nhm[:]) {
				resolvedAt = time.Since(start)
			} else if err != nil {
				// lookup itself must not have started a second resolution burst: its own requests are
				// indistinguishable, so only count requests at the 1 s grid below
			}
		}
		if !useTCP && resolveCh != nil {
			select {
			case <-resolveCh:
				resolveCh = nil
				_, _, e := ep.Write(tcpip.SlicePayload(payload), tcpip.WriteOptions{To: &tcpip.FullAddress{Addr: nh, Port: 9}})
				trace = append(trace, fmt.Sprintf("wait channel fired at %v; retry -> %v", time.Since(start), e))
				rep["udp_retry"] = fmt.Sprint(e)
			default:
			}
		}
	}
	rawpeer.Settle()
	if bad {
		return
	}
	if dataBefore {
		viol("wait/data-before-resolution", "a data frame for the next hop was put on the wire before its link address was known")
	}
	budget := 3 - int(atomic.LoadInt32(&refused)) // attempts that reach the wire
	willAnswer := answerAfter < budget
	// request schedule: one per second, at most 3, all before the answer
	for i := 1; i < len(reqs); i++ {
		gap := reqs[i].t - reqs[i-1].t
		if gap < 990*time.Millisecond || gap > 1010*time.Millisecond {
			viol("wait/request-spacing", fmt.Sprintf("resolution requests %d and %d are %v apart (expected 1 s)", i, i+1, gap))
		}
	}
	wantReqs := budget
	if willAnswer {
		wantReqs = answerAfter + 1
	}
	if len(reqs) != wantReqs {
		viol("wait/request-count", fmt.Sprintf("%d resolution requests were sent; expected %d (answer to request #%d after %d ms; %d attempts refused by the link)", len(reqs), wantReqs, answerAfter+1, lateMs, 3-budget))
	}
	if willAnswer {
		// the waiting operation proceeds using the learned address
		ok := false
		for _, f := range dataFrames {
			if bytes.Equal(f.remote, nhm[:]) {
				ok = true
			} else {
				viol("wait/wrong-mac", fmt.Sprintf("frame for next hop %v sent to MAC %x, the neighbour answered with %x", []byte(nh), f.remote, nhm))
			}
		}
		if !ok {
			viol("wait/did-not-proceed", fmt.Sprintf("the neighbour answered request #%d but the waiting %s never put its packet on the wire", answerAfter+1, map[bool]string{true: "TCP connect", false: "UDP write"}[useTCP]))
		}
	} else {
		if len(dataFrames) != 0 {
			viol("wait/data-without-resolution", "a data frame was emitted although the neighbour never answered")
		}
		// failure with no-link-address after the retry budget (~3 s)
		if useTCP {
			select {
			case <-ch:
			default:
			}
			e := ep.GetSockOpt(tcpip.ErrorOption{})
			if e != tcpip.ErrNoLinkAddress {
				viol("wait/no-failure", fmt.Sprintf("neighbour silent for 5 s: TCP connect reports %v, expected the no-link-address error", e))
			}
		} else {
			_, c, e := ep.Write(tcpip.SlicePayload(payload), tcpip.WriteOptions{To: &tcpip.FullAddress{Addr: nh, Port: 9}})
			if e != tcpip.ErrNoLinkAddress || c != nil {
				viol("wait/no-failure", fmt.Sprintf("neighbour silent for 5 s: a further UDP write returns %v (wait channel %v); expected a final no-link-address error", e, c != nil))
			}
		}
	}
	run.Count("resolution_scenarios", 1)
	run.Count("resolution_requests_seen", int64(len(reqs)))
	run.Case(fw.Hash("wait", answerAfter, lateMs, useTCP), true)
	if k < 2 {
		rep["trace"] = trace
		run.Sample(rep)
	}
}

// ---- (c) neighbour discovery (IPv6) -----------------------------------------------

func ndp(k int) {
	r := fw.NewRand(run.Seed, "C12", "ndp", k)
	x := newHost()
	if x == nil {
		return
	}
	var s6, p6 [16]byte
	copy(s6[:], wire.AddrA6)
	copy(p6[:], wire.AddrB6)
	p6[15] = byte(2 + r.Intn(200))
	var pm [6]byte
	copy(pm[:], r.Bytes(6))
	pm[0] &^= 1
	target := s6
	own := true
	if r.Chance(1, 3) {
		target[15] ^= byte(1 + r.Intn(100))
		own = false
	}
	pl := append(append([]byte{}, target[:]...), 1, 1, pm[0], pm[1], pm[2], pm[3], pm[4], pm[5])
	m := rfc.ICMP{Type: 135, Payload: pl}
	x.take()
	ip := rfc.IPv6{Next: rfc.ProtoICMPv6, Hop: 255, Src: p6, Dst: s6, Payload: m.BytesV6(p6, s6, true)}
	x.h.L.Inject(ipv6.ProtocolNumber, ip.Bytes(true), tcpip.LinkAddress(pm[:]))
	rawpeer.Settle()
	adverts := 0
	for _, o := range x.take() {
		if o.proto != uint16(ipv6.ProtocolNumber) {
			continue
		}
		p, err := rfc.ParseIPv6(o.data)
		if err != nil || p.Next != rfc.ProtoICMPv6 {
			continue
		}
		mm, err := rfc.ParseICMPv6(p.Payload, p.Src, p.Dst)
		if mm.Type != 136 {
			continue
		}
		adverts++
		if err != nil {
			run.Violation("C12/ndp/advert-checksum", err.Error(), k)
		}
		if len(mm.Payload) < 24 || !bytes.Equal(mm.Payload[:16], target[:]) || !bytes.Equal(mm.Payload[18:24], smac[:]) || p.Dst != p6 || !bytes.Equal(o.remote, pm[:]) {
			run.Violation("C12/ndp/advert-fields", fmt.Sprintf("neighbour advertisement for %x: target %x link address %x sent to %x / MAC %x", target, mm.Payload[:16], mm.Payload[18:], p.Dst, o.remote), k)
		}
	}
	if own && adverts != 1 || !own && adverts != 0 {
		run.Violation("C12/ndp/answer-count", fmt.Sprintf("neighbour solicitation for %x (own=%v) drew %d advertisements", target, own, adverts), k)
	}
	// learning from an advertisement
	adv := rfc.ICMP{Type: 136, Rest: [4]byte{0x60, 0, 0, 0}, Payload: append(append([]byte{}, p6[:]...), 2, 1, pm[0], pm[1], pm[2], pm[3], pm[4], pm[5])}
	ip2 := rfc.IPv6{Next: rfc.ProtoICMPv6, Hop: 255, Src: p6, Dst: s6, Payload: adv.BytesV6(p6, s6, true)}
	x.h.L.Inject(ipv6.ProtocolNumber, ip2.Bytes(true), tcpip.LinkAddress(pm[:]))
	rawpeer.Settle()
	la, _, err := x.h.S.GetLinkAddress(1, tcpip.Address(p6[:]), wire.AddrA6, ipv6.ProtocolNumber, &sleep.Waker{})
	if err != nil || !bytes.Equal([]byte(la), pm[:]) {
		run.Violation("C12/ndp/not-learned", fmt.Sprintf("after a neighbour advertisement from %x / %x the cache says %x, %v", p6, pm, []byte(la), err), k)
	}
	// the stack itself solicits a neighbour; the neighbour's (solicited) advertisement carries
	// the Override flag or not - either way it is the reply the resolution is waiting for
	{
		q6 := p6
		q6[15] ^= 0x55
		var qm [6]byte
		copy(qm[:], r.Bytes(6))
		qm[0] &^= 1
		x.take()
		_, _, e1 := x.h.S.GetLinkAddress(1, tcpip.Address(q6[:]), wire.AddrA6, ipv6.ProtocolNumber, &sleep.Waker{})
		rawpeer.Settle()
		solicited := 0
		for _, o := range x.take() {
			if pp, err := rfc.ParseIPv6(o.data); o.proto == uint16(ipv6.ProtocolNumber) && err == nil && pp.Next == rfc.ProtoICMPv6 {
				if mm, _ := rfc.ParseICMPv6(pp.Payload, pp.Src, pp.Dst); mm.Type == 135 && len(mm.Payload) >= 16 && bytes.Equal(mm.Payload[:16], q6[:]) {
					solicited++
				}
			}
		}
		if e1 != nil && solicited > 0 {
			flags := []byte{0x60, 0x40, 0xc0, 0xe0}[r.Intn(4)] // S|O, S, R|S, R|S|O
			rep := rfc.ICMP{Type: 136, Rest: [4]byte{flags, 0, 0, 0}, Payload: append(append([]byte{}, q6[:]...), 2, 1, qm[0], qm[1], qm[2], qm[3], qm[4], qm[5])}
			ipr := rfc.IPv6{Next: rfc.ProtoICMPv6, Hop: 255, Src: q6, Dst: s6, Payload: rep.BytesV6(q6, s6, true)}
			x.h.L.Inject(ipv6.ProtocolNumber, ipr.Bytes(true), tcpip.LinkAddress(qm[:]))
			rawpeer.Settle()
			la, _, e2 := x.h.S.GetLinkAddress(1, tcpip.Address(q6[:]), wire.AddrA6, ipv6.ProtocolNumber, &sleep.Waker{})
			if e2 != nil || !bytes.Equal([]byte(la), qm[:]) {
				run.Violation("C12/ndp/solicited-reply-not-learned", fmt.Sprintf("the stack solicited %x and the neighbour answered with an advertisement (flags %#02x) carrying %x: the cache says %x, %v", q6, flags, qm, []byte(la), e2), k)
			}
			run.Count("ndp_solicited_replies", 1)
			x.take()
		}
	}
	// the solicited address is removed: the same solicitation must now go unanswered
	if own && r.Bool() {
		if e := x.h.S.RemoveAddress(1, wire.AddrA6); e == nil {
			x.take()
			x.h.L.Inject(ipv6.ProtocolNumber, ip.Bytes(true), tcpip.LinkAddress(pm[:]))
			rawpeer.Settle()
			for _, o := range x.take() {
				if p, err := rfc.ParseIPv6(o.data); o.proto == uint16(ipv6.ProtocolNumber) && err == nil && p.Next == rfc.ProtoICMPv6 {
					if mm, _ := rfc.ParseICMPv6(p.Payload, p.Src, p.Dst); mm.Type == 136 {
						run.Violation("C12/ndp/answered-for-removed-address", fmt.Sprintf("neighbour solicitation for %x, which was removed from the interface after having been solicited once, is still answered", target), k)
					}
				}
			}
			run.Count("ndp_removed_address_probes", 1)
		}
	}
	run.Count("ndp_scenarios", 1)
	run.Case(fw.Hash("ndp", own), true)
}

// ---- (d) cache overflow: more than 512 neighbours -----------------------------------

func overflow(k int) {
	r := fw.NewRand(run.Seed, "C12", "ovf", k)
	x := newHost()
	if x == nil {
		return
	}
	n := 520 + r.Intn(200)
	macs := map[[4]byte][6]byte{}
	order := [][4]byte{}
	for i := 0; i < n; i++ {
		ip := [4]byte{10, byte(1 + i/250), byte(i % 250), 9}
		if r.Chance(1, 6) && len(order) > 0 {
			ip = order[r.Intn(len(order))] // re-announce with a new MAC
		}
		var m [6]byte
		copy(m[:], r.Bytes(6))
		m[0] &^= 1
		x.arp(2, m, ip, smac, ip4b(wire.AddrA4))
		if _, seen := macs[ip]; !seen {
			order = append(order, ip)
		}
		macs[ip] = m
	}
	rawpeer.Settle()
	known, unknown := 0, 0
	for ip, m := range macs {
		la, err := x.lookup(tcpip.Address(ip[:]))
		if err == nil {
			known++
			if !bytes.Equal([]byte(la), m[:]) {
				run.Violation("C12/cache/overflow-wrong-mapping", fmt.Sprintf("after %d announcements neighbour %v is reported as %x; the latest announced mapping is %x", n, ip, []byte(la), m), k)
				break
			}
		} else {
			unknown++
			x.take()
		}
	}
	// the most recent distinct neighbours must still be known (the cache holds 512)
	recent := order
	if len(recent) > 200 {
		recent = recent[len(recent)-200:]
	}
	for _, ip := range recent {
		if _, err := x.lookup(tcpip.Address(ip[:])); err != nil {
			x.take()
			run.Count("recent_neighbour_forgotten(recorded)", 1)
		}
	}
	run.Count("overflow_known", int64(known))
	run.Count("overflow_forgotten", int64(unknown))
	run.Case(fw.Hash("ovf", n/50), true)
}

// ---- (e) waiting while the cache ring wraps around -----------------------------------

func waitWithChurn(k int) {
	r := fw.NewRand(run.Seed, "C12", "churn", k)
	x := newHost()
	if x == nil {
		return
	}
	kip := [4]byte{10, 0, 0, 50}
	mac1, mac2 := [6]byte{2, 1, 1, 1, 1, 1}, [6]byte{2, 2, 2, 2, 2, 2}
	if r.Bool() {
		mac2 = mac1
	}
	nh := tcpip.Address(kip[:])
	x.arp(2, mac1, kip, smac, ip4b(wire.AddrA4))
	pre := r.Intn(300)
	for i := 0; i < pre; i++ {
		x.arp(2, [6]byte{2, 3, byte(i >> 8), byte(i), 0, 1}, [4]byte{10, 3, byte(i / 250), byte(i % 250)}, smac, ip4b(wire.AddrA4))
	}
	time.Sleep(61 * time.Second) // K's entry expires
	rawpeer.Settle()
	x.take()
	useTCP := r.Chance(1, 3)
	wq := &waiter.Queue{}
	var ep tcpip.Endpoint
	var ch <-chan struct{}
	payload := []byte("churn")
	start := time.Now()
	if useTCP {
		ep, _ = x.h.S.NewEndpoint(tcp.ProtocolNumber, ipv4.ProtocolNumber, wq)
		ep.Connect(tcpip.FullAddress{Addr: nh, Port: 80})
	} else {
		ep, _ = x.h.S.NewEndpoint(udp.ProtocolNumber, ipv4.ProtocolNumber, wq)
		_, c, e := ep.Write(tcpip.SlicePayload(payload), tcpip.WriteOptions{To: &tcpip.FullAddress{Addr: nh, Port: 9}})
		if e != tcpip.ErrWouldBlock || c == nil {
			run.Count("churn_skipped", 1)
			return
		}
		ch = c
	}
	defer ep.Close()
	// other neighbours announce themselves while K is being resolved: the ring wraps
	n := 500 + r.Intn(60) - pre
	for i := 0; i < n; i++ {
		x.arp(2, [6]byte{2, 4, byte(i >> 8), byte(i), 0, 1}, [4]byte{10, 4, byte(i / 250), byte(i % 250)}, smac, ip4b(wire.AddrA4))
	}
	time.Sleep(time.Duration(100+r.Intn(700)) * time.Millisecond)
	x.arp(2, mac2, kip, smac, ip4b(wire.AddrA4)) // K answers
	rawpeer.Settle()
	proceeded := false
	for step := 0; step < 80 && !proceeded; step++ {
		time.Sleep(100 * time.Millisecond)
		rawpeer.Settle()
		if !useTCP && ch != nil {
			select {
			case <-ch:
				ch = nil
				ep.Write(tcpip.SlicePayload(payload), tcpip.WriteOptions{To: &tcpip.FullAddress{Addr: nh, Port: 9}})
			default:
			}
		}
		for _, o := range x.take() {
			if o.proto == uint16(ipv4.ProtocolNumber) && bytes.Equal(o.remote, mac2[:]) {
				proceeded = true
			}
		}
	}
	failed := false
	if useTCP {
		failed = ep.GetSockOpt(tcpip.ErrorOption{}) != nil
	}
	run.Count("churn_scenarios", 1)
	run.Case(fw.Hash("churn", useTCP, pre/50, n/20), true)
	if !proceeded && !failed {
		run.Violation("C12/wait/stuck-after-cache-wraparound", fmt.Sprintf("neighbour %v answered %v after the operation started waiting, but 8 s later the waiting %s has neither put its packet on the wire nor failed (other neighbours announced: %d before, %d during the wait; cache size 512)", kip, time.Since(start), map[bool]string{true: "TCP connect", false: "UDP write"}[useTCP], pre, n), map[string]interface{}{"k": k, "pre": pre, "during": n, "tcp": useTCP})
	}
}

func child(t *testing.T) {
	var lo, hi int
	fmt.Sscan(os.Getenv("VERIF_RANGE"), &lo, &hi)
	vt.Bubble(t, func() {
		for k := lo; k < hi && run.Violations() < 4; k++ {
			switch k % 8 {
			case 0, 1:
				answering(k)
			case 2, 3, 4, 5:
				waiting(k)
			case 6:
				ndp(k)
			case 7:
				if k%16 == 7 {
					overflow(k)
				} else {
					waitWithChurn(k)
				}
			}
		}
		os.Exit(run.Finish("", nil))
	})
}

func TestC12(t *testing.T) {
	log.SetOutput(io.Discard)
	run = fw.Start("C12", "exploration")
	if fw.IsChild() && os.Getenv("VERIF_PHASE") == "racing" {
		racingChild()
		return
	}
	if fw.IsChild() {
		child(t)
		return
	}
	n := fw.N(960, 48000)
	nchild := 16
	var wg sync.WaitGroup
	for c := 0; c < nchild; c++ {
		c := c
		wg.Add(1)
		go func() {
			defer wg.Done()
			tag := fmt.Sprintf("vt%d", c)
			res := run.RunChild(fw.ChildSpec{Bin: os.Getenv("VERIF_BIN_VT"), Test: "^TestC12$", Tag: tag, Env: []string{fmt.Sprintf("VERIF_RANGE=%d %d", n*c/nchild, n*(c+1)/nchild)}, Timeout: time.Duration(fw.N(10, 90)) * time.Minute})
			if !res.Done {
				run.ChildCrashed(res, "C12", tag)
			}
		}()
	}
	wg.Wait()
	if res := run.RunChild(fw.ChildSpec{Bin: os.Getenv("VERIF_BIN_RACE"), Test: "^TestC12$", Tag: "racing", Race: true, Anchors: []string{"stack/linkaddrcache.go", "protocol/network/arp/"}, Env: []string{"VERIF_PHASE=racing"}}); !res.Done {
		run.ChildCrashed(res, "C12/racing", nil)
	}
	code := run.Finish("a real stack on a resolution-required link with a scripted neighbour, in virtual time. (a) ARP requests/replies with own, second-own, foreign and off-net targets and malformed packets (truncated, wrong sizes/types): a reply iff the target is an own address, with exact sender/target fields and destination MAC; the neighbour cache, queried after every packet, may only report the latest mapping learned from a reply or from a request addressed to the stack, nothing from other requests, nothing older than the 1 min age limit (virtual sleeps of 30 s, 61 s, 10 min). (b) a UDP write or TCP connect toward an unresolved next hop: no data frame before resolution, broadcast requests exactly 1 s apart, at most three; the neighbour answers the 1st/2nd/3rd request after 0..999 ms or stays silent: the operation must proceed to the learned MAC, or fail with the no-link-address error after the budget. (c) IPv6 neighbour solicitation/advertisement. (d) 520-720 announcements incl. re-announcements with new MACs (cache of 512). (e) racing phase (real time, pinned toolchain, race detector): 1-2 goroutines announce ever new link addresses (each names its neighbour and a serial number) while 2-4 goroutines look neighbours up (unknown ones start resolutions whose retries time out) and remove their wakers; from logical stamps: a reported address belongs to the neighbour asked for, was announced before the lookup returned and is not older than the newest announcement processed before the lookup began; race reports in stack/linkaddrcache.go and protocol/network/arp are violations. distinct = scenario classes Later additions: Every other waiting scenario is observed hands-off: the monitor makes no cache lookups while the operation waits (each lookup would register a waker of its own on the pending entry) and takes the instant the answer was injected as the instant of resolution. Waits on neighbours whose host part looks special (x.y.z.255, .0) and with the first resolution request refused by the link. ARP probes (sender 0.0.0.0) are answered iff the target is own.",
		[]string{"reference neighbour table kept by the harness (latest mapping + learn time)", "'about 3 s' is judged as: three requests on a 1 s grid and an error observable at 5 s of virtual time"})
	os.Exit(code)
}
