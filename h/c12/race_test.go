package c12

import (
	"fmt"
	"os"
	"runtime"
	"sync"
	"sync/atomic"

	"github.com/brewlin/net-protocol/pkg/sleep"
	tcpip "github.com/brewlin/net-protocol/protocol"
	"github.com/brewlin/net-protocol/protocol/network/ipv4"
	"verifh/fw"
	"verifh/wire"
)

// Racing phase (real time, pinned toolchain, race detector): announcements with ever new
// link addresses, cache lookups (which start resolutions with their retry timers when the
// entry is unknown) and waker removals run on several goroutines against one stack.
//
// Every announcement carries a unique link address that names its neighbour and its
// serial number, and every call is stamped from one logical clock, so a successful
// lookup can be judged without wall-clock time: the address it reports must belong to
// the neighbour asked for, must have been announced before the lookup returned, and must
// not be older than the newest announcement that had completed before the lookup began
// (injection is synchronous: when Inject returns the packet has been processed).

func racingScenario(k int) {
	r := fw.NewRand(run.Seed, "C12", "racing", k)
	x := newHost()
	if x == nil {
		return
	}
	const nn = 4
	var clock int64
	var serial [nn]int64    // announcements started per neighbour
	var completed [nn]int64 // highest serial whose injection has returned
	var started [nn][]int64 // started[i][s-1] = logical time at which serial s was about to be injected
	var mu sync.Mutex
	var bad atomic.Value
	fail := func(key, what string) {
		if bad.Load() == nil {
			bad.Store(key + "\x00" + what)
		}
	}
	mac := func(i int, s int64) [6]byte {
		return [6]byte{2, byte(i), byte(s >> 24), byte(s >> 16), byte(s >> 8), byte(s)}
	}
	var wg sync.WaitGroup
	nann, nlook := 1+r.Intn(2), 2+r.Intn(3)
	rounds := 150
	for a := 0; a < nann; a++ {
		ar := r.Split("ann", a)
		wg.Add(1)
		go func() {
			defer wg.Done()
			for n := 0; n < rounds && bad.Load() == nil; n++ {
				i := ar.Intn(nn)
				mu.Lock() // one announcer per neighbour at a time keeps "newest completed" well defined
				s := atomic.AddInt64(&serial[i], 1)
				started[i] = append(started[i], atomic.AddInt64(&clock, 1))
				m := mac(i, s)
				ip := [4]byte{10, 0, 0, byte(20 + i)}
				if ar.Bool() {
					x.arp(2, m, ip, smac, ip4b(wire.AddrA4))
				} else {
					x.arp(1, m, ip, [6]byte{}, ip4b(wire.AddrA4)) // a request addressed to the stack teaches it too
				}
				atomic.StoreInt64(&completed[i], s)
				mu.Unlock()
				if ar.Chance(1, 3) {
					runtime.Gosched()
				}
			}
		}()
	}
	var lookups, hits int64
	for l := 0; l < nlook; l++ {
		lr := r.Split("look", l)
		wg.Add(1)
		go func() {
			defer wg.Done()
			for n := 0; n < rounds*2 && bad.Load() == nil; n++ {
				i := lr.Intn(nn + 1) // the last one is never announced: its lookups start resolutions that time out
				ip := tcpip.Address([]byte{10, 0, 0, byte(20 + i)})
				var floor int64
				if i < nn {
					floor = atomic.LoadInt64(&completed[i])
				}
				w := &sleep.Waker{}
				la, _, err := x.h.S.GetLinkAddress(1, ip, wire.AddrA4, ipv4.ProtocolNumber, w)
				t1 := atomic.AddInt64(&clock, 1)
				atomic.AddInt64(&lookups, 1)
				if err != nil {
					x.h.S.RemoveWaker(1, ip, w)
					if lr.Chance(1, 4) {
						runtime.Gosched()
					}
					continue
				}
				atomic.AddInt64(&hits, 1)
				b := []byte(la)
				if len(b) != 6 || b[0] != 2 {
					fail("racing/unknown-link-address", fmt.Sprintf("lookup of %v returned %x, which no neighbour ever announced", []byte(ip), b))
					return
				}
				s := int64(b[2])<<24 | int64(b[3])<<16 | int64(b[4])<<8 | int64(b[5])
				mu.Lock()
				var st []int64
				if i < nn {
					st = started[i]
				}
				mu.Unlock()
				switch {
				case i == nn || int(b[1]) != i:
					fail("racing/other-neighbours-address", fmt.Sprintf("lookup of %v returned %x, the link address neighbour #%d announced", []byte(ip), b, b[1]))
				case s < 1 || s > int64(len(st)) || st[s-1] > t1:
					fail("racing/address-from-the-future", fmt.Sprintf("lookup of %v returned serial %d, which had not been announced when the lookup returned", []byte(ip), s))
				case s < floor:
					fail("racing/stale-address", fmt.Sprintf("lookup of %v returned serial %d although the announcement of serial %d had been processed completely before the lookup began", []byte(ip), s, floor))
				}
			}
		}()
	}
	wg.Wait()
	x.take()
	run.Count("racing_lookups", atomic.LoadInt64(&lookups))
	run.Count("racing_lookups_answered_from_cache", atomic.LoadInt64(&hits))
	run.Case(fw.Hash("racing", nann, nlook), atomic.LoadInt64(&hits) > 0)
	if v := bad.Load(); v != nil {
		var key, what string
		for i, c := range v.(string) {
			if c == 0 {
				key, what = v.(string)[:i], v.(string)[i+1:]
			}
		}
		run.Violation("C12/"+key, what, map[string]interface{}{"k": k})
	}
}

func racingChild() {
	for k := 0; k < fw.N(60, 3000) && run.Violations() < 3; k++ {
		racingScenario(k)
	}
	os.Exit(run.Finish("", nil))
}
