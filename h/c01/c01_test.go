package c01

import (
	"encoding/json"
	"fmt"
	"io"
	"log"
	"os"
	"path/filepath"
	"strings"
	"sync"
	"testing"
	"time"

	"verifh/fw"
	"verifh/script"
	"verifh/tcpx"
	"verifh/vt"
)

var run *fw.Run

func judge(sc *tcpx.Scenario, res *tcpx.Result) {
	nontrivial := res.Connected && (res.Dir[0].Read+res.Dir[1].Read) > 0
	faultClass := 0
	for d := 0; d < 2; d++ {
		if res.Dir[d].Retrans > 0 {
			faultClass |= 1 << uint(d)
		}
		if res.Dir[d].OutOfOrder > 0 {
			faultClass |= 4 << uint(d)
		}
	}
	run.Case(fw.Hash(sc.V6, sc.SACK, sc.CC, sc.MTU, sc.SndBuf, sc.RcvBuf, sc.Bytes[0]/1000, sc.Bytes[1]/1000, sc.MaxChunk, faultClass, sc.ISS != nil, sc.PassiveISS != nil, sc.Close), nontrivial)
	for d := 0; d < 2; d++ {
		run.Count("bytes_verified", res.Dir[d].Read)
		run.Count("segments_on_wire", int64(res.Dir[d].Segments))
		run.Count("retransmissions_seen", int64(res.Dir[d].Retrans))
		run.Count("out_of_order_arrivals", int64(res.Dir[d].OutOfOrder))
		run.Count("duplicate_arrivals", int64(res.Dir[d].Dups))
		if res.Dir[d].WrapCross32 {
			run.Count("streams_crossing_2^32", 1)
		}
		if res.Dir[d].WrapCross31 {
			run.Count("streams_crossing_2^31", 1)
		}
	}
	run.Count("frames_on_wire", int64(res.Frames))
	if !res.Connected {
		run.Count("not_connected:"+short(res.ConnectErr), 1)
	}
	if res.Stalled {
		run.Count("not_complete_by_deadline(judged by C02, not here)", 1)
	}
	if sc.ISS != nil && res.Connected && res.ActiveISS != *sc.ISS {
		run.Count("iss_steering_missed", 1)
	}
	if sc.PassiveISS != nil && res.Connected {
		if res.PassiveISS == *sc.PassiveISS {
			run.Count("passive_iss_placed", 1)
		} else {
			run.Count("passive_iss_placement_missed", 1)
		}
	}
	if len(res.ConnectErr) > 8 && res.ConnectErr[:8] == "harness:" {
		run.Broken(res.ConnectErr)
	}
	if res.Mismatch != "" {
		cls := "content"
		run.Violation("C01/stream/"+cls, res.Mismatch, map[string]interface{}{"scenario": sc, "result": res})
	}
	if res.PastEOF != "" {
		run.Violation("C01/stream/data-after-eof", res.PastEOF, map[string]interface{}{"scenario": sc, "result": res})
	}
	for d := 0; d < 2; d++ {
		if res.Dir[d].Read > res.Dir[d].Accepted && res.Dir[d].Accepted > 0 || res.Dir[d].Read > int64(sc.Bytes[d]) {
			run.Violation("C01/stream/invented", fmt.Sprintf("direction %d: %d bytes read but only %d accepted by Write", d, res.Dir[d].Read, res.Dir[d].Accepted), map[string]interface{}{"scenario": sc, "result": res})
		}
		if res.Dir[d].EOF && res.Dir[d].Read < res.Dir[d].Accepted && res.Dir[d].WriteErr == "" && res.Errors[0] == "" && res.Errors[1] == "" {
			run.Violation("C01/stream/truncated", fmt.Sprintf("direction %d: end-of-stream after %d bytes although %d were accepted by Write before the shutdown and no endpoint reported an error", d, res.Dir[d].Read, res.Dir[d].Accepted), map[string]interface{}{"scenario": sc, "result": res})
		}
	}
}

func short(s string) string {
	if len(s) > 40 {
		return s[:40]
	}
	return s
}

// scripted: relative scripts (overlapping and out-of-order peer data, acknowledgements that
// end inside segments or cover several, SACK blocks, duplicate ACKs, waits long enough for
// retransmissions) against one stack, with the sequence spaces placed far from and just
// below the wraps. Judged on content only: what Read returns and what the stack emits at
// every stream offset.
func scripted(t *testing.T, lo, hi int) {
	vt.Bubble(t, func() {
		for k := lo; k < hi && run.Violations() < 3; k++ {
			sc := script.Gen(run.Seed, "C01s", k)
			r := fw.NewRand(run.Seed, "C01s", "place", k)
			d1, d2 := uint32(1+r.Intn(4000)), uint32(1+r.Intn(4000))
			ok := false
			for _, pl := range [][2]uint32{{1000000, 2000000}, {0 - d1, 0 - d2}, {1<<31 - d1, 1<<31 - d2}, {^uint32(0), ^uint32(0)}} {
				out, e := script.Play(sc, pl[0], pl[1])
				run.Count("scripted_replays", 1)
				switch {
				case strings.HasPrefix(e, "content mismatch"):
					key := "C01/scripted/receive-content"
					if strings.Contains(e, "send side") {
						key = "C01/scripted/send-content"
					}
					run.Violation(key, fmt.Sprintf("scripted exchange %d with sequence spaces starting at own=%d peer=%d: %s", k, pl[0], pl[1], e), map[string]interface{}{"script": sc, "own_iss": pl[0], "peer_iss": pl[1], "transcript": out})
				case e != "":
					run.Count("scripted_not_played:"+e, 1)
				default:
					ok = true
				}
			}
			run.Case(fw.Hash("scripted", sc.Active, sc.TS, sc.SACK, len(sc.Steps)), ok)
		}
		os.Exit(run.Finish("", nil))
	})
}

// child: run scenarios lo..hi in one bubble (virtual time) or in real time.
func child(t *testing.T) {
	var lo, hi int
	fmt.Sscan(os.Getenv("VERIF_RANGE"), &lo, &hi)
	if os.Getenv("VERIF_PHASE") == "scripted" {
		scripted(t, lo, hi)
		return
	}
	realTime := os.Getenv("VERIF_REALTIME") == "1"
	cur := filepath.Join(os.Getenv("VERIF_RUN_DIR"), os.Getenv("VERIF_TAG")+".current.json")
	body := func() {
		for k := lo; k < hi; k++ {
			sc := tcpx.Gen(run.Seed, "C01", k, realTime)
			b, _ := json.Marshal(sc)
			os.WriteFile(cur, b, 0o644)
			w0 := time.Now()
			res := tcpx.Run(sc, nil)
			judge(sc, &res)
			if os.Getenv("VERIF_DEBUG") != "" && res.Stalled {
				b, _ := json.Marshal(sc)
				fmt.Printf("STALL k=%d virt=%v read=%d/%d,%d/%d acc=%d,%d eof=%v,%v err=%v werr=%q,%q rerr=%q,%q lasttx=%v conn=%v %s\n  %s\n", k, res.Virtual, res.Dir[0].Read, sc.Bytes[0], res.Dir[1].Read, sc.Bytes[1], res.Dir[0].Accepted, res.Dir[1].Accepted, res.Dir[0].EOF, res.Dir[1].EOF, res.Errors, res.Dir[0].WriteErr, res.Dir[1].WriteErr, res.Dir[0].ReadErr, res.Dir[1].ReadErr, res.LastTx, res.Connected, res.ConnectErr, b)
			}
			_ = w0
			if k == lo {
				run.Sample(map[string]interface{}{"scenario": sc, "read": []int64{res.Dir[0].Read, res.Dir[1].Read}, "retrans": []int{res.Dir[0].Retrans, res.Dir[1].Retrans}, "virtual_s": res.Virtual.Seconds()})
			}
			if run.Violations() >= 3 {
				break
			}
		}
		os.Remove(cur)
		os.Exit(run.Finish("", nil))
	}
	if realTime {
		// several scenarios at once in real time
		var wg sync.WaitGroup
		sem := make(chan struct{}, 8)
		for k := lo; k < hi; k++ {
			k := k
			wg.Add(1)
			sem <- struct{}{}
			go func() {
				defer wg.Done()
				defer func() { <-sem }()
				sc := tcpx.Gen(run.Seed, "C01", k, true)
				res := tcpx.Run(sc, nil)
				judge(sc, &res)
			}()
		}
		wg.Wait()
		os.Exit(run.Finish("", nil))
	}
	vt.Bubble(t, body)
}

func replay(t *testing.T, path string) {
	var doc struct {
		Replay struct {
			Scenario tcpx.Scenario `json:"scenario"`
		} `json:"replay"`
	}
	b, err := os.ReadFile(path)
	if err != nil || json.Unmarshal(b, &doc) != nil {
		fmt.Println("cannot read replay", path)
		os.Exit(2)
	}
	vt.Bubble(t, func() {
		bad := 0
		for i := 0; i < 20 && bad == 0; i++ {
			sc := doc.Replay.Scenario
			res := tcpx.Run(&sc, nil)
			if res.Mismatch != "" || res.PastEOF != "" {
				fmt.Printf("VIOLATION property=C01 replay=%s\n  what: %s %s\n", path, res.Mismatch, res.PastEOF)
				bad++
			}
		}
		if bad > 0 {
			os.Exit(1)
		}
		fmt.Println("replay: held on 20 repetitions")
		os.Exit(0)
	})
}

func TestC01(t *testing.T) {
	log.SetOutput(io.Discard)
	tcpx.InstallSteering()
	run = fw.Start("C01", "exploration")
	if p := os.Getenv("VERIF_REPLAY"); p != "" {
		replay(t, p)
		return
	}
	if fw.IsChild() {
		child(t)
		return
	}
	nvt := fw.N(320, 20000)
	nrt := fw.N(32, 1000)
	nchild := 16
	var wg sync.WaitGroup
	runChild := func(bin, tag string, lo, hi int, env []string, race bool) {
		defer wg.Done()
		res := run.RunChild(fw.ChildSpec{Bin: bin, Test: "^TestC01$", Tag: tag, Race: race, Anchors: []string{"protocol/transport/tcp/", "pkg/seqnum/", "pkg/buffer/"},
			Env: append(env, fmt.Sprintf("VERIF_RANGE=%d %d", lo, hi), "VERIF_TAG="+tag), Timeout: time.Duration(fw.N(10, 120)) * time.Minute})
		if !res.Done {
			var sc interface{}
			if b, err := os.ReadFile(filepath.Join(os.Getenv("VERIF_RUN_DIR"), tag+".current.json")); err == nil {
				json.Unmarshal(b, &sc)
			}
			run.ChildCrashed(res, "C01", sc)
		}
	}
	for c := 0; c < nchild; c++ {
		wg.Add(1)
		go runChild(os.Getenv("VERIF_BIN_VT"), fmt.Sprintf("vt%d", c), nvt*c/nchild, nvt*(c+1)/nchild, nil, false)
	}
	wg.Wait()
	nsc := fw.N(640, 40000)
	for c := 0; c < 8; c++ {
		wg.Add(1)
		go runChild(os.Getenv("VERIF_BIN_VT"), fmt.Sprintf("scripted%d", c), nsc*c/8, nsc*(c+1)/8, []string{"VERIF_PHASE=scripted"}, false)
	}
	wg.Wait()
	// real-time subset under the race detector (pinned toolchain)
	for c := 0; c < 4; c++ {
		wg.Add(1)
		go runChild(os.Getenv("VERIF_BIN_RACE"), fmt.Sprintf("race%d", c), 1000000+nrt*c/4, 1000000+nrt*(c+1)/4, []string{"VERIF_REALTIME=1"}, true)
	}
	wg.Wait()
	code := run.Finish("two real stacks joined by the adversarial wire; per scenario PRNG-chosen: IPv4/IPv6, SACK, Reno/CUBIC, MTU 100..65535, latency, send/receive buffers 1 byte..1 MiB, 0..4 MiB per direction in both directions at once, write chunks 1..256 KiB, reader pacing and pauses, per-packet drop (uniform and bursty) / duplicate / delay (reorder) / stale replay on both directions, ISS of the active or the passive side placed just below 2^31 / 2^32 (crossings counted from the wire), three close orders. Oracle at the API boundary: byte i of direction d is f(seed,d,i); every byte returned by Read is compared, and must lie below the bytes offered to Write so far. Bulk runs in virtual time (go1.26.8 synctest bubble), a subset in real time under the race detector (go1.23.5). Scripted phase: relative scripts against one stack and a scripted peer (overlapping / out-of-order / duplicate peer data, acknowledgements ending inside segments or covering several, SACK, duplicate ACKs, waits that let retransmissions happen), each played with the sequence spaces far from and just below 2^31 / 2^32; every byte Read returns and every byte of every emitted data segment is compared with the position-coded stream. distinct = distinct (configuration class x observed fault class); non-trivial = connected and at least one byte verified Later additions: The wire can also make the sending link refuse a packet (WritePacket error); scripts contain a path-MTU decrease with data outstanding and a segment spanning the whole receive window. Half of the path-MTU decreases come behind a backlog of small writes and a large one.",
		[]string{"packets are dropped/duplicated/delayed/replayed but never altered (the stack does not verify checksums on receive)", "scenarios that do not complete by the virtual deadline are counted here and judged by C02"})
	os.Exit(code)
}
