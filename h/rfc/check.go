package rfc

import (
	"fmt"
	"sync"
)

// FrameChecker validates every packet a stack emits on one link against the
// RFC layouts (lengths, checksums, option well-formedness) and keeps the
// per-flow IP identification history.
type FrameChecker struct {
	mu      sync.Mutex
	lastID  map[[9]byte]uint16 // (src,dst,proto) -> last ID of a large packet
	haveID  map[[9]byte]bool
	Frames  int64
	ByKind  map[string]int64
	Offload bool // link declares checksum offload: transport checksums not required
}

func NewFrameChecker() *FrameChecker {
	return &FrameChecker{lastID: map[[9]byte]uint16{}, haveID: map[[9]byte]bool{}, ByKind: map[string]int64{}}
}

func (c *FrameChecker) count(k string) {
	c.mu.Lock()
	c.Frames++
	c.ByKind[k]++
	c.mu.Unlock()
}

// Info is what the checker decoded, for addressing checks by the caller.
type Info struct {
	Kind             string // tcp4 tcp6 udp4 udp6 icmp4 icmp6 arp other4 other6
	Src4, Dst4       [4]byte
	Src6, Dst6       [16]byte
	SrcPort, DstPort uint16
	ICMP             ICMP
	TCP              TCP
	UDP              UDP
	ARP              ARP
	V6               bool
}

func checkTCPOpts(t TCP) error {
	opts, err := ParseTCPOpts(t.RawOpts)
	if err != nil {
		return err
	}
	if len(t.RawOpts)%4 != 0 || len(t.RawOpts) > 40 {
		return fmt.Errorf("tcp options: %d bytes (must be a multiple of 4, at most 40)", len(t.RawOpts))
	}
	for _, o := range opts {
		switch o.Kind {
		case 2:
			if len(o.Data) != 2 {
				return fmt.Errorf("tcp options: MSS option with %d data bytes", len(o.Data))
			}
			if t.Flags&SYN == 0 {
				return fmt.Errorf("tcp options: MSS option on a non-SYN segment")
			}
		case 3:
			if len(o.Data) != 1 {
				return fmt.Errorf("tcp options: window-scale option with %d data bytes", len(o.Data))
			}
			if t.Flags&SYN == 0 {
				return fmt.Errorf("tcp options: window-scale option on a non-SYN segment")
			}
			if o.Data[0] > 14 {
				return fmt.Errorf("tcp options: window scale %d > 14", o.Data[0])
			}
		case 4:
			if len(o.Data) != 0 {
				return fmt.Errorf("tcp options: SACK-permitted with data")
			}
			if t.Flags&SYN == 0 {
				return fmt.Errorf("tcp options: SACK-permitted on a non-SYN segment")
			}
		case 5:
			if len(o.Data) == 0 || len(o.Data)%8 != 0 || len(o.Data) > 32 {
				return fmt.Errorf("tcp options: SACK option with %d data bytes", len(o.Data))
			}
		case 8:
			if len(o.Data) != 8 {
				return fmt.Errorf("tcp options: timestamp option with %d data bytes", len(o.Data))
			}
		}
	}
	return nil
}

// Check validates one network-layer packet (ethertype proto).
func (c *FrameChecker) Check(proto uint16, b []byte) (Info, error) {
	var in Info
	switch proto {
	case EthARP:
		a, err := ParseARP(b)
		in.Kind, in.ARP = "arp", a
		c.count("arp")
		if err != nil {
			return in, err
		}
		if a.Op != 1 && a.Op != 2 {
			return in, fmt.Errorf("arp: op %d", a.Op)
		}
		return in, nil
	case EthIPv4:
		ip, err := ParseIPv4(b)
		if err != nil {
			c.count("bad4")
			return in, err
		}
		in.Src4, in.Dst4 = ip.Src, ip.Dst
		if ip.TTL == 0 {
			return in, fmt.Errorf("ipv4: TTL 0")
		}
		// identification: consecutive large packets of one flow differ
		if len(b) > 68 {
			var k [9]byte
			copy(k[0:4], ip.Src[:])
			copy(k[4:8], ip.Dst[:])
			k[8] = ip.Proto
			c.mu.Lock()
			last, have := c.lastID[k], c.haveID[k]
			c.lastID[k], c.haveID[k] = ip.ID, true
			c.mu.Unlock()
			if have && last == ip.ID && ip.FragOff == 0 && ip.Flags&1 == 0 {
				return in, fmt.Errorf("ipv4: two consecutive packets (> 68 bytes) of flow %v>%v proto %d carry the same identification %d", ip.Src, ip.Dst, ip.Proto, ip.ID)
			}
		}
		if ip.FragOff != 0 || ip.Flags&1 != 0 {
			in.Kind = "frag4"
			c.count("frag4")
			return in, nil
		}
		switch ip.Proto {
		case ProtoTCP:
			in.Kind = "tcp4"
			c.count("tcp4")
			t, err := ParseTCP4(ip.Payload, ip.Src, ip.Dst, !c.Offload)
			in.TCP, in.SrcPort, in.DstPort = t, t.SrcPort, t.DstPort
			if err != nil {
				return in, err
			}
			return in, checkTCPOpts(t)
		case ProtoUDP:
			in.Kind = "udp4"
			c.count("udp4")
			u, err := ParseUDP4(ip.Payload, ip.Src, ip.Dst)
			in.UDP, in.SrcPort, in.DstPort = u, u.SrcPort, u.DstPort
			if err != nil && !(c.Offload && len(ip.Payload) >= 8 && int(be16(ip.Payload[4:])) == len(ip.Payload)) {
				return in, err
			}
			if err == nil && u.Csum == 0 && !c.Offload {
				return in, fmt.Errorf("udp: checksum field 0 over IPv4 on a link without checksum offload (not computed, or a computed 0x0000 not sent as 0xffff)")
			}
			return in, nil
		case ProtoICMP:
			in.Kind = "icmp4"
			c.count("icmp4")
			m, err := ParseICMPv4(ip.Payload)
			in.ICMP = m
			return in, err
		}
		in.Kind = "other4"
		c.count("other4")
		return in, nil
	case EthIPv6:
		ip, err := ParseIPv6(b)
		in.V6 = true
		if err != nil {
			c.count("bad6")
			return in, err
		}
		in.Src6, in.Dst6 = ip.Src, ip.Dst
		if ip.Hop == 0 {
			return in, fmt.Errorf("ipv6: hop limit 0")
		}
		switch ip.Next {
		case ProtoTCP:
			in.Kind = "tcp6"
			c.count("tcp6")
			t, err := ParseTCP6(ip.Payload, ip.Src, ip.Dst, !c.Offload)
			in.TCP, in.SrcPort, in.DstPort = t, t.SrcPort, t.DstPort
			if err != nil {
				return in, err
			}
			return in, checkTCPOpts(t)
		case ProtoUDP:
			in.Kind = "udp6"
			c.count("udp6")
			u, err := ParseUDP6(ip.Payload, ip.Src, ip.Dst)
			in.UDP, in.SrcPort, in.DstPort = u, u.SrcPort, u.DstPort
			if err != nil && !c.Offload {
				return in, err
			}
			return in, nil
		case ProtoICMPv6:
			in.Kind = "icmp6"
			c.count("icmp6")
			m, err := ParseICMPv6(ip.Payload, ip.Src, ip.Dst)
			in.ICMP = m
			return in, err
		}
		in.Kind = "other6"
		c.count("other6")
		return in, nil
	}
	c.count("unknown-ethertype")
	return in, fmt.Errorf("unknown network protocol %#04x", proto)
}
