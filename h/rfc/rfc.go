// Package rfc is an independent codec for the wire formats the stack speaks,
// written from the RFC layouts (894, 826, 791, 792, 768, 793, 1071, 2018,
// 7323, 8200, 4443, 4861). It imports nothing from the code under test.
package rfc

import (
	"errors"
	"fmt"
)

// ---------------------------------------------------------------------------
// RFC 1071 checksum: 64-bit accumulation of big-endian 16-bit words, explicit
// end-around carry folding. (Deliberately a different algorithm shape from the
// implementation under test.)

func Sum16(b []byte, init uint16) uint16 {
	var acc uint64 = uint64(init)
	n := len(b)
	for i := 0; i+1 < n; i += 2 {
		acc += uint64(b[i])<<8 | uint64(b[i+1])
	}
	if n%2 == 1 {
		acc += uint64(b[n-1]) << 8
	}
	for acc>>16 != 0 {
		acc = (acc & 0xffff) + (acc >> 16)
	}
	return uint16(acc)
}

// Add16 is one's-complement addition of two 16-bit sums.
func Add16(a, b uint16) uint16 {
	s := uint32(a) + uint32(b)
	for s>>16 != 0 {
		s = (s & 0xffff) + (s >> 16)
	}
	return uint16(s)
}

func be16(b []byte) uint16 { return uint16(b[0])<<8 | uint16(b[1]) }
func be32(b []byte) uint32 {
	return uint32(b[0])<<24 | uint32(b[1])<<16 | uint32(b[2])<<8 | uint32(b[3])
}
func put16(b []byte, v uint16) { b[0] = byte(v >> 8); b[1] = byte(v) }
func put32(b []byte, v uint32) {
	b[0] = byte(v >> 24)
	b[1] = byte(v >> 16)
	b[2] = byte(v >> 8)
	b[3] = byte(v)
}

// ---------------------------------------------------------------------------
// Ethernet II

const (
	EthIPv4 = 0x0800
	EthARP  = 0x0806
	EthIPv6 = 0x86DD
)

type Eth struct {
	Dst, Src [6]byte
	Type     uint16
	Payload  []byte
}

func ParseEth(b []byte) (Eth, error) {
	var e Eth
	if len(b) < 14 {
		return e, errors.New("ethernet: frame shorter than 14 bytes")
	}
	copy(e.Dst[:], b[0:6])
	copy(e.Src[:], b[6:12])
	e.Type = be16(b[12:14])
	e.Payload = b[14:]
	return e, nil
}

func (e Eth) Bytes() []byte {
	b := make([]byte, 14+len(e.Payload))
	copy(b[0:6], e.Dst[:])
	copy(b[6:12], e.Src[:])
	put16(b[12:14], e.Type)
	copy(b[14:], e.Payload)
	return b
}

// ---------------------------------------------------------------------------
// ARP (IPv4 over Ethernet)

type ARP struct {
	HType, PType uint16
	HLen, PLen   uint8
	Op           uint16
	SHA          [6]byte
	SPA          [4]byte
	THA          [6]byte
	TPA          [4]byte
}

func ParseARP(b []byte) (ARP, error) {
	var a ARP
	if len(b) < 28 {
		return a, errors.New("arp: shorter than 28 bytes")
	}
	a.HType = be16(b[0:])
	a.PType = be16(b[2:])
	a.HLen = b[4]
	a.PLen = b[5]
	a.Op = be16(b[6:])
	copy(a.SHA[:], b[8:14])
	copy(a.SPA[:], b[14:18])
	copy(a.THA[:], b[18:24])
	copy(a.TPA[:], b[24:28])
	if a.HType != 1 || a.PType != 0x0800 || a.HLen != 6 || a.PLen != 4 {
		return a, fmt.Errorf("arp: not IPv4-over-Ethernet (htype %d ptype %#x hlen %d plen %d)", a.HType, a.PType, a.HLen, a.PLen)
	}
	return a, nil
}

func (a ARP) Bytes() []byte {
	b := make([]byte, 28)
	put16(b[0:], a.HType)
	put16(b[2:], a.PType)
	b[4] = a.HLen
	b[5] = a.PLen
	put16(b[6:], a.Op)
	copy(b[8:14], a.SHA[:])
	copy(b[14:18], a.SPA[:])
	copy(b[18:24], a.THA[:])
	copy(b[24:28], a.TPA[:])
	return b
}

// ---------------------------------------------------------------------------
// IPv4

const (
	ProtoICMP   = 1
	ProtoTCP    = 6
	ProtoUDP    = 17
	ProtoICMPv6 = 58
	ProtoFrag6  = 44
)

type IPv4 struct {
	IHL      uint8 // in 32-bit words
	TOS      uint8
	TotalLen uint16
	ID       uint16
	Flags    uint8 // 3 bits: 0, DF, MF  (DF=2, MF=1)
	FragOff  uint16 // in 8-byte units
	TTL      uint8
	Proto    uint8
	Csum     uint16
	Src, Dst [4]byte
	Options  []byte
	Payload  []byte
}

// ParseIPv4 decodes and validates: version, IHL, total length against the
// actual packet, header checksum.
func ParseIPv4(b []byte) (IPv4, error) {
	var p IPv4
	if len(b) < 20 {
		return p, errors.New("ipv4: shorter than 20 bytes")
	}
	if b[0]>>4 != 4 {
		return p, fmt.Errorf("ipv4: version %d", b[0]>>4)
	}
	p.IHL = b[0] & 0xf
	hl := int(p.IHL) * 4
	if hl < 20 || hl > len(b) {
		return p, fmt.Errorf("ipv4: IHL %d invalid for %d bytes", p.IHL, len(b))
	}
	p.TOS = b[1]
	p.TotalLen = be16(b[2:])
	p.ID = be16(b[4:])
	p.Flags = b[6] >> 5
	p.FragOff = be16(b[6:]) & 0x1fff
	p.TTL = b[8]
	p.Proto = b[9]
	p.Csum = be16(b[10:])
	copy(p.Src[:], b[12:16])
	copy(p.Dst[:], b[16:20])
	p.Options = b[20:hl]
	if int(p.TotalLen) != len(b) {
		return p, fmt.Errorf("ipv4: total length field %d but packet has %d bytes", p.TotalLen, len(b))
	}
	if s := Sum16(b[:hl], 0); s != 0xffff {
		return p, fmt.Errorf("ipv4: header checksum does not verify (sum %#04x)", s)
	}
	p.Payload = b[hl:]
	return p, nil
}

// Bytes encodes; TotalLen and Csum are computed when zero and fix is true.
func (p IPv4) Bytes(fix bool) []byte {
	ihl := p.IHL
	if ihl == 0 {
		ihl = uint8(5 + (len(p.Options)+3)/4)
	}
	hl := int(ihl) * 4
	b := make([]byte, hl+len(p.Payload))
	b[0] = 4<<4 | ihl&0xf
	b[1] = p.TOS
	tl := p.TotalLen
	if fix {
		tl = uint16(len(b))
	}
	put16(b[2:], tl)
	put16(b[4:], p.ID)
	put16(b[6:], uint16(p.Flags)<<13|p.FragOff&0x1fff)
	b[8] = p.TTL
	b[9] = p.Proto
	copy(b[12:16], p.Src[:])
	copy(b[16:20], p.Dst[:])
	if hl > 20 {
		copy(b[20:hl], p.Options)
	}
	cs := p.Csum
	if fix {
		cs = ^Sum16(b[:hl], 0)
	}
	put16(b[10:], cs)
	copy(b[hl:], p.Payload)
	return b
}

func pseudo4(src, dst [4]byte, proto uint8, l int) uint16 {
	var ph [12]byte
	copy(ph[0:4], src[:])
	copy(ph[4:8], dst[:])
	ph[9] = proto
	put16(ph[10:], uint16(l))
	return Sum16(ph[:], 0)
}

func pseudo6(src, dst [16]byte, next uint8, l int) uint16 {
	var ph [40]byte
	copy(ph[0:16], src[:])
	copy(ph[16:32], dst[:])
	put32(ph[32:], uint32(l))
	ph[39] = next
	return Sum16(ph[:], 0)
}

// ---------------------------------------------------------------------------
// IPv6

type IPv6 struct {
	TC         uint8
	Flow       uint32
	PayloadLen uint16
	Next       uint8
	Hop        uint8
	Src, Dst   [16]byte
	Payload    []byte
}

func ParseIPv6(b []byte) (IPv6, error) {
	var p IPv6
	if len(b) < 40 {
		return p, errors.New("ipv6: shorter than 40 bytes")
	}
	if b[0]>>4 != 6 {
		return p, fmt.Errorf("ipv6: version %d", b[0]>>4)
	}
	p.TC = b[0]<<4 | b[1]>>4
	p.Flow = be32(b[0:]) & 0xfffff
	p.PayloadLen = be16(b[4:])
	p.Next = b[6]
	p.Hop = b[7]
	copy(p.Src[:], b[8:24])
	copy(p.Dst[:], b[24:40])
	if int(p.PayloadLen) != len(b)-40 {
		return p, fmt.Errorf("ipv6: payload length field %d but %d bytes follow the header", p.PayloadLen, len(b)-40)
	}
	p.Payload = b[40:]
	return p, nil
}

func (p IPv6) Bytes(fix bool) []byte {
	b := make([]byte, 40+len(p.Payload))
	put32(b[0:], 6<<28|uint32(p.TC)<<20|p.Flow&0xfffff)
	pl := p.PayloadLen
	if fix {
		pl = uint16(len(p.Payload))
	}
	put16(b[4:], pl)
	b[6] = p.Next
	b[7] = p.Hop
	copy(b[8:24], p.Src[:])
	copy(b[24:40], p.Dst[:])
	copy(b[40:], p.Payload)
	return b
}

type Frag6 struct {
	Next    uint8
	Off     uint16 // 8-byte units
	More    bool
	ID      uint32
	Payload []byte
}

func ParseFrag6(b []byte) (Frag6, error) {
	var f Frag6
	if len(b) < 8 {
		return f, errors.New("ipv6 fragment header: shorter than 8 bytes")
	}
	f.Next = b[0]
	f.Off = be16(b[2:]) >> 3
	f.More = b[3]&1 == 1
	f.ID = be32(b[4:])
	f.Payload = b[8:]
	return f, nil
}

func (f Frag6) Bytes() []byte {
	b := make([]byte, 8+len(f.Payload))
	b[0] = f.Next
	v := f.Off << 3
	if f.More {
		v |= 1
	}
	put16(b[2:], v)
	put32(b[4:], f.ID)
	copy(b[8:], f.Payload)
	return b
}

// ---------------------------------------------------------------------------
// ICMP (v4: RFC 792, v6: RFC 4443); echo uses Rest as id(16) seq(16).

type ICMP struct {
	Type, Code uint8
	Csum       uint16
	Rest       [4]byte
	Payload    []byte
}

func (m ICMP) ID() uint16  { return be16(m.Rest[0:]) }
func (m ICMP) Seq() uint16 { return be16(m.Rest[2:]) }

func ParseICMPv4(b []byte) (ICMP, error) {
	var m ICMP
	if len(b) < 8 {
		return m, errors.New("icmpv4: shorter than 8 bytes")
	}
	m.Type, m.Code, m.Csum = b[0], b[1], be16(b[2:])
	copy(m.Rest[:], b[4:8])
	m.Payload = b[8:]
	if s := Sum16(b, 0); s != 0xffff {
		return m, fmt.Errorf("icmpv4: checksum does not verify (sum %#04x)", s)
	}
	return m, nil
}

func (m ICMP) BytesV4(fix bool) []byte {
	b := make([]byte, 8+len(m.Payload))
	b[0], b[1] = m.Type, m.Code
	copy(b[4:8], m.Rest[:])
	copy(b[8:], m.Payload)
	cs := m.Csum
	if fix {
		cs = ^Sum16(b, 0)
	}
	put16(b[2:], cs)
	return b
}

func ParseICMPv6(b []byte, src, dst [16]byte) (ICMP, error) {
	var m ICMP
	if len(b) < 4 {
		return m, errors.New("icmpv6: shorter than 4 bytes")
	}
	m.Type, m.Code, m.Csum = b[0], b[1], be16(b[2:])
	if len(b) >= 8 {
		copy(m.Rest[:], b[4:8])
		m.Payload = b[8:]
	}
	if s := Sum16(b, pseudo6(src, dst, ProtoICMPv6, len(b))); s != 0xffff {
		return m, fmt.Errorf("icmpv6: checksum does not verify (sum %#04x)", s)
	}
	return m, nil
}

func (m ICMP) BytesV6(src, dst [16]byte, fix bool) []byte {
	b := make([]byte, 8+len(m.Payload))
	b[0], b[1] = m.Type, m.Code
	copy(b[4:8], m.Rest[:])
	copy(b[8:], m.Payload)
	cs := m.Csum
	if fix {
		cs = ^Sum16(b, pseudo6(src, dst, ProtoICMPv6, len(b)))
	}
	put16(b[2:], cs)
	return b
}

// ---------------------------------------------------------------------------
// UDP

type UDP struct {
	SrcPort, DstPort uint16
	Len              uint16
	Csum             uint16
	Payload          []byte
}

// ParseUDP validates length and (when non-zero, or always for IPv6) the
// checksum with the given pseudo-header sum function.
func parseUDP(b []byte, ph uint16, v6 bool) (UDP, error) {
	var u UDP
	if len(b) < 8 {
		return u, errors.New("udp: shorter than 8 bytes")
	}
	u.SrcPort, u.DstPort, u.Len, u.Csum = be16(b[0:]), be16(b[2:]), be16(b[4:]), be16(b[6:])
	if int(u.Len) != len(b) {
		return u, fmt.Errorf("udp: length field %d but datagram has %d bytes", u.Len, len(b))
	}
	u.Payload = b[8:]
	if u.Csum == 0 {
		if v6 {
			return u, errors.New("udp: zero checksum over IPv6")
		}
		return u, nil
	}
	if s := Sum16(b, ph); s != 0xffff {
		return u, fmt.Errorf("udp: checksum does not verify (sum %#04x)", s)
	}
	return u, nil
}

func ParseUDP4(b []byte, src, dst [4]byte) (UDP, error) {
	return parseUDP(b, pseudo4(src, dst, ProtoUDP, len(b)), false)
}
func ParseUDP6(b []byte, src, dst [16]byte) (UDP, error) {
	return parseUDP(b, pseudo6(src, dst, ProtoUDP, len(b)), true)
}

func (u UDP) bytes(ph func(l int) uint16, fix bool) []byte {
	b := make([]byte, 8+len(u.Payload))
	put16(b[0:], u.SrcPort)
	put16(b[2:], u.DstPort)
	l := u.Len
	if fix {
		l = uint16(len(b))
	}
	put16(b[4:], l)
	copy(b[8:], u.Payload)
	cs := u.Csum
	if fix {
		cs = ^Sum16(b, ph(len(b)))
		if cs == 0 {
			cs = 0xffff
		}
	}
	put16(b[6:], cs)
	return b
}
// CsumOf4 / CsumOf6: the checksum (complement of the one's-complement sum incl.
// pseudo-header) of the encoded datagram b as it stands.
func (UDP) CsumOf4(b []byte, src, dst [4]byte) uint16 {
	return ^Sum16(b, pseudo4(src, dst, ProtoUDP, len(b)))
}
func (UDP) CsumOf6(b []byte, src, dst [16]byte) uint16 {
	return ^Sum16(b, pseudo6(src, dst, ProtoUDP, len(b)))
}

func (u UDP) Bytes4(src, dst [4]byte, fix bool) []byte {
	return u.bytes(func(l int) uint16 { return pseudo4(src, dst, ProtoUDP, l) }, fix)
}
func (u UDP) Bytes6(src, dst [16]byte, fix bool) []byte {
	return u.bytes(func(l int) uint16 { return pseudo6(src, dst, ProtoUDP, l) }, fix)
}

// ---------------------------------------------------------------------------
// TCP

const (
	FIN = 1
	SYN = 2
	RST = 4
	PSH = 8
	ACK = 16
	URG = 32
)

type TCPOpt struct {
	Kind uint8
	Data []byte // without kind/len
}

type TCP struct {
	SrcPort, DstPort uint16
	Seq, Ack         uint32
	DataOff          uint8 // 32-bit words
	Flags            uint8
	Window           uint16
	Csum             uint16
	Urg              uint16
	RawOpts          []byte
	Payload          []byte
}

func parseTCP(b []byte, ph uint16, verify bool) (TCP, error) {
	var t TCP
	if len(b) < 20 {
		return t, errors.New("tcp: shorter than 20 bytes")
	}
	t.SrcPort, t.DstPort = be16(b[0:]), be16(b[2:])
	t.Seq, t.Ack = be32(b[4:]), be32(b[8:])
	t.DataOff = b[12] >> 4
	t.Flags = b[13] & 0x3f
	t.Window = be16(b[14:])
	t.Csum = be16(b[16:])
	t.Urg = be16(b[18:])
	hl := int(t.DataOff) * 4
	if hl < 20 || hl > len(b) {
		return t, fmt.Errorf("tcp: data offset %d invalid for %d bytes", t.DataOff, len(b))
	}
	t.RawOpts = b[20:hl]
	t.Payload = b[hl:]
	if verify {
		if s := Sum16(b, ph); s != 0xffff {
			return t, fmt.Errorf("tcp: checksum does not verify (sum %#04x)", s)
		}
	}
	return t, nil
}

func ParseTCP4(b []byte, src, dst [4]byte, verify bool) (TCP, error) {
	return parseTCP(b, pseudo4(src, dst, ProtoTCP, len(b)), verify)
}
func ParseTCP6(b []byte, src, dst [16]byte, verify bool) (TCP, error) {
	return parseTCP(b, pseudo6(src, dst, ProtoTCP, len(b)), verify)
}

// Options walks the option list strictly: every option must be complete,
// lengths sane; returns the options in order (NOP/EOL included as kinds 1/0).
func (t TCP) Options() ([]TCPOpt, error) { return ParseTCPOpts(t.RawOpts) }

func ParseTCPOpts(o []byte) ([]TCPOpt, error) {
	var out []TCPOpt
	for i := 0; i < len(o); {
		k := o[i]
		switch k {
		case 0:
			// EOL: remaining bytes must be padding (zero)
			for j := i; j < len(o); j++ {
				if o[j] != 0 {
					return out, fmt.Errorf("tcp options: non-zero byte after end-of-list at %d", j)
				}
			}
			out = append(out, TCPOpt{Kind: 0})
			return out, nil
		case 1:
			out = append(out, TCPOpt{Kind: 1})
			i++
		default:
			if i+1 >= len(o) {
				return out, fmt.Errorf("tcp options: kind %d at %d has no length byte", k, i)
			}
			l := int(o[i+1])
			if l < 2 || i+l > len(o) {
				return out, fmt.Errorf("tcp options: kind %d at %d has length %d, %d bytes remain", k, i, l, len(o)-i)
			}
			out = append(out, TCPOpt{Kind: k, Data: o[i+2 : i+l]})
			i += l
		}
	}
	return out, nil
}

func (t TCP) bytes(ph func(l int) uint16, fix bool) []byte {
	opts := t.RawOpts
	do := t.DataOff
	if fix {
		for len(opts)%4 != 0 {
			opts = append(append([]byte(nil), opts...), 0)
		}
		do = uint8(5 + len(opts)/4)
	}
	hl := 20 + len(opts)
	b := make([]byte, hl+len(t.Payload))
	put16(b[0:], t.SrcPort)
	put16(b[2:], t.DstPort)
	put32(b[4:], t.Seq)
	put32(b[8:], t.Ack)
	b[12] = do << 4
	b[13] = t.Flags
	put16(b[14:], t.Window)
	put16(b[18:], t.Urg)
	copy(b[20:], opts)
	copy(b[hl:], t.Payload)
	cs := t.Csum
	if fix {
		cs = ^Sum16(b, ph(len(b)))
	}
	put16(b[16:], cs)
	return b
}
func (t TCP) Bytes4(src, dst [4]byte, fix bool) []byte {
	return t.bytes(func(l int) uint16 { return pseudo4(src, dst, ProtoTCP, l) }, fix)
}
func (t TCP) Bytes6(src, dst [16]byte, fix bool) []byte {
	return t.bytes(func(l int) uint16 { return pseudo6(src, dst, ProtoTCP, l) }, fix)
}

// Option builders
func OptMSS(v uint16) []byte { return []byte{2, 4, byte(v >> 8), byte(v)} }
func OptWS(s uint8) []byte   { return []byte{3, 3, s} }
func OptSACKPerm() []byte    { return []byte{4, 2} }
func OptTS(val, ecr uint32) []byte {
	b := make([]byte, 10)
	b[0], b[1] = 8, 10
	put32(b[2:], val)
	put32(b[6:], ecr)
	return b
}
func OptSACK(blocks [][2]uint32) []byte {
	b := make([]byte, 2+8*len(blocks))
	b[0], b[1] = 5, byte(len(b))
	for i, bl := range blocks {
		put32(b[2+8*i:], bl[0])
		put32(b[6+8*i:], bl[1])
	}
	return b
}

func Be16(b []byte) uint16 { return be16(b) }
func Be32(b []byte) uint32 { return be32(b) }
