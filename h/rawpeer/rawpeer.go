// Package rawpeer is a scripted TCP peer: it builds segments with the
// independent codec (h/rfc), injects them into one real stack through the
// harness link and decodes everything the stack emits.
package rawpeer

import (
	"fmt"
	"github.com/brewlin/net-protocol/stack"
	"sync"
	"time"

	tcpip "github.com/brewlin/net-protocol/protocol"
	"github.com/brewlin/net-protocol/protocol/network/ipv4"
	"github.com/brewlin/net-protocol/protocol/network/ipv6"
	"verifh/rfc"
	"verifh/vt"
	"verifh/wire"
)

type Seg struct {
	T time.Duration
	rfc.TCP
	Opts   []rfc.TCPOpt
	OptErr error
	IPLen  int // total network-layer packet length
	IPID   uint16
	Err    error // decode/checksum error of the frame
}

func (s Seg) Has(f uint8) bool { return s.Flags&f == f }

// TS returns the timestamp option (val, ecr, present).
func (s Seg) TS() (uint32, uint32, bool) {
	for _, o := range s.Opts {
		if o.Kind == 8 && len(o.Data) == 8 {
			return rfc.Be32(o.Data), rfc.Be32(o.Data[4:]), true
		}
	}
	return 0, 0, false
}

func (s Seg) Opt(kind uint8) ([]byte, bool) {
	for _, o := range s.Opts {
		if o.Kind == kind {
			return o.Data, true
		}
	}
	return nil, false
}

func (s Seg) String() string {
	return fmt.Sprintf("[%v %d>%d fl=%#02x seq=%d ack=%d len=%d wnd=%d]", s.T, s.SrcPort, s.DstPort, s.Flags, s.Seq, s.Ack, len(s.Payload), s.Window)
}

type Peer struct {
	H             *wire.Host
	V6            bool
	RemoteMAC     tcpip.LinkAddress // source link address of injected frames (resolution-required links)
	Stack4, Peer4 [4]byte
	Stack6, Peer6 [16]byte
	mu            sync.Mutex
	rx            []Seg
	other         []*wire.Frame // non-TCP frames
	ipid          uint16
	t0            time.Time
	OnFrame       func(f *wire.Frame) // extra tap (e.g. the C06 frame checker)
}

func New(h *wire.Host, v6 bool) *Peer {
	p := &Peer{H: h, V6: v6, t0: time.Now()}
	copy(p.Stack4[:], wire.AddrA4)
	copy(p.Peer4[:], wire.AddrB4)
	copy(p.Stack6[:], wire.AddrA6)
	copy(p.Peer6[:], wire.AddrB6)
	h.L.AddTap(p.tap)
	return p
}

func (p *Peer) StackAddr() tcpip.Address {
	if p.V6 {
		return wire.AddrA6
	}
	return wire.AddrA4
}
func (p *Peer) PeerAddr() tcpip.Address {
	if p.V6 {
		return wire.AddrB6
	}
	return wire.AddrB4
}

func (p *Peer) tap(f *wire.Frame) {
	if p.OnFrame != nil {
		p.OnFrame(f)
	}
	var s Seg
	s.T = time.Since(p.t0)
	s.IPLen = len(f.Data)
	isTCP := false
	switch f.Proto {
	case ipv4.ProtocolNumber:
		ip, err := rfc.ParseIPv4(f.Data)
		if err != nil {
			s.Err = err
			isTCP = len(f.Data) > 9 && f.Data[9] == rfc.ProtoTCP
			break
		}
		if ip.Proto == rfc.ProtoTCP {
			isTCP = true
			s.IPID = ip.ID
			t, err := rfc.ParseTCP4(ip.Payload, ip.Src, ip.Dst, true)
			s.TCP, s.Err = t, err
		}
	case ipv6.ProtocolNumber:
		ip, err := rfc.ParseIPv6(f.Data)
		if err != nil {
			s.Err = err
			isTCP = len(f.Data) > 6 && f.Data[6] == rfc.ProtoTCP
			break
		}
		if ip.Next == rfc.ProtoTCP {
			isTCP = true
			t, err := rfc.ParseTCP6(ip.Payload, ip.Src, ip.Dst, true)
			s.TCP, s.Err = t, err
		}
	}
	p.mu.Lock()
	if isTCP {
		if s.Err == nil {
			s.Opts, s.OptErr = s.TCP.Options()
		}
		// copy payload/options out of the frame buffer
		s.Payload = append([]byte(nil), s.Payload...)
		p.rx = append(p.rx, s)
	} else {
		p.other = append(p.other, f)
	}
	p.mu.Unlock()
}

// Take returns the TCP segments emitted since the last Take.
func (p *Peer) Take() []Seg {
	p.mu.Lock()
	defer p.mu.Unlock()
	r := p.rx
	p.rx = nil
	return r
}

// TakeFor returns the segments emitted since the last call that belong to the
// connection (stack port, peer port); everything else is discarded.
func (p *Peer) TakeFor(stackPort, peerPort uint16) []Seg {
	all := p.Take()
	var r []Seg
	for _, s := range all {
		if s.Err != nil || (s.SrcPort == stackPort && s.DstPort == peerPort) {
			r = append(r, s)
		}
	}
	return r
}

func (p *Peer) TakeOther() []*wire.Frame {
	p.mu.Lock()
	defer p.mu.Unlock()
	r := p.other
	p.other = nil
	return r
}

// Settle lets the stack process what was injected: a minimal virtual pause
// and then quiescence of the whole bubble (timers do not fire meanwhile).
func Settle() {
	time.Sleep(time.Microsecond)
	vt.Quiesce()
}

// Send injects one TCP segment from the peer to the stack (checksums fixed) and settles.
func (p *Peer) Send(t rfc.TCP) {
	p.SendNoSettle(t)
	Settle()
}

func (p *Peer) Packet(t rfc.TCP) (tcpip.NetworkProtocolNumber, []byte) {
	p.ipid++
	if p.V6 {
		seg := t.Bytes6(p.Peer6, p.Stack6, true)
		ip := rfc.IPv6{Next: rfc.ProtoTCP, Hop: 64, Src: p.Peer6, Dst: p.Stack6, Payload: seg}
		return ipv6.ProtocolNumber, ip.Bytes(true)
	}
	seg := t.Bytes4(p.Peer4, p.Stack4, true)
	ip := rfc.IPv4{TTL: 64, Proto: rfc.ProtoTCP, ID: p.ipid, Src: p.Peer4, Dst: p.Stack4, Payload: seg}
	return ipv4.ProtocolNumber, ip.Bytes(true)
}

func (p *Peer) SendNoSettle(t rfc.TCP) {
	proto, b := p.Packet(t)
	p.H.L.Inject(proto, b, p.RemoteMAC)
}

// NewHost builds the stack under test for scripted-peer checks.
// DebugProbe, when set, is attached as TCP probe to every host made by NewHost.
var DebugProbe func(stack.TCPEndpointState)

func NewHost(mtu uint32, sack bool, cc string) (*wire.Host, error) {
	if DebugProbe != nil {
		h, err := wire.NewHost(wire.HostCfg{Name: "S", MTU: mtu, V4: []tcpip.Address{wire.AddrA4}, V6: []tcpip.Address{wire.AddrA6}, SACK: sack, CC: cc})
		if err == nil {
			h.S.AddTCPProbe(DebugProbe)
		}
		return h, err
	}
	return wire.NewHost(wire.HostCfg{Name: "S", MTU: mtu, V4: []tcpip.Address{wire.AddrA4}, V6: []tcpip.Address{wire.AddrA6}, SACK: sack, CC: cc})
}
