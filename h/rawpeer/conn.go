package rawpeer

import (
	"fmt"

	"github.com/brewlin/net-protocol/pkg/waiter"
	tcpip "github.com/brewlin/net-protocol/protocol"
	"github.com/brewlin/net-protocol/protocol/network/ipv4"
	"github.com/brewlin/net-protocol/protocol/network/ipv6"
	"github.com/brewlin/net-protocol/protocol/transport/tcp"
	"verifh/rfc"
	"verifh/tcpx"
)

type EstOpts struct {
	Active  bool   // the stack connects (else it listens and the peer connects)
	LPort   uint16 // stack-side port (listen port for passive; 0 = ephemeral for active)
	PPort   uint16 // peer port
	PeerISS uint32
	OwnISS  *uint32 // active only (steered)
	MSS     uint16  // peer's MSS option (0 = no option => 536)
	WS      int     // peer's window scale (-1 = no option)
	TS      bool    // peer offers/echoes timestamps
	SACK    bool    // peer sends SACK-permitted
	Window  uint16  // window field of the peer's SYN / SYN-ACK (unscaled)
	RcvBuf  int     // stack-side receive buffer (0 = default)
	SndBuf  int
	AckData []byte // passive only: payload carried by the handshake-completing ACK (the caller sends it again)
	Trailer []byte // bytes put behind the peer's SYN / SYN-ACK options (e.g. end-of-option-list and what a sloppy sender leaves behind it)
}

// Conn is an established connection between the stack and the scripted peer.
type Conn struct {
	P            *Peer
	EP           tcpip.Endpoint
	WQ           *waiter.Queue
	Listener     tcpip.Endpoint
	LPort, PPort uint16
	ISS, IRS     uint32 // stack's and peer's initial sequence numbers
	PeerWS       uint8  // shift the stack must apply to the peer's window field
	OwnWS        uint8  // shift the stack announced for its own window field
	WSok         bool
	TSok         bool
	SACKok       bool
	PeerMSS      int
	tsval        uint32
	tsecr        uint32
	SynSeg       Seg // the stack's SYN or SYN-ACK
}

func (c *Conn) tsOpt() []byte {
	if !c.TSok {
		return nil
	}
	c.tsval++
	return append([]byte{1, 1}, rfc.OptTS(c.tsval, c.tsecr)...)
}

// Establish performs the handshake. It returns nil and an error text when the
// stack does not behave as a handshake requires (callers judge that elsewhere).
func (p *Peer) Establish(o EstOpts) (*Conn, string) {
	np := ipv4.ProtocolNumber
	if p.V6 {
		np = ipv6.ProtocolNumber
	}
	c := &Conn{P: p, PPort: o.PPort, IRS: o.PeerISS, tsval: 1000}
	var opts []byte
	if o.MSS != 0 {
		opts = append(opts, rfc.OptMSS(o.MSS)...)
		c.PeerMSS = int(o.MSS)
	} else {
		c.PeerMSS = 536
	}
	if o.WS >= 0 {
		opts = append(opts, 1)
		opts = append(opts, rfc.OptWS(uint8(o.WS))...)
	}
	if o.SACK {
		opts = append(opts, 1, 1)
		opts = append(opts, rfc.OptSACKPerm()...)
	}
	wq := &waiter.Queue{}
	ep, err := p.H.S.NewEndpoint(tcp.ProtocolNumber, np, wq)
	if err != nil {
		return nil, "harness: " + err.String()
	}
	if o.RcvBuf > 0 {
		ep.SetSockOpt(tcpip.ReceiveBufferSizeOption(o.RcvBuf))
	}
	if o.SndBuf > 0 {
		ep.SetSockOpt(tcpip.SendBufferSizeOption(o.SndBuf))
	}
	parse := func(s Seg) {
		c.SynSeg = s
		c.ISS = s.Seq
		if d, ok := s.Opt(3); ok && len(d) == 1 && o.WS >= 0 {
			c.OwnWS = d[0]
			c.WSok = true
			c.PeerWS = uint8(o.WS)
			if c.PeerWS > 14 {
				c.PeerWS = 14
			}
		}
		if v, _, ok := s.TS(); ok && o.TS {
			c.TSok = true
			c.tsecr = v
		}
		if _, ok := s.Opt(4); ok && o.SACK {
			c.SACKok = true
		}
	}
	if o.Active {
		if o.OwnISS != nil && tcpx.SteerISS != nil {
			tcpx.SteerISS(o.OwnISS)
		}
		if e := ep.Connect(tcpip.FullAddress{Addr: p.PeerAddr(), Port: o.PPort}); e != tcpip.ErrConnectStarted {
			return nil, "harness: connect: " + e.String()
		}
		Settle()
		var syn *Seg
		for _, s := range p.Take() {
			s := s
			if s.DstPort == o.PPort && s.Has(rfc.SYN) {
				syn = &s
			}
		}
		if syn == nil {
			return nil, "no SYN emitted"
		}
		c.LPort = syn.SrcPort
		if o.TS {
			if v, _, ok := syn.TS(); ok {
				opts = append(opts, 1, 1)
				opts = append(opts, rfc.OptTS(c.tsval, v)...)
			}
		}
		parse(*syn)
		opts = append(opts, o.Trailer...)
		p.Send(rfc.TCP{SrcPort: o.PPort, DstPort: c.LPort, Seq: o.PeerISS, Ack: c.ISS + 1, Flags: rfc.SYN | rfc.ACK, Window: o.Window, RawOpts: opts})
		ok := false
		for _, s := range p.TakeFor(c.LPort, o.PPort) {
			if s.Flags&(rfc.SYN|rfc.RST|rfc.ACK) == rfc.ACK && s.Ack == o.PeerISS+1 {
				ok = true
				if v, _, has := s.TS(); has {
					c.tsecr = v
				}
			}
		}
		if !ok {
			return nil, "handshake ACK missing"
		}
		c.EP, c.WQ = ep, wq
		return c, ""
	}
	// passive
	if e := ep.Bind(tcpip.FullAddress{Port: o.LPort}, nil); e != nil {
		return nil, "harness: bind: " + e.String()
	}
	if e := ep.Listen(4); e != nil {
		return nil, "harness: listen: " + e.String()
	}
	c.Listener = ep
	c.LPort = o.LPort
	if o.TS {
		opts = append(opts, 1, 1)
		opts = append(opts, rfc.OptTS(c.tsval, 0)...)
	}
	opts = append(opts, o.Trailer...)
	p.Send(rfc.TCP{SrcPort: o.PPort, DstPort: o.LPort, Seq: o.PeerISS, Flags: rfc.SYN, Window: o.Window, RawOpts: opts})
	var sa *Seg
	for _, s := range p.TakeFor(o.LPort, o.PPort) {
		s := s
		if s.Has(rfc.SYN | rfc.ACK) {
			sa = &s
		}
	}
	if sa == nil {
		return nil, "no SYN-ACK emitted"
	}
	parse(*sa)
	p.Send(rfc.TCP{SrcPort: o.PPort, DstPort: o.LPort, Seq: o.PeerISS + 1, Ack: c.ISS + 1, Flags: rfc.ACK, Window: o.Window, RawOpts: c.tsOpt(), Payload: o.AckData})
	p.TakeFor(o.LPort, o.PPort)
	ne, nwq, e := ep.Accept()
	if e != nil {
		return nil, "accept: " + e.String()
	}
	c.EP, c.WQ = ne, nwq
	return c, ""
}

// Seg builds a peer segment with sequence numbers relative to the first data byte
// of each direction (relSeq 0 = first byte the peer sends; relAck 0 = nothing of
// the stack's data acknowledged yet).
func (c *Conn) Seg(relSeq int64, relAck int64, flags uint8, wnd uint16, payload []byte, extraOpts []byte) rfc.TCP {
	o := c.tsOpt()
	o = append(o, extraOpts...)
	return rfc.TCP{SrcPort: c.PPort, DstPort: c.LPort, Seq: c.IRS + 1 + uint32(relSeq), Ack: c.ISS + 1 + uint32(relAck), Flags: flags, Window: wnd, Payload: payload, RawOpts: o}
}

func (c *Conn) Send(relSeq, relAck int64, flags uint8, wnd uint16, payload []byte, extraOpts []byte) {
	c.P.Send(c.Seg(relSeq, relAck, flags, wnd, payload, extraOpts))
}

// Take returns this connection's emitted segments.
func (c *Conn) Take() []Seg { return c.P.TakeFor(c.LPort, c.PPort) }

// RelSeq / RelAck convert a stack segment's numbers to relative stream offsets
// (unwrapped against a 64-bit hint near `near`).
func (c *Conn) RelSeq(s Seg, near int64) int64 { return unwrap(s.Seq-(c.ISS+1), near) }
func (c *Conn) RelAck(s Seg, near int64) int64 { return unwrap(s.Ack-(c.IRS+1), near) }

func unwrap(v uint32, near int64) int64 {
	base := near &^ 0xffffffff
	best := base + int64(v)
	for _, cand := range []int64{base + int64(v) - 1<<32, base + int64(v) + 1<<32} {
		if abs(cand-near) < abs(best-near) {
			best = cand
		}
	}
	return best
}
func abs(x int64) int64 {
	if x < 0 {
		return -x
	}
	return x
}

func (c *Conn) Close() {
	if c.EP != nil {
		c.EP.Close()
	}
	if c.Listener != nil {
		c.Listener.Close()
	}
}

func (c *Conn) String() string {
	return fmt.Sprintf("conn %d<->%d iss=%d irs=%d peerWS=%d ownWS=%d ts=%v sack=%v mss=%d", c.LPort, c.PPort, c.ISS, c.IRS, c.PeerWS, c.OwnWS, c.TSok, c.SACKok, c.PeerMSS)
}

// FragNeeded injects the ICMP error a router on the path would send for the stack's
// segment starting at stream offset rel: IPv4 destination unreachable / fragmentation
// needed, or IPv6 packet too big, naming nextHopMTU.
func (c *Conn) FragNeeded(rel int64, nextHopMTU int, ipid uint16) {
	p := c.P
	quoted := rfc.TCP{SrcPort: c.LPort, DstPort: c.PPort, Seq: c.ISS + 1 + uint32(rel), Flags: rfc.ACK}
	m := nextHopMTU
	if p.V6 {
		q := rfc.IPv6{Next: rfc.ProtoTCP, Hop: 60, Src: p.Stack6, Dst: p.Peer6, Payload: quoted.Bytes6(p.Stack6, p.Peer6, true)}.Bytes(true)
		msg := rfc.ICMP{Type: 2, Rest: [4]byte{byte(m >> 24), byte(m >> 16), byte(m >> 8), byte(m)}, Payload: q}
		ip := rfc.IPv6{Next: rfc.ProtoICMPv6, Hop: 64, Src: p.Peer6, Dst: p.Stack6, Payload: msg.BytesV6(p.Peer6, p.Stack6, true)}
		p.H.L.Inject(ipv6.ProtocolNumber, ip.Bytes(true), "")
	} else {
		q := rfc.IPv4{TTL: 60, Proto: rfc.ProtoTCP, Src: p.Stack4, Dst: p.Peer4, Payload: quoted.Bytes4(p.Stack4, p.Peer4, true)}.Bytes(true)
		msg := rfc.ICMP{Type: 3, Code: 4, Rest: [4]byte{0, 0, byte(m >> 8), byte(m)}, Payload: q[:28]}
		ip := rfc.IPv4{TTL: 64, Proto: rfc.ProtoICMP, ID: ipid, Src: p.Peer4, Dst: p.Stack4, Payload: msg.BytesV4(true)}
		p.H.L.Inject(ipv4.ProtocolNumber, ip.Bytes(true), "")
	}
	Settle()
}
