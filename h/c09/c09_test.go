package c09

import (
	"sort"
	"bytes"
	"fmt"
	"io"
	"log"
	"os"
	"runtime"
	"sync"
	"sync/atomic"
	"testing"
	"time"

	"github.com/brewlin/net-protocol/pkg/buffer"
	"github.com/brewlin/net-protocol/pkg/waiter"
	tcpip "github.com/brewlin/net-protocol/protocol"
	"github.com/brewlin/net-protocol/protocol/network/ipv4"
	"github.com/brewlin/net-protocol/protocol/network/ipv6"
	"github.com/brewlin/net-protocol/protocol/transport/tcp"
	"github.com/brewlin/net-protocol/protocol/transport/udp"
	"github.com/brewlin/net-protocol/stack"
	"verifh/fw"
	"verifh/rawpeer"
	"verifh/rfc"
	"verifh/vt"
	"verifh/wire"
)

var run *fw.Run

var (
	l11     = tcpip.Address("\x0a\x00\x01\x01") // NIC 1 primary
	l12     = tcpip.Address("\x0a\x00\x01\x02") // NIC 1 secondary
	l21     = tcpip.Address("\x0a\x00\x02\x01") // NIC 2
	r19     = tcpip.Address("\x0a\x00\x01\x09")
	r18     = tcpip.Address("\x0a\x00\x01\x08")
	r29     = tcpip.Address("\x0a\x00\x02\x09")
	foreign = tcpip.Address("\x0a\x00\x01\x4d")
	insub   = tcpip.Address("\x0a\x00\x01\xc8") // 10.0.1.200: inside 10.0.1.192/26, which an interface may be told it owns
	group1  = tcpip.Address("\xe0\x00\x00\x09") // multicast groups: assigned to an interface while a socket is a member
	group2  = tcpip.Address("\xef\x01\x01\x01")
)

type world struct {
	s        *stack.Stack
	links    [3]*wire.Link // index = NIC id
	mu       sync.Mutex
	out      [3][]*wire.Frame
	assigned map[tcpip.NICID]map[tcpip.Address]bool
	members  map[tcpip.NICID]map[tcpip.Address]int // multicast memberships held by open sockets
	promisc  map[tcpip.NICID]bool                  // interface explicitly promiscuous
	subnets  map[tcpip.NICID][][2]tcpip.Address    // subnets the interface owns: (address, mask)
}

// admitted: is a packet for dst that arrives on nic addressed to this interface? (statement:
// the address is currently assigned, or the interface is explicitly promiscuous / owns the subnet)
func (w *world) admitted(nic tcpip.NICID, dst tcpip.Address) bool {
	if w.assigned[nic][dst] || w.members[nic][dst] > 0 || w.promisc[nic] {
		return true
	}
	for _, sn := range w.subnets[nic] {
		in := len(dst) == len(sn[0])
		for i := 0; in && i < len(dst); i++ {
			in = dst[i]&sn[1][i] == sn[0][i]
		}
		if in {
			return true
		}
	}
	return false
}

type membership struct {
	nic   tcpip.NICID
	group tcpip.Address
}

func newWorld() *world {
	s := stack.New([]string{ipv4.ProtocolName, ipv6.ProtocolName}, []string{tcp.ProtocolName, udp.ProtocolName}, stack.Options{})
	w := &world{s: s, assigned: map[tcpip.NICID]map[tcpip.Address]bool{1: {}, 2: {}}, members: map[tcpip.NICID]map[tcpip.Address]int{1: {}, 2: {}},
		promisc: map[tcpip.NICID]bool{}, subnets: map[tcpip.NICID][][2]tcpip.Address{}}
	for id := 1; id <= 2; id++ {
		id := id
		l := wire.NewLink(fmt.Sprintf("nic%d", id), 1500, "", 0)
		l.AddTap(func(f *wire.Frame) {
			w.mu.Lock()
			w.out[id] = append(w.out[id], f)
			w.mu.Unlock()
		})
		w.links[id] = l
		s.CreateNIC(tcpip.NICID(id), l.ID)
	}
	for _, a := range []struct {
		nic  tcpip.NICID
		addr tcpip.Address
	}{{1, l11}, {1, l12}, {2, l21}} {
		s.AddAddress(a.nic, ipv4.ProtocolNumber, a.addr)
		w.assigned[a.nic][a.addr] = true
	}
	s.SetRouteTable([]tcpip.Route{
		{Destination: "\x0a\x00\x01\x00", Mask: "\xff\xff\xff\x00", NIC: 1},
		{Destination: "\x0a\x00\x02\x00", Mask: "\xff\xff\xff\x00", NIC: 2},
	})
	return w
}

func (w *world) takeAll() (r [3][]*wire.Frame) {
	w.mu.Lock()
	defer w.mu.Unlock()
	r = w.out
	w.out = [3][]*wire.Frame{}
	return
}

// sock is the reference description of one open socket.
type sock struct {
	ID     int
	Proto  string // udp, tcp-listen
	Kind   string
	NIC    tcpip.NICID // registration scope (0 = all interfaces)
	LAddr  tcpip.Address
	LPort  uint16
	RAddr  tcpip.Address
	RPort  uint16
	ep     tcpip.Endpoint
	closed bool
	groups []membership
}

func (s *sock) String() string {
	return fmt.Sprintf("#%d %s/%s nic=%d %v:%d <- %v:%d", s.ID, s.Proto, s.Kind, s.NIC, []byte(s.LAddr), s.LPort, []byte(s.RAddr), s.RPort)
}

// reference demultiplexer, written from the statement.
func (w *world) expect(socks []*sock, proto string, nic tcpip.NICID, dst tcpip.Address, dport uint16, src tcpip.Address, sport uint16) *sock {
	if !w.admitted(nic, dst) {
		return nil // not addressed to this interface
	}
	for _, scope := range []tcpip.NICID{nic, 0} {
		var best *sock
		bestRank := 0
		for _, s := range socks {
			if s.closed || s.Proto != proto || s.NIC != scope || s.LPort != dport {
				continue
			}
			rank := 0
			switch {
			case s.RAddr != "" && s.LAddr != "":
				if s.RAddr == src && s.RPort == sport && s.LAddr == dst {
					rank = 4
				}
			case s.RAddr != "":
				if s.RAddr == src && s.RPort == sport {
					rank = 3
				}
			case s.LAddr != "":
				if s.LAddr == dst {
					rank = 2
				}
			default:
				rank = 1
			}
			if rank > bestRank {
				best, bestRank = s, rank
			}
		}
		if best != nil {
			return best
		}
	}
	return nil
}

var ports = []uint16{100, 101, 102}

func scenario(k int) {
	r := fw.NewRand(run.Seed, "C09", "set", k)
	w := newWorld()
	var socks []*sock
	var trace []string
	tr := func(f string, a ...interface{}) { trace = append(trace, fmt.Sprintf(f, a...)) }
	open := func() {
		s := &sock{ID: len(socks), LPort: ports[r.Intn(len(ports))]}
		kind := []string{"udp-wild", "udp-specific", "udp-specific-nic", "udp-nicbound", "udp-connected", "udp-connected-nic", "tcp-listen-wild", "tcp-listen-specific"}[r.Intn(8)]
		s.Kind = kind
		var err *tcpip.Error
		if kind[:3] == "udp" {
			s.Proto = "udp"
			s.ep, err = w.s.NewEndpoint(udp.ProtocolNumber, ipv4.ProtocolNumber, &waiter.Queue{})
		} else {
			s.Proto = "tcp-listen"
			s.ep, err = w.s.NewEndpoint(tcp.ProtocolNumber, ipv4.ProtocolNumber, &waiter.Queue{})
		}
		if err != nil {
			run.Broken("harness: " + err.String())
			return
		}
		bind := tcpip.FullAddress{Port: s.LPort}
		switch kind {
		case "udp-specific", "tcp-listen-specific":
			bind.Addr = []tcpip.Address{l11, l12, l21}[r.Intn(3)]
			s.LAddr = bind.Addr
		case "udp-nicbound":
			bind.NIC = tcpip.NICID(1 + r.Intn(2))
			s.NIC = bind.NIC
		case "udp-specific-nic":
			c := []struct {
				nic  tcpip.NICID
				addr tcpip.Address
			}{{1, l11}, {1, l12}, {2, l21}}[r.Intn(3)]
			bind.NIC, bind.Addr = c.nic, c.addr
			s.NIC, s.LAddr = c.nic, c.addr
		}
		if e := s.ep.Bind(bind, nil); e != nil {
			tr("open %s port %d -> bind failed: %v", kind, s.LPort, e)
			s.ep.Close()
			return
		}
		switch kind {
		case "udp-connected", "udp-connected-nic":
			s.RAddr = []tcpip.Address{r19, r29}[r.Intn(2)]
			s.RPort = uint16(5000 + r.Intn(2))
			to := tcpip.FullAddress{Addr: s.RAddr, Port: s.RPort}
			if kind == "udp-connected-nic" {
				to.NIC = 1
				if s.RAddr == r29 {
					to.NIC = 2
				}
				s.NIC = to.NIC
			}
			if e := s.ep.Connect(to); e != nil {
				tr("open %s -> connect failed: %v", kind, e)
				s.ep.Close()
				return
			}
			s.LAddr = l11
			if s.RAddr == r29 {
				s.LAddr = l21
			}
		case "tcp-listen-wild", "tcp-listen-specific":
			if e := s.ep.Listen(8); e != nil {
				tr("listen failed: %v", e)
				s.ep.Close()
				return
			}
		}
		socks = append(socks, s)
		tr("open %s", s)
	}
	for i := 0; i < 1+r.Intn(10); i++ {
		open()
	}
	// multicast: sockets join groups on an interface (before or after binding), leave them
	// again or are closed; a group address is the interface's while some open socket is a member
	join := func(s *sock, ep tcpip.Endpoint) bool {
		m := membership{tcpip.NICID(1 + r.Intn(2)), []tcpip.Address{group1, group2}[r.Intn(2)]}
		if e := ep.SetSockOpt(tcpip.AddMembershipOption{NIC: m.nic, InterfaceAddr: "\x00\x00\x00\x00", MulticastAddr: m.group}); e != nil {
			tr("join %v on NIC %d failed: %v", []byte(m.group), m.nic, e)
			return false
		}
		if s != nil {
			s.groups = append(s.groups, m)
			w.members[m.nic][m.group]++
			tr("#%d joins %v on NIC %d", s.ID, []byte(m.group), m.nic)
		}
		run.Count("multicast_joins", 1)
		return true
	}
	for _, s := range socks {
		if s.Proto == "udp" && r.Chance(1, 3) {
			join(s, s.ep)
			if r.Chance(1, 4) {
				join(s, s.ep)
			}
		}
	}
	for _, s := range socks {
		if len(s.groups) > 0 && r.Chance(1, 4) {
			m := s.groups[len(s.groups)-1]
			if e := s.ep.SetSockOpt(tcpip.RemoveMembershipOption{NIC: m.nic, InterfaceAddr: "\x00\x00\x00\x00", MulticastAddr: m.group}); e == nil {
				s.groups = s.groups[:len(s.groups)-1]
				w.members[m.nic][m.group]--
				tr("#%d leaves %v on NIC %d", s.ID, []byte(m.group), m.nic)
			}
		}
	}
	if r.Chance(1, 3) {
		// a socket that joins before it is bound and never gets as far as being bound: the bind
		// fails (port taken) or is not attempted; closing it ends its memberships all the same
		if ep, e := w.s.NewEndpoint(udp.ProtocolNumber, ipv4.ProtocolNumber, &waiter.Queue{}); e == nil {
			joined := join(nil, ep)
			if r.Bool() && len(socks) > 0 {
				be := ep.Bind(tcpip.FullAddress{Addr: socks[0].LAddr, Port: socks[0].LPort, NIC: socks[0].NIC}, nil)
				tr("a socket joins a group (%v), its bind to #0's address and port -> %v, and it is closed", joined, be)
			} else {
				tr("a socket joins a group (%v) and is closed without ever being bound", joined)
			}
			ep.Close()
			run.Count("sockets_closed_unbound_after_joining", 1)
		}
	}
	// a bind whose commit step fails while a datagram for that very port arrives: the
	// roll-back must leave the socket owning nothing
	var ghost tcpip.Endpoint
	ghostPl := []byte(fmt.Sprintf("ghost-%d", k))
	if r.Chance(1, 3) {
		gp := uint16(7000 + r.Intn(3))
		if ep, e := w.s.NewEndpoint(udp.ProtocolNumber, ipv4.ProtocolNumber, &waiter.Queue{}); e == nil {
			be := ep.Bind(tcpip.FullAddress{Port: gp}, func() *tcpip.Error {
				var s4, d4 [4]byte
				copy(s4[:], r19)
				copy(d4[:], l11)
				u := rfc.UDP{SrcPort: 5000, DstPort: gp, Payload: ghostPl}
				ip := rfc.IPv4{TTL: 64, Proto: rfc.ProtoUDP, ID: 7, Src: s4, Dst: d4, Payload: u.Bytes4(s4, d4, true)}
				w.links[1].Inject(ipv4.ProtocolNumber, ip.Bytes(true), "")
				return tcpip.ErrPortInUse
			})
			if be != nil {
				ghost = ep
				tr("bind of a socket to port %d fails in its commit step while a datagram for that port arrives", gp)
			} else {
				ep.Close()
			}
		}
	}
	// a connected socket connects to the same peer once more: whatever that call returns,
	// the socket keeps (or regains) the registration it had
	for _, s := range socks {
		if s.RAddr != "" && r.Chance(1, 3) {
			e := s.ep.Connect(tcpip.FullAddress{Addr: s.RAddr, Port: s.RPort, NIC: map[bool]tcpip.NICID{true: s.NIC, false: 0}[s.Kind == "udp-connected-nic"]})
			tr("#%d connects to the same peer again -> %v", s.ID, e)
			run.Count("reconnects_to_the_same_peer", 1)
		}
	}
	// some are closed again; an address may be removed
	nopen := len(socks)
	for _, s := range socks[:nopen] {
		if r.Chance(1, 5) {
			s.ep.Close()
			s.closed = true
			for _, m := range s.groups {
				w.members[m.nic][m.group]--
			}
			tr("close #%d", s.ID)
			// a listener is restarted at once on the same port (before the old one's
			// goroutine has wound down)
			if s.Proto == "tcp-listen" && r.Bool() {
				n := &sock{ID: len(socks), Proto: s.Proto, Kind: s.Kind, LAddr: s.LAddr, LPort: s.LPort}
				var e *tcpip.Error
				if n.ep, e = w.s.NewEndpoint(tcp.ProtocolNumber, ipv4.ProtocolNumber, &waiter.Queue{}); e == nil {
					if e = n.ep.Bind(tcpip.FullAddress{Addr: n.LAddr, Port: n.LPort}, nil); e == nil {
						e = n.ep.Listen(8)
					}
					if e == nil {
						socks = append(socks, n)
						tr("listener restarted as %s", n)
						run.Count("listeners_restarted", 1)
					} else {
						tr("restart of the listener failed: %v", e)
						n.ep.Close()
					}
				}
			}
		}
	}
	rawpeer.Settle()
	if r.Chance(1, 3) {
		victim := []struct {
			nic  tcpip.NICID
			addr tcpip.Address
		}{{1, l12}, {1, l11}, {2, l21}}[r.Intn(3)]
		held := false
		for _, s := range socks {
			if !s.closed && s.LAddr == victim.addr && s.RAddr != "" {
				held = true
			}
		}
		if e := w.s.RemoveAddress(victim.nic, victim.addr); e == nil {
			delete(w.assigned[victim.nic], victim.addr)
			tr("remove address %v from NIC %d (held by an open socket: %v)", []byte(victim.addr), victim.nic, held)
			if held {
				// sockets still bound/connected to the removed address: the statement's domain is
				// 'currently assigned'; whether a socket that pins the address keeps it alive is
				// recorded separately
				run.Count("address_removed_while_socket_holds_it", 1)
			}
		}
	}
	// admission beyond the assigned addresses: an interface is made promiscuous, or is told that
	// it owns a subnet; half of the time that is taken back again after a few datagrams have
	// been admitted (the temporary address objects they created must not outlive them)
	if r.Chance(2, 5) {
		nic := tcpip.NICID(1 + r.Intn(2))
		sub := [2]tcpip.Address{"\x0a\x00\x01\xc0", "\xff\xff\xff\xc0"}
		usePromisc := r.Bool()
		var e *tcpip.Error
		if usePromisc {
			e = w.s.SetPromiscuousMode(nic, true)
		} else {
			sn, _ := tcpip.NewSubnet(sub[0], tcpip.AddressMask(sub[1]))
			e = w.s.AddSubnet(nic, ipv4.ProtocolNumber, sn)
		}
		if e != nil {
			run.Broken("harness: admission switch: " + e.String())
		}
		revert := r.Bool()
		if revert {
			for i := 0; i < 1+r.Intn(3); i++ {
				var s4, d4 [4]byte
				copy(s4[:], r18)
				copy(d4[:], insub)
				u := rfc.UDP{SrcPort: 5000, DstPort: ports[r.Intn(len(ports))], Payload: []byte("early")}
				ip := rfc.IPv4{TTL: 64, Proto: rfc.ProtoUDP, ID: uint16(60000 + i), Src: s4, Dst: d4, Payload: u.Bytes4(s4, d4, true)}
				w.links[nic].Inject(ipv4.ProtocolNumber, ip.Bytes(true), "")
			}
			rawpeer.Settle()
			for _, s := range socks {
				if !s.closed && s.Proto == "udp" {
					for {
						if _, _, e := s.ep.Read(nil); e != nil {
							break
						}
					}
				}
			}
			if usePromisc {
				e = w.s.SetPromiscuousMode(nic, false)
			} else {
				sn, _ := tcpip.NewSubnet(sub[0], tcpip.AddressMask(sub[1]))
				e = w.s.RemoveSubnet(nic, sn)
			}
			if e != nil {
				run.Broken("harness: admission switch back: " + e.String())
			}
			run.Count("admission_switched_on_and_off_again", 1)
		} else if usePromisc {
			w.promisc[nic] = true
			run.Count("interfaces_promiscuous", 1)
		} else {
			w.subnets[nic] = append(w.subnets[nic], sub)
			run.Count("interfaces_owning_a_subnet", 1)
		}
		tr("NIC %d: promiscuous=%v / owns 10.0.1.192/26=%v, taken back again=%v", nic, usePromisc, !usePromisc, revert)
	}
	w.takeAll()
	bad := false
	viol := func(key, what string) {
		if !bad {
			run.Violation("C09/"+key, what, map[string]interface{}{"k": k, "trace": trace})
		}
		bad = true
	}
	heldRemoved := func(dst tcpip.Address) bool {
		for _, s := range socks {
			// only a connected socket pins its local address (through its route)
			if !s.closed && s.LAddr == dst && s.RAddr != "" {
				return true
			}
		}
		return false
	}
	n := 0
	for nic := tcpip.NICID(1); nic <= 2 && !bad; nic++ {
		for _, dst := range []tcpip.Address{l11, l12, l21, foreign, insub, group1, group2} {
			for _, dport := range append(ports, 999) {
				for _, src := range []tcpip.Address{r19, r18, r29} {
					for _, sport := range []uint16{5000, 5001} {
						if bad {
							break
						}
						n++
						var s4, d4 [4]byte
						copy(s4[:], src)
						copy(d4[:], dst)
						pl := []byte(fmt.Sprintf("pkt-%d-%d", k, n))
						// --- UDP
						u := rfc.UDP{SrcPort: sport, DstPort: dport, Payload: pl}
						ip := rfc.IPv4{TTL: 64, Proto: rfc.ProtoUDP, ID: uint16(n), Src: s4, Dst: d4, Payload: u.Bytes4(s4, d4, true)}
						fragmented := n%4 == 1
						if fragmented {
							// the datagram arrives in two fragments, behind the first fragment of a datagram
							// from ANOTHER host that happens to use the same identification (and never
							// completes): what a socket gets is decided by the real sender's addresses
							var o4 [4]byte
							copy(o4[:], foreign)
							decoy := rfc.UDP{SrcPort: 6000 + sport, DstPort: dport, Payload: []byte(fmt.Sprintf("dcy-%d-%d", k, n))}.Bytes4(o4, d4, true)
							whole := ip.Payload
							for _, f := range []rfc.IPv4{
								{TTL: 64, Proto: rfc.ProtoUDP, ID: uint16(n), Src: o4, Dst: d4, Flags: 1, Payload: decoy[:8]},
								{TTL: 64, Proto: rfc.ProtoUDP, ID: uint16(n), Src: s4, Dst: d4, Flags: 1, Payload: whole[:8]},
								{TTL: 64, Proto: rfc.ProtoUDP, ID: uint16(n), Src: s4, Dst: d4, FragOff: 1, Payload: whole[8:]},
							} {
								w.links[nic].Inject(ipv4.ProtocolNumber, f.Bytes(true), "")
							}
							run.Count("udp_packets_fragmented_behind_a_foreign_fragment", 1)
						} else {
							w.links[nic].Inject(ipv4.ProtocolNumber, ip.Bytes(true), "")
						}
						want := w.expect(socks, "udp", nic, dst, dport, src, sport)
						desc := fmt.Sprintf("UDP %v:%d > %v:%d arriving on NIC %d", []byte(src), sport, []byte(dst), dport, nic)
						unassigned := !w.admitted(nic, dst)
						if !unassigned && !w.assigned[nic][dst] && w.members[nic][dst] == 0 {
							run.Count("packets_admitted_by_promiscuous_mode_or_subnet", 1)
						}
						multicast := dst == group1 || dst == group2
						var got []*sock
						for _, s := range socks {
							if s.closed || s.Proto != "udp" {
								continue
							}
							for {
								v, _, e := s.ep.Read(nil)
								if e != nil {
									break
								}
								if bytes.Equal(v, pl) {
									got = append(got, s)
								} else {
									viol("udp/stale-or-foreign-payload", fmt.Sprintf("socket %s returned %q while %q was in flight", s, v, pl))
								}
							}
						}
						run.Count("udp_packets_judged", 1)
						if multicast && want != nil && len(got) == 1 && got[0] == want {
							run.Count("multicast_datagrams_delivered_to_the_member_interface", 1)
						}
						switch {
						case len(got) > 1:
							viol("udp/delivered-twice", fmt.Sprintf("%s delivered to %d sockets: %v and %v", desc, len(got), got[0], got[1]))
						case want == nil && len(got) == 1:
							key := "udp/delivered-to-nobody-expected"
							if unassigned && heldRemoved(dst) {
								key = "udp/removed-address-still-served-while-a-socket-holds-it"
							} else if unassigned {
								key = "udp/delivered-for-unassigned-address"
							}
							viol(key, fmt.Sprintf("%s was delivered to %s although the reference says nobody (address assigned to that interface: %v)", desc, got[0], !unassigned))
						case want != nil && len(got) == 0 && fragmented && !w.assigned[nic][dst] && w.members[nic][dst] == 0:
							// admitted by promiscuous mode / an owned subnet only: every fragment meets a
							// fresh temporary address object with a reassembler of its own
							viol("udp/fragmented-datagram-for-a-temporarily-admitted-address-never-reassembled", fmt.Sprintf("%s (in two fragments; the interface admits the address only because it is promiscuous / owns the subnet) should reach %s but no socket got it", desc, want))
							bad = false // a known history must not hide the rest of the scenario
						case want != nil && len(got) == 0:
							viol("udp/not-delivered", fmt.Sprintf("%s should reach %s but no socket got it", desc, want))
						case want != nil && got[0] != want:
							viol("udp/wrong-socket", fmt.Sprintf("%s delivered to %s, the most specific match is %s", desc, got[0], want))
						}
						// --- TCP SYN: a listener answers, otherwise exactly one reset (if the address is ours)
						if n%3 == 0 && !bad && !multicast {
							w.takeAll()
							t := rfc.TCP{SrcPort: sport, DstPort: dport, Seq: uint32(n) * 1000, Flags: rfc.SYN, Window: 1000}
							ip := rfc.IPv4{TTL: 64, Proto: rfc.ProtoTCP, ID: uint16(n), Src: s4, Dst: d4, Payload: t.Bytes4(s4, d4, true)}
							w.links[nic].Inject(ipv4.ProtocolNumber, ip.Bytes(true), "")
							rawpeer.Settle()
							lw := w.expect(socks, "tcp-listen", nic, dst, dport, src, sport)
							// a listener bound to a specific address is registered for the interface that
							// owns the address; when the segment was admitted on ANOTHER interface (promiscuous /
							// subnet) the statement does not say whether that binding matches: not judged
							// unless both readings agree
							ambiguous := false
							if lw != nil && lw.LAddr != "" && !w.assigned[nic][dst] {
								var rest []*sock
								for _, s := range socks {
									if !(s.Proto == "tcp-listen" && s.LAddr != "" && !w.assigned[nic][s.LAddr]) {
										rest = append(rest, s)
									}
								}
								if w.expect(rest, "tcp-listen", nic, dst, dport, src, sport) != lw {
									ambiguous = true
									run.Count("tcp_syns_with_ambiguous_interface_scope_not_judged", 1)
								}
							}
							outs := w.takeAll()
							var synacks, rsts int
							for id := 1; id <= 2; id++ {
								for _, f := range outs[id] {
									p, err := rfc.ParseIPv4(f.Data)
									if err != nil || p.Proto != rfc.ProtoTCP {
										continue
									}
									seg, err := rfc.ParseTCP4(p.Payload, p.Src, p.Dst, true)
									if err != nil || seg.DstPort != sport || seg.SrcPort != dport || !bytes.Equal(p.Dst[:], s4[:]) {
										continue
									}
									if seg.Flags&rfc.RST != 0 {
										rsts++
									} else if seg.Flags&(rfc.SYN|rfc.ACK) == rfc.SYN|rfc.ACK {
										synacks++
									}
								}
							}
							tdesc := fmt.Sprintf("TCP SYN %v:%d > %v:%d arriving on NIC %d", []byte(src), sport, []byte(dst), dport, nic)
							run.Count("tcp_syns_judged", 1)
							switch {
							case ambiguous:
								if synacks+rsts != 1 {
									viol("tcp/neither-listener-nor-reset", fmt.Sprintf("%s: expected one SYN-ACK or one reset, got %d SYN-ACKs and %d resets", tdesc, synacks, rsts))
								}
							case unassigned && (synacks > 0 || rsts > 0) && !heldRemoved(dst):
								viol("tcp/answered-for-unassigned-address", fmt.Sprintf("%s drew %d SYN-ACKs and %d resets although the address is not assigned to that interface", tdesc, synacks, rsts))
							case !unassigned && lw != nil && synacks != 1:
								viol("tcp/listener-not-reached", fmt.Sprintf("%s should reach %s: %d SYN-ACKs, %d resets", tdesc, lw, synacks, rsts))
							case !unassigned && lw == nil && (rsts != 1 || synacks != 0):
								viol("tcp/no-socket-no-reset", fmt.Sprintf("%s matches no socket: expected exactly one reset, got %d resets and %d SYN-ACKs", tdesc, rsts, synacks))
							}
						}
					}
				}
			}
		}
	}
	nOpen, closed := 0, 0
	for _, s := range socks {
		if s.closed {
			closed++
		} else {
			nOpen++
		}
	}
	// a full connection through one of the listeners, its SYN arriving twice back to back:
	// the handshake ACK and the data must reach the connection that the SYN created (the
	// most specific registration), not the listener, and nothing may be reset
	for _, ls := range socks {
		if bad || ls.closed || ls.Proto != "tcp-listen" {
			continue
		}
		nic, dst := tcpip.NICID(1), l11
		if ls.LAddr != "" {
			dst = ls.LAddr
			if dst == l21 {
				nic = 2
			}
		}
		if !w.assigned[nic][dst] || w.expect(socks, "tcp-listen", nic, dst, ls.LPort, r18, 6000) != ls {
			continue
		}
		var s4, d4 [4]byte
		copy(s4[:], r18)
		copy(d4[:], dst)
		sport := uint16(6000 + k%500)
		send := func(t rfc.TCP, settle bool) {
			ip := rfc.IPv4{TTL: 64, Proto: rfc.ProtoTCP, ID: 9, Src: s4, Dst: d4, Payload: t.Bytes4(s4, d4, true)}
			w.links[nic].Inject(ipv4.ProtocolNumber, ip.Bytes(true), "")
			if settle {
				rawpeer.Settle()
			}
		}
		replies := func() (out []rfc.TCP) {
			for id, fs := range w.takeAll() {
				_ = id
				for _, f := range fs {
					if p, err := rfc.ParseIPv4(f.Data); err == nil && p.Proto == rfc.ProtoTCP {
						if seg, err := rfc.ParseTCP4(p.Payload, p.Src, p.Dst, true); err == nil && seg.DstPort == sport && seg.SrcPort == ls.LPort {
							out = append(out, seg)
						}
					}
				}
			}
			return
		}
		w.takeAll()
		iss := uint32(k)*7919 + 11
		syn := rfc.TCP{SrcPort: sport, DstPort: ls.LPort, Seq: iss, Flags: rfc.SYN, Window: 20000, RawOpts: rfc.OptMSS(1000)}
		send(syn, false)
		send(syn, true)
		var y uint32
		got := false
		for _, seg := range replies() {
			if seg.Flags&(rfc.SYN|rfc.ACK) == rfc.SYN|rfc.ACK && seg.Ack == iss+1 {
				y, got = seg.Seq, true
			}
		}
		if !got {
			viol("tcp/no-synack", fmt.Sprintf("a SYN (delivered twice back to back) for listener %s drew no SYN-ACK", ls))
			break
		}
		send(rfc.TCP{SrcPort: sport, DstPort: ls.LPort, Seq: iss + 1, Ack: y + 1, Flags: rfc.ACK, Window: 20000}, true)
		ne, _, e := ls.ep.Accept()
		if e != nil {
			viol("tcp/handshake-ack-not-delivered-to-the-connection", fmt.Sprintf("listener %s: SYN (twice back to back), SYN-ACK, exact ACK - but Accept has nothing (%v): the ACK did not reach the connection the SYN created; replies: %v", ls, e, replies()))
			break
		}
		rawpeer.Settle()
		if k%2 == 0 {
			// long enough for any half-open leftover of the duplicated SYN to time out
			// (63 s of SYN-ACK retransmissions) and clean up after itself
			time.Sleep(70 * time.Second)
			rawpeer.Settle()
			w.takeAll()
		}
		pl := []byte(fmt.Sprintf("conn-%d", k))
		send(rfc.TCP{SrcPort: sport, DstPort: ls.LPort, Seq: iss + 1, Ack: y + 1, Flags: rfc.ACK | rfc.PSH, Window: 20000, Payload: pl}, true)
		v, _, e := ne.Read(nil)
		rs := replies()
		nrst := 0
		for _, seg := range rs {
			if seg.Flags&rfc.RST != 0 {
				nrst++
			}
		}
		if e != nil || !bytes.Equal(v, pl) || nrst > 0 {
			viol("tcp/data-not-delivered-to-the-connection", fmt.Sprintf("listener %s: data on the accepted connection: Read returned %q, %v; resets: %d", ls, v, e, nrst))
		}
		ne.Close()
		rawpeer.Settle()
		w.takeAll()
		run.Count("tcp_connections_through_listeners_checked", 1)
		break
	}
	if ghost != nil {
		// the socket whose bind failed is bound somewhere else now: it must be empty
		if e := ghost.Bind(tcpip.FullAddress{Port: 7010}, nil); e == nil {
			if v, _, e := ghost.Read(nil); e == nil {
				viol("udp/failed-bind-kept-a-datagram", fmt.Sprintf("a socket whose bind to a port failed (commit step refused) later returned %q, a datagram that arrived for that port during the failed bind", v))
			}
			run.Count("failed_bind_sockets_checked", 1)
		}
		ghost.Close()
	}
	kinds := ""
	for _, s := range socks {
		kinds += s.Kind[4:5]
	}
	run.Case(fw.Hash(kinds, nOpen, closed), len(socks) > 0)
	if k < 2 {
		run.Sample(map[string]interface{}{"sockets": trace})
	}
	for _, s := range socks {
		if !s.closed {
			s.ep.Close()
		}
	}
}

// ---- racing phase (real time, -race): registrations and deliveries race ------------

type life struct {
	owner              int
	bindRet, closeCall int64 // logical stamps: Bind returned / Close about to be called
	got                []uint32
	gotAt              []int64
}

func racing(k int) {
	r := fw.NewRand(run.Seed, "C09", "race", k)
	w := newWorld()
	var clk int64
	now := func() int64 { return atomic.AddInt64(&clk, 1) }
	addrs := []tcpip.Address{l11, l12}
	const port = 100
	var mu sync.Mutex
	var lives []*life
	type inj struct {
		id        uint32
		dst       int
		call, ret int64
	}
	var injs []inj
	stop := make(chan struct{})
	var wg sync.WaitGroup
	for g := 0; g < 2; g++ {
		g := g
		rr := r.Split("opener", g)
		wg.Add(1)
		go func() {
			defer wg.Done()
			for i := 0; i < 40; i++ {
				select {
				case <-stop:
					return
				default:
				}
				ep, err := w.s.NewEndpoint(udp.ProtocolNumber, ipv4.ProtocolNumber, &waiter.Queue{})
				if err != nil {
					return
				}
				if e := ep.Bind(tcpip.FullAddress{Addr: addrs[g], Port: port}, nil); e != nil {
					ep.Close()
					continue
				}
				l := &life{owner: g, bindRet: now()}
				for j := 0; j < 1+rr.Intn(20); j++ {
					runtime.Gosched()
				}
				// drain, then close
				for {
					v, _, e := ep.Read(nil)
					if e != nil {
						break
					}
					if len(v) >= 4 {
						l.got = append(l.got, uint32(v[0])<<24|uint32(v[1])<<16|uint32(v[2])<<8|uint32(v[3]))
						l.gotAt = append(l.gotAt, now())
					}
				}
				l.closeCall = now()
				ep.Close()
				mu.Lock()
				lives = append(lives, l)
				mu.Unlock()
			}
		}()
	}
	wg.Add(1)
	go func() {
		defer wg.Done()
		ri := r.Split("inj")
		for i := 0; i < 3000; i++ {
			select {
			case <-stop:
				return
			default:
			}
			d := ri.Intn(2)
			var s4, d4 [4]byte
			copy(s4[:], r19)
			copy(d4[:], addrs[d])
			id := uint32(k)<<16 | uint32(i)
			u := rfc.UDP{SrcPort: 5000, DstPort: port, Payload: []byte{byte(id >> 24), byte(id >> 16), byte(id >> 8), byte(id), 'x'}}
			ip := rfc.IPv4{TTL: 64, Proto: rfc.ProtoUDP, ID: uint16(i), Src: s4, Dst: d4, Payload: u.Bytes4(s4, d4, true)}
			c := now()
			w.links[1].Inject(ipv4.ProtocolNumber, ip.Bytes(true), "")
			rt := now()
			mu.Lock()
			injs = append(injs, inj{id, d, c, rt})
			mu.Unlock()
			if i%16 == 0 {
				runtime.Gosched()
			}
		}
	}()
	wg.Wait()
	close(stop)
	byID := map[uint32]inj{}
	for _, x := range injs {
		byID[x.id] = x
	}
	seen := map[uint32]int{}
	delivered := 0
	for _, l := range lives {
		for _, id := range l.got {
			delivered++
			seen[id]++
			x, ok := byID[id]
			switch {
			case !ok:
				run.Violation("C09/racing/unknown-datagram", fmt.Sprintf("a socket returned datagram %#x that was never injected", id), k)
			case seen[id] > 1:
				run.Violation("C09/racing/delivered-twice", fmt.Sprintf("datagram %#x was returned by two sockets", id), k)
			case x.dst != l.owner:
				run.Violation("C09/racing/wrong-address", fmt.Sprintf("datagram %#x for address %d was returned by a socket bound to address %d", id, x.dst, l.owner), k)
			case x.call > l.closeCall:
				run.Violation("C09/racing/delivered-after-close", fmt.Sprintf("datagram %#x injected at logical time %d was returned by a socket whose owner had already decided to close it at %d", id, x.call, l.closeCall), k)
			}
		}
	}
	run.Case(fw.Hash("racing", k), delivered > 0)
	run.Count("racing_datagrams_delivered", int64(delivered))
	run.Count("racing_socket_lifetimes", int64(len(lives)))
}

// registryRace: the registration table itself. Goroutines register the same few endpoint
// ids at the same moment (what two copies of one SYN, or two connects that picked the same
// 4-tuple, do inside the stack), hold the registration briefly and give it up. An id has
// one owner: of the registrations that overlap in time exactly one may succeed, so the
// number of current holders of an id never exceeds one, and once everybody has let go the
// id can be registered again.
type regEP struct{ owner int }

func (*regEP) HandlePacket(*stack.Route, stack.TransportEndpointID, buffer.VectorisedView) {}
func (*regEP) HandleControlPacket(stack.TransportEndpointID, stack.ControlType, uint32, buffer.VectorisedView) {
}

func registryRace(k int) {
	w := newWorld()
	ids := []stack.TransportEndpointID{
		{LocalPort: 100, LocalAddress: l11, RemotePort: 5000, RemoteAddress: r19},
		{LocalPort: 100, LocalAddress: l11},
	}
	nets := []tcpip.NetworkProtocolNumber{ipv4.ProtocolNumber}
	var holders [2]int32
	var both int32
	var succ, fail int64
	const G = 8
	var wg sync.WaitGroup
	start := make(chan struct{})
	for g := 0; g < G; g++ {
		g := g
		wg.Add(1)
		go func() {
			defer wg.Done()
			ep := &regEP{owner: g}
			<-start
			for i := 0; i < 400 && atomic.LoadInt32(&both) == 0; i++ {
				x := (i + g) % 2
				nic := tcpip.NICID(0)
				if e := w.s.RegisterTransportEndpoint(nic, nets, udp.ProtocolNumber, ids[x], ep); e != nil {
					atomic.AddInt64(&fail, 1)
					continue
				}
				atomic.AddInt64(&succ, 1)
				if n := atomic.AddInt32(&holders[x], 1); n > 1 {
					atomic.StoreInt32(&both, int32(x)+1)
				}
				runtime.Gosched()
				atomic.AddInt32(&holders[x], -1)
				w.s.UnregisterTransportEndpoint(nic, nets, udp.ProtocolNumber, ids[x])
			}
		}()
	}
	close(start)
	wg.Wait()
	run.Count("registry_race_registrations_succeeded", succ)
	run.Count("registry_race_registrations_refused", fail)
	if b := atomic.LoadInt32(&both); b != 0 {
		run.Violation("C09/racing/one-id-registered-twice", fmt.Sprintf("two registrations of the endpoint id %+v that overlapped in time both succeeded: the table holds one of the two endpoints, the other believes it is registered", ids[b-1]), k)
		return
	}
	for x := range ids {
		if e := w.s.RegisterTransportEndpoint(0, nets, udp.ProtocolNumber, ids[x], &regEP{}); e != nil {
			run.Violation("C09/racing/id-not-released", fmt.Sprintf("every holder has unregistered, yet registering %+v again fails with %v", ids[x], e), k)
		}
	}
	run.Case(fw.Hash("registry-race", k%16), succ > 0 && fail > 0)
}

// admissionRace: the interface's admission beyond its assigned addresses is switched on and
// off (promiscuous mode, or ownership of 10.0.1.192/26) by one goroutine while two others
// inject uniquely numbered datagrams for 10.0.1.200, an address that is never assigned; a
// wildcard socket collects them. Every call is stamped from one logical clock. A datagram
// whose injection lies wholly inside an interval in which admission was on (switch-on
// returned before, switch-off called after) must be returned exactly once; one whose
// injection overlaps no interval in which admission may have been on (switch-on called ..
// switch-off returned) must not be returned at all; nothing is returned twice. The
// temporary per-packet address objects are created, shared and dropped concurrently here:
// race reports in stack/ are violations (anchors of the racing child).
func admissionRace(k int) {
	r := fw.NewRand(run.Seed, "C09", "admission-race", k)
	w := newWorld()
	ep, err := w.s.NewEndpoint(udp.ProtocolNumber, ipv4.ProtocolNumber, &waiter.Queue{})
	if err != nil {
		run.Broken("harness: " + err.String())
		return
	}
	defer ep.Close()
	const port = 100
	if e := ep.Bind(tcpip.FullAddress{Port: port}, nil); e != nil {
		run.Broken("harness: bind: " + e.String())
		return
	}
	var clk int64
	now := func() int64 { return atomic.AddInt64(&clk, 1) }
	type span struct{ onCall, onRet, offCall, offRet int64 }
	var spans []span
	type inj struct {
		id        uint32
		call, ret int64
	}
	var mu sync.Mutex
	var injs []inj
	usePromisc := r.Bool()
	sn, _ := tcpip.NewSubnet("\x0a\x00\x01\xc0", tcpip.AddressMask("\xff\xff\xff\xc0"))
	var wg sync.WaitGroup
	done := make(chan struct{})
	wg.Add(1)
	go func() {
		defer wg.Done()
		rt := r.Split("toggle")
		for i := 0; i < 40; i++ {
			var sp span
			sp.onCall = now()
			if usePromisc {
				w.s.SetPromiscuousMode(1, true)
			} else {
				w.s.AddSubnet(1, ipv4.ProtocolNumber, sn)
			}
			sp.onRet = now()
			for j := 0; j < 1+rt.Intn(30); j++ {
				runtime.Gosched()
			}
			sp.offCall = now()
			if usePromisc {
				w.s.SetPromiscuousMode(1, false)
			} else {
				w.s.RemoveSubnet(1, sn)
			}
			sp.offRet = now()
			spans = append(spans, sp)
			for j := 0; j < 1+rt.Intn(30); j++ {
				runtime.Gosched()
			}
		}
		close(done)
	}()
	for g := 0; g < 2; g++ {
		g := g
		wg.Add(1)
		go func() {
			defer wg.Done()
			for i := 0; i < 1200; i++ {
				select {
				case <-done:
					return
				default:
				}
				var s4, d4 [4]byte
				copy(s4[:], r19)
				copy(d4[:], insub)
				id := uint32(g)<<24 | uint32(i)
				u := rfc.UDP{SrcPort: 5000, DstPort: port, Payload: []byte{byte(id >> 24), byte(id >> 16), byte(id >> 8), byte(id), 'a'}}
				ip := rfc.IPv4{TTL: 64, Proto: rfc.ProtoUDP, ID: uint16(i), Src: s4, Dst: d4, Payload: u.Bytes4(s4, d4, true)}
				b := ip.Bytes(true)
				c := now()
				w.links[1].Inject(ipv4.ProtocolNumber, b, "")
				rt := now()
				mu.Lock()
				injs = append(injs, inj{id, c, rt})
				mu.Unlock()
				if i%8 == 0 {
					runtime.Gosched()
				}
			}
		}()
	}
	wg.Wait()
	got := map[uint32]int{}
	for {
		v, _, e := ep.Read(nil)
		if e != nil {
			break
		}
		if len(v) >= 4 {
			got[uint32(v[0])<<24|uint32(v[1])<<16|uint32(v[2])<<8|uint32(v[3])]++
		}
	}
	known := map[uint32]bool{}
	sure, never := 0, 0
	// a temporary address object lives while some packet that uses it is still being handled,
	// and a packet that arrives meanwhile shares it whatever the interface's mode is by then:
	// 'chained' = the injection overlaps (transitively) one that may have been admitted
	sort.Slice(injs, func(i, j int) bool { return injs[i].call < injs[j].call })
	maybeOf := func(x inj) bool {
		for _, sp := range spans {
			if !(x.ret < sp.onCall || x.call > sp.offRet) {
				return true
			}
		}
		return false
	}
	chained := map[uint32]bool{}
	var reach int64 = -1 // latest return stamp of the current chain of overlapping injections that contains a possibly admitted one
	for _, x := range injs {
		if maybeOf(x) {
			if x.ret > reach {
				reach = x.ret
			}
		} else if x.call < reach {
			chained[x.id] = true
			if x.ret > reach {
				reach = x.ret
			}
		}
	}
	for _, x := range injs {
		known[x.id] = true
		inside, maybe := false, maybeOf(x)
		for _, sp := range spans {
			if sp.onRet < x.call && x.ret < sp.offCall {
				inside = true
			}
		}
		n := got[x.id]
		if !maybe && n > 0 && chained[x.id] {
			run.Violation("C09/admission-race/admitted-through-a-temporary-address-object-another-packet-still-holds", fmt.Sprintf("datagram %#x for 10.0.1.200 was injected (logical time %d..%d) after admission had been switched off, while an earlier packet for that address was still being handled; it was delivered", x.id, x.call, x.ret), k)
			continue
		}
		switch {
		case n > 1:
			run.Violation("C09/admission-race/delivered-twice", fmt.Sprintf("datagram %#x for 10.0.1.200 was returned %d times", x.id, n), k)
		case inside && n == 0:
			run.Violation("C09/admission-race/admitted-datagram-lost", fmt.Sprintf("datagram %#x for 10.0.1.200 was injected (logical time %d..%d) while the interface was %s, yet the wildcard socket never returned it", x.id, x.call, x.ret, map[bool]string{true: "promiscuous", false: "owner of 10.0.1.192/26"}[usePromisc]), k)
		case !maybe && n > 0:
			run.Violation("C09/admission-race/delivered-for-unassigned-address", fmt.Sprintf("datagram %#x for 10.0.1.200 was injected (logical time %d..%d) while the interface was neither promiscuous nor owner of the subnet, yet a socket returned it", x.id, x.call, x.ret), k)
		}
		if inside {
			sure++
		}
		if !maybe {
			never++
		}
	}
	for id := range got {
		if !known[id] {
			run.Violation("C09/admission-race/unknown-datagram", fmt.Sprintf("the socket returned datagram %#x that was never injected", id), k)
		}
	}
	run.Case(fw.Hash("admission-race", k%8, usePromisc), sure > 0 && never > 0)
	run.Count("admission_race_datagrams_injected_while_admitted", int64(sure))
	run.Count("admission_race_datagrams_injected_while_not_admitted", int64(never))
	run.Count("admission_race_datagrams_returned", int64(len(got)))
}

func child(t *testing.T) {
	if os.Getenv("VERIF_PHASE") == "racing" {
		for k := 0; k < fw.N(60, 3000) && run.Violations() < 3; k++ {
			racing(k)
		}
		for k := 0; k < fw.N(150, 6000) && run.Violations() < 3; k++ {
			registryRace(k)
		}
		for k := 0; k < fw.N(40, 2000) && run.Violations() < 3; k++ {
			admissionRace(k)
		}
		os.Exit(run.Finish("", nil))
	}
	var lo, hi int
	fmt.Sscan(os.Getenv("VERIF_RANGE"), &lo, &hi)
	vt.Bubble(t, func() {
		for k := lo; k < hi && run.Violations() < 4; k++ {
			scenario(k)
		}
		os.Exit(run.Finish("", nil))
	})
}

func TestC09(t *testing.T) {
	log.SetOutput(io.Discard)
	run = fw.Start("C09", "exploration")
	if fw.IsChild() {
		child(t)
		return
	}
	n := fw.N(480, 24000)
	nchild := 16
	var wg sync.WaitGroup
	for c := 0; c < nchild; c++ {
		c := c
		wg.Add(1)
		go func() {
			defer wg.Done()
			tag := fmt.Sprintf("vt%d", c)
			res := run.RunChild(fw.ChildSpec{Bin: os.Getenv("VERIF_BIN_VT"), Test: "^TestC09$", Tag: tag, Env: []string{fmt.Sprintf("VERIF_RANGE=%d %d", n*c/nchild, n*(c+1)/nchild)}, Timeout: time.Duration(fw.N(10, 90)) * time.Minute})
			if !res.Done {
				run.ChildCrashed(res, "C09", tag)
			}
		}()
	}
	wg.Wait()
	res := run.RunChild(fw.ChildSpec{Bin: os.Getenv("VERIF_BIN_RACE"), Test: "^TestC09$", Tag: "racing", Race: true, Anchors: []string{"stack/", "protocol/transport/udp/", "protocol/ports/"}, Env: []string{"VERIF_PHASE=racing"}})
	if !res.Done {
		run.ChildCrashed(res, "C09/racing", nil)
	}
	code := run.Finish("a real stack with two interfaces (three IPv4 addresses) holds a PRNG-built set of 1-10 sockets over three ports: UDP bound to the wildcard / a specific address / an interface, UDP connected with and without naming the interface, TCP listeners on the wildcard or a specific address; some are closed again and one address may be removed. Then the full cross product (interface x destination address incl. a foreign one x destination port incl. an unused one x three sources x two source ports) is injected as UDP datagrams with unique payloads and, for a third of it, as TCP SYNs. After each UDP packet every socket is read: the payload must be on exactly the socket chosen by an independent reference matcher (interface owns the destination address; per-interface registrations before global ones; 4-tuple > connected > specific local address > port only) or nowhere. A SYN must draw exactly one SYN-ACK when a listener matches, exactly one reset when nothing matches, and nothing when the address is not assigned. Racing phase (real time, pinned toolchain, race detector): two goroutines keep opening, draining and closing UDP sockets bound to two addresses of one port while a third injects uniquely numbered datagrams; a datagram may be returned by at most one socket, only by one bound to its destination address, and never by a socket whose owner had decided to close it before the datagram was injected (logical stamps). distinct = socket-set shapes Later additions: Admission race (race detector): promiscuous mode / subnet ownership is switched on and off while two goroutines inject datagrams for an unassigned address; delivered exactly once when injected wholly inside an admitted interval, never when outside every possibly-admitted interval. Interfaces made promiscuous or told that they own a subnet (10.0.1.192/26), left on or switched off again after a few admitted datagrams; an address inside and one outside the subnet are among the probed destinations. A listener bound to a specific address whose SYN was admitted on another interface is judged only for 'one SYN-ACK or one reset'. Multicast memberships (joined before/after bind, left, socket closed unbound) with group addresses among the probed destinations; the registration table raced directly (at most one holder of an endpoint id). Every fourth probed datagram arrives in two fragments behind a fragment of another host's datagram with the same identification.",
		[]string{"reference matcher in h/c09 written from the statement", "a removed address that an open socket is still bound/connected to is reported under its own key"})
	os.Exit(code)
}
