// Package wire provides the harness link endpoint (every emitted packet passes
// through harness code synchronously inside WritePacket), a two-stack wire with
// per-packet fault plans, and helpers to build stacks.
package wire

import (
	"bytes"
	"container/heap"
	"fmt"
	"sync"
	"time"
	"verifh/fw"
	"verifh/vt"

	"github.com/brewlin/net-protocol/pkg/buffer"
	tcpip "github.com/brewlin/net-protocol/protocol"
	"github.com/brewlin/net-protocol/stack"
)

// Frame is one packet as it left a stack (network-layer bytes; the harness
// link has no Ethernet framing of its own - Remote/Local carry the link
// addresses the stack chose).
type Frame struct {
	N      int // emission index on this link
	T      time.Duration
	Proto  tcpip.NetworkProtocolNumber
	Data   []byte
	Remote tcpip.LinkAddress // destination link address chosen by the stack
	Local  tcpip.LinkAddress
}

// Link is a stack.LinkEndpoint.
type Link struct {
	Name     string
	mtu      uint32
	caps     stack.LinkEndpointCapabilities
	addr     tcpip.LinkAddress
	hdrLen   uint16
	mu       sync.Mutex
	disp     stack.NetworkDispatcher
	n        int
	t0       time.Time
	Taps     []func(f *Frame) // called synchronously inside WritePacket, in order
	Log      []*Frame         // every emitted frame (if KeepLog)
	KeepLog  bool
	ID       tcpip.LinkEndpointID
	ViewSize int // >0: inbound packets are delivered in views of this size (like fdbased)
	// Refuse, when set, lets the link refuse a packet (WritePacket returns ErrNoBufferSpace
	// and nothing is emitted), as a device with a full queue does.
	Refuse func(proto tcpip.NetworkProtocolNumber, hdr buffer.View, payload buffer.VectorisedView) bool

	// The link keeps the header views of the last packets it was handed, the way a
	// queueing link (protocol/link/channel) does, together with a snapshot: a header that
	// changes after WritePacket returned was reused by the stack while the link still
	// owned it.
	held   []heldHeader
	reused []string
}

type heldHeader struct {
	n     int
	proto tcpip.NetworkProtocolNumber
	ref   []byte // the stack's memory
	snap  []byte // what it held when it was handed over
}

var (
	linksMu  sync.Mutex
	allLinks []*Link
)

// canaryHeaderCompare looks at header memory the stack handed over earlier.
func (l *Link) canaryHeaderCompare() {
	keep := l.held[:0]
	for _, h := range l.held {
		if !bytes.Equal(h.ref, h.snap) {
			if len(l.reused) < 8 {
				l.reused = append(l.reused, fmt.Sprintf("link %s: the header of packet #%d (protocol %#04x, %d header bytes) was overwritten after it had been handed to the link: it was %x, now %x", l.Name, h.n, uint16(h.proto), len(h.snap), h.snap, h.ref))
			}
			continue
		}
		keep = append(keep, h)
	}
	l.held = keep
	if len(l.held) > 32 {
		l.held = append(l.held[:0], l.held[len(l.held)-32:]...)
	}
}

func init() {
	fw.PreFinish = append(fw.PreFinish, func(r *fw.Run) {
		for _, m := range HeaderReuse() {
			r.Violation(r.ID+"/link/header-overwritten-after-write", m, nil)
		}
	})
}

// HeaderReuse reports headers that changed after they were handed to any link of this process.
func HeaderReuse() []string {
	linksMu.Lock()
	ls := append([]*Link(nil), allLinks...)
	linksMu.Unlock()
	var out []string
	for _, l := range ls {
		l.mu.Lock()
		l.canaryHeaderCompare()
		out = append(out, l.reused...)
		l.reused = nil
		l.mu.Unlock()
	}
	return out
}

func NewLink(name string, mtu uint32, addr tcpip.LinkAddress, caps stack.LinkEndpointCapabilities) *Link {
	l := &Link{Name: name, mtu: mtu, addr: addr, caps: caps, t0: time.Now()}
	l.ID = stack.RegisterLinkEndpoint(l)
	linksMu.Lock()
	if len(allLinks) > 4096 {
		allLinks = allLinks[2048:]
	}
	allLinks = append(allLinks, l)
	linksMu.Unlock()
	return l
}

func (l *Link) MTU() uint32                                  { return l.mtu }
func (l *Link) SetMTU(m uint32)                              { l.mtu = m }
func (l *Link) Capabilities() stack.LinkEndpointCapabilities { return l.caps }
func (l *Link) MaxHeaderLength() uint16                      { return l.hdrLen }
func (l *Link) LinkAddress() tcpip.LinkAddress               { return l.addr }
func (l *Link) Attach(d stack.NetworkDispatcher)             { l.disp = d }
func (l *Link) IsAttached() bool                             { return l.disp != nil }
func (l *Link) Since() time.Duration                         { return time.Since(l.t0) }
func (l *Link) AddTap(f func(f *Frame))                      { l.Taps = append(l.Taps, f) }

func (l *Link) WritePacket(r *stack.Route, hdr buffer.Prependable, payload buffer.VectorisedView, protocol tcpip.NetworkProtocolNumber) *tcpip.Error {
	vt.Tick()
	if l.Refuse != nil && l.Refuse(protocol, hdr.View(), payload) {
		return tcpip.ErrNoBufferSpace // the device's queue is full: the packet was not taken
	}
	h := hdr.View()
	p := payload.ToView()
	data := make([]byte, 0, len(h)+len(p))
	data = append(append(data, h...), p...)
	f := &Frame{T: time.Since(l.t0), Proto: protocol, Data: data}
	if r != nil {
		f.Remote = r.RemoteLinkAddress
		f.Local = r.LocalLinkAddress
	}
	l.mu.Lock()
	f.N = l.n
	l.n++
	l.canaryHeaderCompare()
	if len(h) > 0 {
		l.held = append(l.held, heldHeader{f.N, protocol, h, append([]byte(nil), h...)})
	}
	if l.KeepLog {
		l.Log = append(l.Log, f)
	}
	taps := l.Taps
	l.mu.Unlock()
	for _, t := range taps {
		t(f)
	}
	return nil
}

// Inject delivers a network-layer packet to the stack as if it arrived on this link.
func (l *Link) Inject(proto tcpip.NetworkProtocolNumber, data []byte, remote tcpip.LinkAddress) {
	vt.Tick()
	b := append([]byte(nil), data...)
	var vv buffer.VectorisedView
	if l.ViewSize > 0 && len(b) > l.ViewSize {
		// ViewSize == 1 selects the fd-based link's own buffer layout; any other value
		// cuts the packet into equal views of that size
		sizes := []int{l.ViewSize}
		if l.ViewSize == 1 {
			sizes = []int{128, 256, 256, 512, 1024, 2048, 4096, 8192, 16384, 32768}
		}
		var views []buffer.View
		for i, k := 0, 0; i < len(b); k++ {
			sz := sizes[len(sizes)-1]
			if k < len(sizes) {
				sz = sizes[k]
			}
			e := i + sz
			if e > len(b) {
				e = len(b)
			}
			views = append(views, buffer.View(b[i:e]))
			i = e
		}
		vv = buffer.NewVectorisedView(len(b), views)
	} else {
		vv = buffer.NewVectorisedView(len(b), []buffer.View{buffer.View(b)})
	}
	views := vv.Views()
	l.disp.DeliverNetworkPacket(l, remote, l.addr, proto, vv)
	// Like the fd-based link, the harness link owns the slice of views it delivered and
	// clears it when delivery returns (fdbased refills it for the next frame): a packet the
	// stack wants to keep must have been cloned or copied by then.
	for i := range views {
		views[i] = nil
	}
}

// Emitted returns a copy of the log.
func (l *Link) Emitted() []*Frame {
	l.mu.Lock()
	defer l.mu.Unlock()
	return append([]*Frame(nil), l.Log...)
}

func (l *Link) Count() int {
	l.mu.Lock()
	defer l.mu.Unlock()
	return l.n
}

// ---------------------------------------------------------------------------
// Pipe: one direction of a wire. Packets are delivered by a single dispatcher
// goroutine in (deliverAt, arrival) order, so reordering happens only when the
// fault plan asks for it.

type Action struct {
	Drop      bool
	Dup       int             // extra copies
	Delay     time.Duration   // extra latency for the original
	DupDelays []time.Duration // extra latency per copy (defaults to Delay)
}

type item struct {
	at  time.Time
	seq int
	f   *Frame
}
type itemHeap []item

func (h itemHeap) Len() int { return len(h) }
func (h itemHeap) Less(i, j int) bool {
	return h[i].at.Before(h[j].at) || (h[i].at.Equal(h[j].at) && h[i].seq < h[j].seq)
}
func (h itemHeap) Swap(i, j int)       { h[i], h[j] = h[j], h[i] }
func (h *itemHeap) Push(x interface{}) { *h = append(*h, x.(item)) }
func (h *itemHeap) Pop() interface{} {
	o := *h
	x := o[len(o)-1]
	*h = o[:len(o)-1]
	return x
}

type Pipe struct {
	From, To *Link
	Latency  time.Duration
	// Decide is called synchronously at emission (inside WritePacket) for every packet.
	Decide func(f *Frame) Action
	// OnDeliver is called by the dispatcher goroutine right before delivery.
	OnDeliver func(f *Frame)

	mu        sync.Mutex
	q         itemHeap
	seq       int
	wake      chan struct{}
	done      chan struct{}
	Dropped   int
	Sent      int
	Delivered int
}

func NewPipe(from, to *Link, latency time.Duration) *Pipe {
	p := &Pipe{From: from, To: to, Latency: latency, wake: make(chan struct{}, 1), done: make(chan struct{})}
	from.AddTap(p.tx)
	go p.loop()
	return p
}

func (p *Pipe) tx(f *Frame) {
	var a Action
	if p.Decide != nil {
		a = p.Decide(f)
	}
	now := time.Now()
	p.mu.Lock()
	p.Sent++
	if a.Drop {
		p.Dropped++
	} else {
		heap.Push(&p.q, item{at: now.Add(p.Latency + a.Delay), seq: p.seq, f: f})
		p.seq++
	}
	for i := 0; i < a.Dup; i++ {
		d := a.Delay
		if i < len(a.DupDelays) {
			d = a.DupDelays[i]
		}
		heap.Push(&p.q, item{at: now.Add(p.Latency + d), seq: p.seq, f: f})
		p.seq++
	}
	p.mu.Unlock()
	select {
	case p.wake <- struct{}{}:
	default:
	}
}

func (p *Pipe) loop() {
	for {
		p.mu.Lock()
		if len(p.q) == 0 {
			p.mu.Unlock()
			select {
			case <-p.wake:
				continue
			case <-p.done:
				return
			}
		}
		top := p.q[0]
		d := time.Until(top.at)
		if d > 0 {
			p.mu.Unlock()
			t := time.NewTimer(d)
			select {
			case <-p.wake:
				t.Stop()
			case <-t.C:
			case <-p.done:
				t.Stop()
				return
			}
			continue
		}
		heap.Pop(&p.q)
		p.Delivered++
		p.mu.Unlock()
		if p.OnDeliver != nil {
			p.OnDeliver(top.f)
		}
		p.To.Inject(top.f.Proto, top.f.Data, p.From.LinkAddress())
	}
}

func (p *Pipe) Close() { close(p.done) }

// InFlight returns the number of queued packets.
func (p *Pipe) InFlight() int {
	p.mu.Lock()
	defer p.mu.Unlock()
	return len(p.q)
}
