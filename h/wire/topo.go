package wire

import (
	"fmt"
	"sync"
	"time"

	tcpip "github.com/brewlin/net-protocol/protocol"
	"github.com/brewlin/net-protocol/protocol/network/arp"
	"github.com/brewlin/net-protocol/protocol/network/ipv4"
	"github.com/brewlin/net-protocol/protocol/network/ipv6"
	"github.com/brewlin/net-protocol/protocol/transport/tcp"
	"github.com/brewlin/net-protocol/protocol/transport/udp"
	"github.com/brewlin/net-protocol/stack"
)

type HostCfg struct {
	Name     string
	MTU      uint32
	LinkAddr tcpip.LinkAddress
	Caps     stack.LinkEndpointCapabilities
	V4       []tcpip.Address
	V6       []tcpip.Address
	SACK     bool
	CC       string // "", "reno", "cubic"
	WithARP  bool
}

type Host struct {
	S    *stack.Stack
	L    *Link
	Cfg  HostCfg
}

// stack.New writes the process-global stack.Pstack; creation is serialised so
// that concurrent scenarios in one process do not race on it.
var newMu sync.Mutex

func NewHost(c HostCfg) (*Host, error) {
	newMu.Lock()
	defer newMu.Unlock()
	nets := []string{ipv4.ProtocolName, ipv6.ProtocolName}
	if c.WithARP {
		nets = append(nets, arp.ProtocolName)
	}
	s := stack.New(nets, []string{tcp.ProtocolName, udp.ProtocolName}, stack.Options{})
	if err := s.SetTransportProtocolOption(tcp.ProtocolNumber, tcp.SACKEnabled(c.SACK)); err != nil {
		return nil, fmt.Errorf("sack option: %v", err)
	}
	if c.CC != "" {
		if err := s.SetTransportProtocolOption(tcp.ProtocolNumber, tcp.CongestionControlOption(c.CC)); err != nil {
			return nil, fmt.Errorf("cc option: %v", err)
		}
	}
	l := NewLink(c.Name, c.MTU, c.LinkAddr, c.Caps)
	if err := s.CreateNIC(1, l.ID); err != nil {
		return nil, fmt.Errorf("CreateNIC: %v", err)
	}
	for _, a := range c.V4 {
		if err := s.AddAddress(1, ipv4.ProtocolNumber, a); err != nil {
			return nil, fmt.Errorf("AddAddress: %v", err)
		}
	}
	for _, a := range c.V6 {
		if err := s.AddAddress(1, ipv6.ProtocolNumber, a); err != nil {
			return nil, fmt.Errorf("AddAddress6: %v", err)
		}
	}
	if c.WithARP {
		if err := s.AddAddress(1, arp.ProtocolNumber, arp.ProtocolAddress); err != nil {
			return nil, fmt.Errorf("AddAddress arp: %v", err)
		}
	}
	s.SetRouteTable([]tcpip.Route{
		{Destination: "\x00\x00\x00\x00", Mask: "\x00\x00\x00\x00", Gateway: "", NIC: 1},
		{Destination: tcpip.Address(make([]byte, 16)), Mask: tcpip.AddressMask(make([]byte, 16)), Gateway: "", NIC: 1},
	})
	return &Host{S: s, L: l, Cfg: c}, nil
}

var (
	AddrA4 = tcpip.Address("\x0a\x00\x00\x01")
	AddrB4 = tcpip.Address("\x0a\x00\x00\x02")
	AddrA6 = tcpip.Address("\xfd\x00\x00\x00\x00\x00\x00\x00\x00\x00\x00\x00\x00\x00\x00\x01")
	AddrB6 = tcpip.Address("\xfd\x00\x00\x00\x00\x00\x00\x00\x00\x00\x00\x00\x00\x00\x00\x02")
)

type Topo struct {
	A, B   *Host
	AB, BA *Pipe
}

func NewTopo(mtu uint32, sack bool, cc string, latency time.Duration) (*Topo, error) {
	a, err := NewHost(HostCfg{Name: "A", MTU: mtu, V4: []tcpip.Address{AddrA4}, V6: []tcpip.Address{AddrA6}, SACK: sack, CC: cc})
	if err != nil {
		return nil, err
	}
	b, err := NewHost(HostCfg{Name: "B", MTU: mtu, V4: []tcpip.Address{AddrB4}, V6: []tcpip.Address{AddrB6}, SACK: sack, CC: cc})
	if err != nil {
		return nil, err
	}
	t := &Topo{A: a, B: b}
	t.AB = NewPipe(a.L, b.L, latency)
	t.BA = NewPipe(b.L, a.L, latency)
	return t, nil
}

func (t *Topo) Close() {
	t.AB.Close()
	t.BA.Close()
}
