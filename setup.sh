#!/bin/bash
# Builds every monitor once (warms the Go build cache); offline.
cd "$(dirname "$0")" || exit 1
export GOFLAGS=-mod=mod GOPROXY=off GOSUMDB=off GOTOOLCHAIN=local CGO_ENABLED=1
mkdir -p .build .run evidence replays
[ -f h/go.sum ] || touch h/go.sum
rc=0
while read -r id pkg tc variants; do
  [ -z "$id" ] && continue
  lc=$(echo "$id" | tr 'A-Z' 'a-z')
  for v in $(echo "$variants" | tr ',' ' '); do
    flags=""; g=$tc
    case "$v" in race) flags="-race";; vt) g=go1.26.8;; vtrace) g=go1.26.8; flags="-race";; esac
    ( cd h && $g test -c -vet=off $flags -tags verif -o "../.build/$lc.$v.test" "./$pkg" ) || rc=1
  done
done < checks.tsv
exit $rc
