#!/usr/bin/env python3
"""Regenerates MANIFEST.json from the table below (keeps it schema-valid)."""
import json, subprocess, sys
ALL = ["C%02d" % i for i in range(1, 21)]
CHECKS = {
 "C01": dict(level="exploration", ref="DESIGN.md §3 C01",
   technique="runtime monitor at the API boundary with position-coded payloads over two real stacks joined by an adversarial wire (drop/duplicate/delay/reorder/replay), bulk in virtual time (testing/synctest), subset in real time under the race detector",
   text="Every byte returned by Read is compared with the byte written at that stream offset and must lie below the bytes offered to Write so far; scenarios vary IP version, SACK, congestion controller, MTU, buffers, chunking, reader pacing, fault mix and ISS placement (streams crossing 2^31/2^32 are counted from the wire). Exploration: the schedule of goroutines is not pinned; hundreds (quick) to tens of thousands (thorough) of scenarios.",
   note="Trusted: the payload function and harness wire (h/tcpx, h/wire); Go's synctest for virtual time (go1.26.8); ISS steering through crypto/rand.Reader. Packets are never altered."),
 "C02": dict(level="fault_enumeration", ref="DESIGN.md §3 C02",
   technique="fault enumeration in virtual time: packet identities of each base exchange are enumerated from a fault-free run, then every class is dropped once/twice, pairs are dropped, ACKs/data are held back (reordering), plus random-fault scenarios; completion-or-explicit-error by a virtual deadline is the oracle",
   text="For ~34 base exchanges (sizes, close orders, half-close, closed receive window in several timings) every packet class is dropped (first/middle/last/PRNG identities; all in thorough), pairs are dropped, and packets are delayed; each run must complete with end-of-stream after exactly the written bytes and correct closed-state observables, or fail with an explicit error, within 30 virtual minutes; a quiet connection is a stall.",
   note="Trusted: virtual time (synctest), identity keys (direction, flags, relative seq, length / ack, window). 'Eventually' restated as 'by virtual T'. Known finding: no persist timer."),
 "C03": dict(level="exploration", ref="DESIGN.md §3 C03",
   technique="scripted raw peer (independent RFC codec) against one real stack in virtual time with quiescence after every injected segment; Accept/Connect results and emitted resets judged against the RFC 793 reset rule",
   text="Thousands of handshake scripts (passive and active, normal / cookie / genuine-pressure mode, PRNG option sets, wrap-adjacent ISS, wrong acknowledgements at +-1, +-2, +-2^16, 2^31, 0, 2^32-1 and random, duplicate/other SYN, RST in and out of window, early data, cross-tuple ACKs) and strays with every flag combination; a connection may appear only after the exact acknowledgement, bad acknowledgements draw exactly one reset with that sequence number, strays draw exactly one RFC-shaped reset, resets are never answered.",
   note="Trusted: h/rfc for building/decoding segments, quiescence (synctest.Wait) for attributing replies. Known finding: cookie validation accepts near-miss ACKs."),
 "C04": dict(level="exploration", ref="DESIGN.md §3 C04",
   technique="online monitor over every segment a real stack emits to a scripted raw peer in virtual time: unwrapped right-edge/MSS/MTU bounds on the send side, monotone advertised edge, acceptance and deliverability on the receive side",
   text="The peer script mixes application writes, cumulative ACKs with hostile windows (0, 1, MSS-1, scaled, shrinking), re-sent stale ACKs, pauses, in-window / out-of-order / beyond-window data, reader stop/resume and receive-buffer changes; every emitted data segment must end at or before the largest right edge the peer has sent so far, fit the peer MSS and the MTU and carry the written bytes; the advertised edge must not retreat; in-window data must be acknowledged and readable; beyond-window bytes must never be readable; a closed window must reopen.",
   note="Trusted: quiescence after every step makes 'sent so far' = 'processed so far'. Known finding: advertised edge retreats by < one scale unit (window field truncation)."),
 "C05": dict(level="exploration", ref="DESIGN.md §3 C05",
   technique="totally ordered virtual-time log of a real stack's emissions against a scripted raw peer; timing clauses decided on logical instants (no wall clock), window clauses by counting at every emission",
   text="'silent' scripts check every timeout retransmission (right segment, >= 200 ms after its previous transmission, intervals at least doubling, one segment per expiry); 'fastrexmit' scripts lose each position of a flight and require the retransmission at the instant the third duplicate ACK is delivered; 'cwnd' scripts count distinct segments in flight against 10 + acknowledged + duplicate ACKs (Reno) and 10 before the first ACK.",
   note="Trusted: virtual time makes 'same instant' exact; CUBIC is held only to the clauses not qualified 'default controller'."),

 "C08": dict(level="exploration", ref="DESIGN.md §3 C08",
   technique="runtime reference-model monitor: real fragmentation.Process vs per-key byte-map reference in lock-step (exhaustive small scope + PRNG), -race concurrent delivery, virtual-time (synctest) timeout scenarios",
   text="Every fragment fed to the real reassembler is also fed to a reference byte map; delivery is demanded exactly when the reference is complete (incl. last fragment) and the delivered bytes are compared with the key/offset-coded original. Small scopes are enumerated completely (all compositions x orders x one extra duplicate/overlap), larger ones sampled; concurrent delivery runs under the race detector; the timeout clause runs in virtual time.",
   note="Trusted: the reference in h/c08; Go's testing/synctest for virtual time (go1.26.8). Contradictory overlaps and fragments beyond the datagram are out of the judged domain."),
 "C10": dict(level="exploration", ref="DESIGN.md §3 C10",
   technique="runtime reference-model monitor in lock-step; porcupine linearizability check of recorded concurrent histories under the race detector; adaptive probe-sequence oracle for the ephemeral search",
   text="Sequential op sequences are replayed against a reference reservation table after every step; concurrent reserve/release/availability histories from 2-8 goroutines are recorded at the call boundary and checked by porcupine (partitioned per transport/port) in a -race build; the ephemeral search is driven by a callback that picks the only acceptable port after seeing where the search started, so every call forces a chosen fraction of a full cycle.",
   note="Trusted: reference table (6-bit set per transport/port), porcupine v1.3.0, logical clock (atomic counter)."),
 "C15": dict(level="exploration", ref="DESIGN.md §3 C15",
   technique="runtime differential monitor against an independent RFC codec (h/rfc): exhaustive per-field sweeps, exhaustive ChecksumCombine, every buffer length, option-sequence enumeration, hostile parser inputs with panic capture",
   text="Each header encoder/getter is executed for every value of every field up to 16 bits (others PRNG) and compared in both directions with an independent codec; Checksum is compared with a reference RFC 1071 sum for every length and all 2^16 initial values on short buffers; ChecksumCombine is checked on all 2^32 pairs; TCP option parsers are run on every option sequence up to a bound and on hostile bytes, a panic being the observable for an out-of-input read.",
   note="Trusted: h/rfc (imports nothing from /repo); Go bounds checking turns out-of-input reads into panics."),
 "C16": dict(level="exploration", ref="DESIGN.md §3 C16",
   technique="runtime reference-model monitor: every operation on View/VectorisedView/Prependable mirrored on a plain []byte, compared after every step; exhaustive small scope + PRNG sequences",
   text="All chunkings (incl. empty chunks) of short contents and all operation sequences up to a bound over trim/cap/remove-first/clone are enumerated, every live object (original and clones) compared with its reference byte string after every step; long random sequences on large contents; re-extension beyond a cap and Prependable regions checked through cap()/panic.",
   note="Trusted: the []byte reference in h/c16. View.CapLength beyond the current length is counted, not judged."),
 "C17": dict(level="exploration", ref="DESIGN.md §3 C17",
   technique="runtime monitor: callbacks attributed to the Notify call that ran them; exhaustive sequential enumeration against a reference set; porcupine linearizability check of concurrent histories under the race detector; token-presence invariant for channel entries",
   text="Every legal register/unregister/notify sequence up to a bound is executed and the callbacks of each Notify compared with the reference set; concurrent histories (2-6 goroutines) are checked by porcupine against the set specification in a -race build; for channel entries a harness lock makes (take token, count) atomic so 'token present or taken since the call' is judged without a clock.",
   note="Trusted: reference set model, porcupine, goroutine-id attribution (callbacks run synchronously on the notifier)."),
 "C18": dict(level="exploration", ref="DESIGN.md §3 C18",
   technique="systematic schedule exploration of the real mutex at verif schedule points (controller runs one goroutine at a time; DFS over decision sequences with replay) + stress under the race detector with injected pre-emption, occupancy monitor, porcupine, state-based lost-wake-up verdict",
   text="For small programs of Lock/TryLock/Unlock every interleaving at the granularity of the mutex's atomic operations is enumerated on the real code; a deadlock is 'no enabled goroutine' (logical), mutual exclusion is an occupancy counter, TryLock's clause is judged when no other step overlapped. Larger programs are sampled (capped DFS, random priorities) and stress-run under -race with seeded delays at the same points.",
   note="Trusted: the controller's enabledness rule (receive enabled iff a token is queued), add-only hooks in pkg/tmutex. Load+Swap of Lock's re-check are one controlled step."),
 "C19": dict(level="exploration", ref="DESIGN.md §3 C19",
   technique="stress under the race detector with seeded delays at the algorithm's atomic operations; porcupine on recorded Assert/Clear/Fetch histories; state-based lost-wake-up verdict; hook monitor + plain-store canary for touches after Done",
   text="The real Sleeper/Waker (real gopark/commitSleep/goready) is driven by 1 fetcher and 1-8 asserters with delays injected at the verif points; each history is checked by porcupine against the asserted-flag specification; a lost wake-up is concluded from state once every Assert has returned; after Done the sleeper is overwritten with plain stores so any later touch is a race report, and a hook monitor flags a waker that reaches an enqueue step on a sleeper whose Done has returned.",
   note="Trusted: the specification in h/c19 (strict for single-asserter wakers), race detector semantics for sync/atomic. Known finding: enqueueAssertedWaker reads waitingG after Done returned."),

 "C14": dict(level="exploration", ref="DESIGN.md §3 C14",
   technique="runtime differential monitor: real seqnum functions vs 64-bit reference definitions over boundary lattices, strided/exhaustive distance sweeps and PRNG tuples",
   text="Every exported seqnum function is executed on boundary lattices around every power of two from wrap-adjacent base points, a strided sweep (thorough: all 2^32 distances per base) and PRNG tuples, and each result is compared with the serial-number definition evaluated in 64-bit integers. Exploration, not proof: the operand space of the 3- and 4-argument functions is sampled.",
   note="Trusted: the 64-bit reference definitions in h/c14 (written from the statement). Antipodal distance, empty windows and spans >= 2^31 are recorded, not judged."),
}
NOT_BUILT = "check not built yet in this round (planned in DESIGN.md §3)"
def hooks_commits():
    out = subprocess.run(["git","-C","/repo","log","--format=%H %s"],capture_output=True,text=True).stdout
    return [l.split()[0] for l in out.splitlines() if "verif hook:" in l]
m = {
 "version": 1,
 "setup_cmd": "./setup.sh",
 "hooks": {
   "guard": "verif",
   "enable": "go build tag: go test -c -tags verif (checks build /repo's working tree through the harness module /verif/h, replace => /repo)",
   "baseline_off_cmd": "cd /repo && GOFLAGS=-mod=mod go test -json -vet=off -count=1 -timeout 25m ./...",
   "source_commits": hooks_commits(),
   "add_only": True,
 },
 "engines": [
   {"name":"fw","path":"h/fw","serves_properties":sorted(CHECKS),"kind_free_text":"verdict/evidence/known-findings/PRNG/child-process/race-report machinery shared by all monitors"},
   {"name":"rfc","path":"h/rfc","serves_properties":["C03","C04","C05","C06","C07","C11","C12","C13","C15"],"kind_free_text":"independent RFC codec (imports nothing from /repo)"},
   {"name":"wire+tcpx","path":"h/wire, h/tcpx","serves_properties":["C01","C02","C14"],"kind_free_text":"harness link endpoint, adversarial two-stack wire, TCP scenario runner with position-coded payloads"},
   {"name":"rawpeer","path":"h/rawpeer","serves_properties":["C03","C04","C05"],"kind_free_text":"scripted raw TCP peer over the harness link"},
   {"name":"vt","path":"h/vt","serves_properties":["C01","C02","C03","C04","C05","C08"],"kind_free_text":"virtual-time substrate: testing/synctest bubble under go1.26.8"},
   {"name":"sched","path":"h/sched","serves_properties":["C18"],"kind_free_text":"schedule controller: DFS over decision sequences at verif schedule points"},
   {"name":"hist","path":"h/hist","serves_properties":["C10","C17","C18","C19"],"kind_free_text":"history recorder + porcupine v1.3.0"},
 ],
 "checks": [],
 "not_applicable": [],
 "notes": "Technique family: runtime monitoring and sanitizers. Every check builds the real code from /repo's working tree with -tags verif and judges observed executions; see DESIGN.md.",
}
for pid in ALL:
    c = CHECKS.get(pid)
    if not c:
        m["not_applicable"].append({"property_id": pid, "reason": NOT_BUILT}); continue
    m["checks"].append({
      "property_id": pid,
      "quick_cmd": "VERIF_TIER=quick ./check %s" % pid,
      "thorough_cmd": "VERIF_TIER=thorough ./check %s" % pid,
      "evidence_file": "/verif/evidence/%s.json" % pid,
      "replay_cmd_template": "./check %s --replay {path}" % pid,
      "engine": "fw",
      "level_claimed": {"category": c["level"], "text": c["text"], "design_ref": c["ref"]},
      "level_note": c["note"],
      "technique": c["technique"],
    })
json.dump(m, open("/verif/MANIFEST.json","w"), indent=1)
import jsonschema
jsonschema.validate(m, json.load(open("/root/.vp/MANIFEST.schema.json")))
print("MANIFEST ok:", len(m["checks"]), "checks,", len(m["not_applicable"]), "not_applicable")
