#!/usr/bin/env python3
"""Regenerates MANIFEST.json from the table below (keeps it schema-valid)."""
import json, subprocess, sys
ALL = ["C%02d" % i for i in range(1, 21)]
CHECKS = {
 "C06": dict(level="exploration", ref="DESIGN.md §3 C06",
   technique="passive runtime monitor: every frame emitted in TCP, option and multi-interface sweeps is decoded by an independent RFC codec (lengths, checksums, option grammar, IP identification) and its addressing compared with the socket / answered packet / an independent first-match route lookup; on the fd-based Ethernet link (socketpair, real time) the harness plays the neighbours and judges source/destination MAC, EtherType and frame length",
   text="About 150 000 frames per quick run (millions in thorough) of TCP (IPv4/IPv6, all option combinations incl. 1-4 SACK blocks, retransmissions), UDP (boundary lengths), ICMP echo replies on stacks with 1-3 interfaces and PRNG-ordered overlapping routes are each checked by h/rfc; source address/interface are compared with a reference route lookup, ports and addresses with the socket or the packet being answered. UDP datagrams crafted for a computed checksum of zero, mid-segment ACKs followed by retransmission of the remainder. fd-based sweep: 480 scenarios (quick) with an on-link host and a gateway per family, PRNG-ordered routes, MAC changes, passive and active opens, echo, boundary-length UDP. Sockets bound to one interface's address must leave through the first matching route entry of that interface with that address as source; echo requests with a non-zero code or a wrong checksum of their own must still draw well-formed replies; a crowded segment (more neighbours than the neighbour cache holds) checks the destination MAC of datagrams to the oldest and newest neighbours.",
   note="Trusted: h/rfc (independent of /repo); only frames the workloads elicit are judged."),
 "C07": dict(level="exploration", ref="DESIGN.md §3 C07",
   technique="child-process isolation with on-disk witness: structure-aware mutated frames, exhaustive small-scope fragment sequences and noise are injected into a real stack; process death (panic site) and logical liveness probes in virtual time are the oracle; fd-based link over a socketpair; concurrent barrage under the race detector",
   text="Each batch of frames is written to disk and each frame index logged before injection, so a crash names its input. After every batch the stack must answer one echo request, accept a new TCP connection with its data readable, and deliver a UDP datagram (virtual time, fresh ports, queues drained first, 1.5 virtual seconds after the batch so that timers armed by hostile input have fired). Two established connections with unacknowledged data are held during each batch: one receives in-window hostile segments, a quiet one is addressed only by ICMP errors (incl. fragmentation-needed with boundary next-hop MTUs). The fd-based link is driven with runt and hostile Ethernet frames; its close callback and an echo probe are observed. The virtual-time link requires neighbour resolution, the application writes to neighbours that never answer (failed cache entries) and the barrage brings ARP frames from those addresses; SYN options include end-of-option-list in the middle. A child in which the harness sees no activity for two minutes is examined through two goroutine dumps: a goroutine running in the same repository function in both is reported as a busy loop.",
   note="Trusted: corpus/mutators in h/c07; a panic whose innermost repository frame lies under /repo is the violation; watchdog expiry is inconclusive."),
 "C09": dict(level="exploration", ref="DESIGN.md §3 C09",
   technique="runtime reference-model monitor: every inbound packet of a full cross product is attributed by unique payload to the socket that received it and compared with an independent specificity matcher; TCP SYNs judged by SYN-ACK / reset counting; racing phase under the race detector with logically stamped open/close/inject events",
   text="PRNG-built sets of up to 10 UDP/TCP sockets (wildcard, specific, interface-bound, address+interface, connected with/without interface, listeners) on two interfaces with open/close and address removal, then all (interface x destination x port x source x source port) packets are injected and every socket is read after each one; a socket whose bind fails in its commit step while a datagram for that port arrives must own nothing afterwards; a full connection through a listener whose SYN arrives twice back to back must receive its handshake ACK and (70 virtual seconds later) its data. Racing phase: sockets are opened, drained and closed by two goroutines while a third injects uniquely numbered datagrams; at-most-once, right-address and not-after-close are judged from logical stamps, race reports in stack/, udp/, ports/ are violations. Connected sockets connect to the same peer once more; closed listeners are restarted at once on the same port.",
   note="Trusted: the reference matcher in h/c09. Known finding: a removed address stays served while a connected socket references it."),
 "C11": dict(level="exploration", ref="DESIGN.md §3 C11",
   technique="runtime monitor with self-identifying datagrams (sender, counter, length, pattern): Read results checked for integrity, arrival order, at-most-once and true sender; every successful Write paired with exactly one emitted packet decoded by the independent codec; concurrent readers under the race detector",
   text="1-8 senders over IPv4, IPv6 and v4-on-dual-stack, lengths 12..65507 incl. datagrams delivered as up to 25 fragments and pairs of datagrams from two senders with one IP identification whose fragments arrive interleaved, sockets bound/specific/IPv6/dual-stack/connected, lagging readers (buffer pressure), read-side shutdown and reconnect; writes of 0..66000 bytes on unbound/bound/connected/sendto sockets. Some Reads are preceded by Peek calls with short / scattered / large buffers.",
   note="Trusted: payload code and h/rfc. UDP delivery is synchronous, so no virtual time is needed."),
 "C12": dict(level="exploration", ref="DESIGN.md §3 C12",
   technique="scripted neighbour against a real stack on a resolution-required harness link in virtual time: ARP/NDP replies decoded by the independent codec, a reference neighbour table, and the exact virtual-time schedule of resolution requests",
   text="ARP requests/replies (own, foreign, malformed), learning and non-learning, expiry after virtual minutes, overwrite, cache overflow and ring wrap-around during a wait; UDP writes and TCP connects toward unresolved next hops with the neighbour answering the 1st/2nd/3rd request or never: no data before resolution, requests 1 s apart, at most three, then proceed to the learned MAC or fail with the no-link-address error; IPv6 NS/NA; an own address is removed and re-assigned while requests arrive (a removed address must go unanswered). Racing phase under the race detector: announcements with unique serial-numbered link addresses race cache lookups and waker removals; reported addresses are judged from logical stamps (right neighbour, announced before the lookup returned, not older than the newest announcement completed before it began). The stack's own solicitations are answered with advertisements with and without the Override flag; waits also run on a UDP socket that was connected to a resolved neighbour, written to, and re-connected to the unresolved one.",
   note="Trusted: virtual time (synctest); reference table in h/c12."),
 "C13": dict(level="exploration", ref="DESIGN.md §3 C13",
   technique="request/reply matching at the tap in virtual time: unique (id, seq, payload) echo requests built by the independent codec, replies decoded and checksum-verified by it",
   text="One-at-a-time requests (exactly one mirrored reply from the pinged address, none for foreign/unassigned addresses), every payload length 0..MTU over the sweep, IPv4 fragmented requests, IPv6, id/seq strides and boundaries; bursts of 9 (all answered) and 50 (sub-multiset); 2-4 requests injected by different goroutines at the same instant while the stack's log lines act as pre-emption points (all answered at quiescence); transmit stall + overflow + address removal. The harness link keeps the header views it is handed and reports any that change afterwards.",
   note="Trusted: h/rfc; quiescence before reading the tap (the ICMPv4 replier is a separate goroutine). Odd intermediate view sizes are recorded, not judged (no bundled link produces them)."),
 "C20": dict(level="exploration", ref="DESIGN.md §3 C20",
   technique="end-to-end runtime monitor in virtual time: bundled HTTP/WebSocket client and server over the stack's own TCP on a loop-back harness link; handler arguments and client results compared with what was sent; both TCP byte streams reassembled from the tap and parsed independently (status line, accept key, RFC 6455 frames incl. masked ones from a raw-endpoint client)",
   text="Hundreds (quick) to tens of thousands of exchanges: GET/HEAD/POST/PUT, registered/unregistered paths, 0-8 headers, bodies to 900 bytes; WebSocket sessions of 1-6 messages around the 125/126/65535/65536 boundaries up to 100 000 (300 000) bytes, unmasked via the bundled client and masked (zero, ones, PRNG keys) via an independent encoder, one message in four of that client unmasked among the masked ones; bursts of 2-6 bundled HTTP clients connecting at the same virtual instant, each must get its own reply. A handler pushes three messages from a second goroutine while its own goroutine waits in ReadData for a silent client.",
   note="Trusted: independent HTTP/RFC 6455 parsing in h/c20. The bundled server's late waiter registration (schedule-dependent) is avoided by a 10 ms virtual pause."),

 "C01": dict(level="exploration", ref="DESIGN.md §3 C01",
   technique="runtime monitor at the API boundary with position-coded payloads over two real stacks joined by an adversarial wire (drop/duplicate/delay/reorder/replay) and over one stack driven by a scripted raw peer, bulk in virtual time (testing/synctest), subset in real time under the race detector",
   text="Every byte returned by Read is compared with the byte written at that stream offset and must lie below the bytes offered to Write so far; scenarios vary IP version, SACK, congestion controller, MTU, buffers, chunking, reader pacing, fault mix and ISS placement (streams crossing 2^31/2^32 are counted from the wire). A scripted phase plays relative scripts (overlapping / out-of-order peer data, ACKs ending inside segments or covering several, SACK, duplicate ACKs, waits for retransmissions) against one stack with wrap-adjacent sequence spaces and compares every byte read and every byte of every emitted data segment with the position-coded stream. Exploration: the schedule of goroutines is not pinned; hundreds (quick) to tens of thousands (thorough) of scenarios.",
   note="Trusted: the payload function and harness wire (h/tcpx, h/wire); Go's synctest for virtual time (go1.26.8); ISS steering through crypto/rand.Reader. Packets are never altered."),
 "C02": dict(level="fault_enumeration", ref="DESIGN.md §3 C02",
   technique="fault enumeration in virtual time: packet identities of each base exchange are enumerated from a fault-free run, then every class is dropped once/twice, pairs are dropped, ACKs/data are held back (reordering), plus random-fault scenarios; completion-or-explicit-error by a virtual deadline is the oracle",
   text="For ~34 base exchanges (sizes, close orders, half-close, closed receive window in several timings) every packet class is dropped (first/middle/last/PRNG identities; all in thorough), pairs are dropped, and packets are delayed; each run must complete with end-of-stream after exactly the written bytes and correct closed-state observables, or fail with an explicit error, within 30 virtual minutes; a quiet connection is a stall. Closed-window exchanges are also run with receive buffers large enough for window scaling.",
   note="Trusted: virtual time (synctest), identity keys (direction, flags, relative seq, length / ack, window). 'Eventually' restated as 'by virtual T'. A half-open outcome (active side connected, passive side never accepted) is judged from handshake bookkeeping on the wire; more than two lost handshake packets is outside the fault bound and only counted. Known findings: no persist timer (window update lost, or overtaken by an older zero-window ACK)."),
 "C03": dict(level="exploration", ref="DESIGN.md §3 C03",
   technique="scripted raw peer (independent RFC codec) against one real stack in virtual time with quiescence after every injected segment; Accept/Connect results and emitted resets judged against the RFC 793 reset rule",
   text="Thousands of handshake scripts (passive and active, normal / cookie / genuine-pressure mode, PRNG option sets, wrap-adjacent ISS, wrong acknowledgements at +-1, +-2, +-2^16, 2^31, 0, 2^32-1 and random, duplicate/other SYN, SYN bursts of 2-3 copies back to back, RST in and out of window, RST|ACK acknowledging the SYN-ACK, SYN combined with RST sent to the listening port, early data, cross-tuple ACKs) and strays with every flag combination; a connection may appear only after the exact acknowledgement, bad acknowledgements draw exactly one reset with that sequence number, strays draw exactly one RFC-shaped reset, resets are never answered.",
   note="Trusted: h/rfc for building/decoding segments, quiescence (synctest.Wait) for attributing replies. Known finding: cookie validation accepts near-miss ACKs."),
 "C04": dict(level="exploration", ref="DESIGN.md §3 C04",
   technique="online monitor over every segment a real stack emits to a scripted raw peer in virtual time: unwrapped right-edge/MSS/MTU bounds on the send side, monotone advertised edge, acceptance and deliverability on the receive side",
   text="The peer script mixes application writes, cumulative ACKs with hostile windows (0, 1, MSS-1, scaled, shrinking), re-sent stale ACKs, pauses, in-window / out-of-order / beyond-window data, reader stop/resume and receive-buffer changes; one passive scenario in five is accepted through a SYN cookie with peer MSS values on, between and below the cookie table entries; every emitted data segment must end at or before the largest right edge the peer has sent so far, fit the peer MSS and the MTU and carry the written bytes; the advertised edge must not retreat; in-window data must be acknowledged and readable; beyond-window bytes must never be readable; a closed window must reopen.",
   note="Trusted: quiescence after every step makes 'sent so far' = 'processed so far'. Known findings: advertised edge retreats by < one scale unit (window field truncation); in cookie mode a peer MSS below 536 is rounded up to 536."),
 "C05": dict(level="exploration", ref="DESIGN.md §3 C05",
   technique="totally ordered virtual-time log of a real stack's emissions against a scripted raw peer; timing clauses decided on logical instants (no wall clock), window clauses by counting at every emission",
   text="'silent' scripts check every timeout retransmission (right segment, >= 200 ms after its previous transmission, intervals at least doubling, one segment per expiry); 'fastrexmit' scripts lose each position of a flight and require the retransmission at the instant the third duplicate ACK is delivered, and half of them go on with 130 s of silence in which every timeout must send exactly one segment, the earliest unacknowledged one; 'cwnd' scripts count distinct segments in flight against 10 + acknowledged + duplicate ACKs (Reno) and 10 before the first ACK. A bare FIN counts as a segment (initial window, one segment per timeout); 'latewrite' scripts acknowledge everything, pause, write again and go silent: no segment may be retransmitted sooner than 200 ms after its previous transmission.",
   note="Trusted: virtual time makes 'same instant' exact; CUBIC is held only to the clauses not qualified 'default controller'."),

 "C08": dict(level="exploration", ref="DESIGN.md §3 C08",
   technique="runtime reference-model monitor: real fragmentation.Process vs per-key byte-map reference in lock-step (exhaustive small scope + PRNG), -race concurrent delivery, virtual-time (synctest) timeout scenarios",
   text="Every fragment fed to the real reassembler is also fed to a reference byte map; delivery is demanded exactly when the reference is complete (incl. last fragment) and the delivered bytes are compared with the key/offset-coded original. Small scopes are enumerated completely (all compositions x orders x one extra duplicate/overlap), larger ones sampled; concurrent delivery runs under the race detector; the timeout clause runs in virtual time. A concurrent stream of 8-31 datagrams with duplicated fragments: whatever is handed up must be exactly one original datagram, and every datagram at least once.",
   note="Trusted: the reference in h/c08; Go's testing/synctest for virtual time (go1.26.8). Contradictory overlaps and fragments beyond the datagram are out of the judged domain."),
 "C10": dict(level="exploration", ref="DESIGN.md §3 C10",
   technique="runtime reference-model monitor in lock-step; porcupine linearizability check of recorded concurrent histories under the race detector; adaptive probe-sequence oracle for the ephemeral search; socket life cycles (bind/connect/listen/close over all families) in virtual time with a conflict rule and a everything-released-at-the-end rule",
   text="Sequential op sequences are replayed against a reference reservation table after every step; concurrent reserve/release/availability histories from 2-8 goroutines are recorded at the call boundary and checked by porcupine (partitioned per transport/port) in a -race build; the ephemeral search is driven by a callback that picks the only acceptable port after seeing where the search started, so every call forces a chosen fraction of a full cycle. Endpoint phase: TCP/UDP sockets (IPv4, IPv6-only, dual-stack) are bound, connected, re-connected, listened on and closed in PRNG order; two live sockets with conflicting bind-time reservations cannot both have been bound, and after every socket is closed each port ever used can be bound again on every transport and family.",
   note="Trusted: reference table (6-bit set per transport/port), porcupine v1.3.0, logical clock (atomic counter)."),
 "C15": dict(level="exploration", ref="DESIGN.md §3 C15",
   technique="runtime differential monitor against an independent RFC codec (h/rfc): exhaustive per-field sweeps, exhaustive ChecksumCombine, every buffer length, option-sequence enumeration, hostile parser inputs with panic capture",
   text="Each header encoder/getter is executed for every value of every field up to 16 bits (others PRNG) and compared in both directions with an independent codec, also when encoding into a buffer that held another header; Checksum is compared with a reference RFC 1071 sum for every length and all 2^16 initial values on short buffers; ChecksumCombine is checked on all 2^32 pairs; TCP option parsers are run on every option sequence up to a bound and on hostile bytes, a panic being the observable for an out-of-input read. Headers built by the independent encoder with the reserved bits next to the TCP data offset set; address getters must return values that do not change when the header is rewritten; guarded calls are on record and one that does not return within a minute is reported with its input.",
   note="Trusted: h/rfc (imports nothing from /repo); Go bounds checking turns out-of-input reads into panics."),
 "C16": dict(level="exploration", ref="DESIGN.md §3 C16",
   technique="runtime reference-model monitor: every operation on View/VectorisedView/Prependable mirrored on a plain []byte, compared after every step; exhaustive small scope + PRNG sequences",
   text="All chunkings (incl. empty chunks, nil and non-nil) of short contents and all operation sequences up to a bound over trim/cap/remove-first/clone are enumerated, every live object (original and clones) compared with its reference byte string after every step; long random sequences on large contents; re-extension beyond a cap and Prependable regions checked through cap()/panic. Clone is given scratch slices of every shape (full, empty with room, partly filled); NewPrependableFromView over views with spare capacity.",
   note="Trusted: the []byte reference in h/c16. View.CapLength beyond the current length is counted, not judged."),
 "C17": dict(level="exploration", ref="DESIGN.md §3 C17",
   technique="runtime monitor: callbacks attributed to the Notify call that ran them; exhaustive sequential enumeration against a reference set; porcupine linearizability check of concurrent histories under the race detector; token-presence invariant for channel entries",
   text="Every legal register/unregister/notify sequence up to a bound is executed and the callbacks of each Notify compared with the reference set; concurrent histories (2-6 goroutines) are checked by porcupine against the set specification in a -race build; for channel entries a harness lock makes (take token, count) atomic so 'token present or taken since the call' is judged without a clock; a token delivered before EventUnregister must survive it (also with one channel shared by entries on two queues). Registration masks include the empty mask (registered, interested in nothing).",
   note="Trusted: reference set model, porcupine, goroutine-id attribution (callbacks run synchronously on the notifier)."),
 "C18": dict(level="exploration", ref="DESIGN.md §3 C18",
   technique="systematic schedule exploration of the real mutex at verif schedule points (controller runs one goroutine at a time; DFS over decision sequences with replay) + stress under the race detector with injected pre-emption, occupancy monitor, porcupine, state-based lost-wake-up verdict",
   text="For small programs of Lock/TryLock/Unlock every interleaving at the granularity of the mutex's atomic operations is enumerated on the real code; a deadlock is 'no enabled goroutine' (logical), mutual exclusion is an occupancy counter, TryLock's clause is judged when no other step overlapped, and a TryLock call that passes more than 8 schedule points (it has two) is judged to block. Larger programs are sampled (capped DFS, random priorities) and stress-run under -race with seeded delays at the same points. Independence of mutexes: 16-128 adjacent mutexes are held with one sleeper each, a PRNG subset is unlocked; a free mutex with no token queued whose waiter still sleeps in Lock (goroutine dump) is a lost wake-up.",
   note="Trusted: the controller's enabledness rule (receive enabled iff a token is queued), add-only hooks in pkg/tmutex. Load+Swap of Lock's re-check are one controlled step."),
 "C19": dict(level="exploration", ref="DESIGN.md §3 C19",
   technique="stress under the race detector with seeded delays at the algorithm's atomic operations; porcupine on recorded Assert/Clear/Fetch histories; state-based lost-wake-up verdict; hook monitor + plain-store canary for touches after Done; controlled mode: DFS over decision sequences at the 19 schedule points with simulated park/ready",
   text="The real Sleeper/Waker (real gopark/commitSleep/goready) is driven by 1 fetcher and 1-8 asserters with delays injected at the verif points; each history is checked by porcupine against the asserted-flag specification; a lost wake-up is concluded from state once every Assert has returned; after Done the sleeper is overwritten with plain stores so any later touch is a race report, and a hook monitor flags a waker that reaches an enqueue step on a sleeper whose Done has returned. Controlled mode: nine small programs are enumerated (exhaustively or up to a cap) with one goroutine running at a time; double or stray goready, lost wake-up (deadlock with a waker still asserted) and non-linearizable histories are violations.",
   note="Trusted: the specification in h/c19 (strict for single-asserter wakers), race detector semantics for sync/atomic. Known finding: enqueueAssertedWaker reads waitingG after Done returned."),

 "C14": dict(level="exploration", ref="DESIGN.md §3 C14",
   technique="runtime differential monitor: real seqnum functions vs 64-bit reference definitions over boundary lattices, strided/exhaustive distance sweeps and PRNG tuples",
   text="Every exported seqnum function is executed on boundary lattices around every power of two from wrap-adjacent base points, a strided sweep (thorough: all 2^32 distances per base) and PRNG tuples, and each result is compared with the serial-number definition evaluated in 64-bit integers. Exploration, not proof: the operand space of the 3- and 4-argument functions is sampled.",
   note="Trusted: the 64-bit reference definitions in h/c14 (written from the statement). Antipodal distance, empty windows and spans >= 2^31 are recorded, not judged."),
}
# coverage added for the fifth round of seeded changes (DESIGN §6)
EXTRA = {
 "C01": "The wire can also make the sending link refuse a packet (WritePacket error); scripts contain a path-MTU decrease with data outstanding and a segment spanning the whole receive window.",
 "C02": "Further base exchanges: receive buffer enlarged at a closed window; the window's right edge crossing 2^32 / 2^31 with its left edge below (steered ISS); link refusal of packets in the random scenarios.",
 "C03": "One wrong ACK in three arrives without the negotiated timestamp option.",
 "C04": "Bytes transmitted for the first time must stay inside the edge of the peer's latest segment (a peer may take window back); a window that stays closed although everything was read is a violation; bursts of in-order segments; ISS up to 700 000 below the wraps.",
 "C05": "ICMP fragmentation-needed reports that name the MTU already in use arrive after the first flight: nothing may be sent because of them.",
 "C06": "On MTU 65535 links: MSS 65535 and writes larger than one segment while SACK blocks are attached (packets at the 16-bit total-length limit).",
 "C07": "Bare ACKs to the listener with arbitrary acknowledgement numbers (forged SYN cookies); half of each batch arrives 31 virtual seconds after the other half.",
 "C08": "End-to-end rounds with 1-60 bytes of link padding behind every fragment.",
 "C09": "Multicast memberships (joined before/after bind, left, socket closed unbound) with group addresses among the probed destinations; the registration table raced directly (at most one holder of an endpoint id).",
 "C10": "Binds that fail after the port was reserved (address not local, plain or v4-mapped; refusing commit callback) join the everything-released sweep.",
 "C12": "Waits on neighbours whose host part looks special (x.y.z.255, .0) and with the first resolution request refused by the link.",
 "C13": "Requests with 1-200 bytes of link padding; every third child on a checksum-offload link.",
 "C14": "TCP half (h/script): a segment that starts behind the receive window's left edge and ends beyond its right edge must be accepted.",
 "C15": "Pseudo-header sums for one address pair under several protocols in a row; TCP checksum helpers and pseudo-header sum called from eight goroutines at once, each result compared with the independent computation.",
 "C16": "The reference keeps the chunk list: RemoveFirst removes exactly one chunk, also an empty one.",
 "C18": "The wait for the last waiters among many mutexes is bounded and decides a lost wake-up from state.",
 "C20": "A route is registered while a WebSocket session is open; request bodies begin with / contain CR and LF.",
}
for _k, _v in EXTRA.items():
    CHECKS[_k]["text"] += " " + _v
NOT_BUILT = "not claimed"
def hooks_commits():
    out = subprocess.run(["git","-C","/repo","log","--format=%H %s"],capture_output=True,text=True).stdout
    return [l.split()[0] for l in out.splitlines() if "verif hook:" in l]
m = {
 "version": 1,
 "setup_cmd": "./setup.sh",
 "hooks": {
   "guard": "verif",
   "enable": "go build tag: go test -c -tags verif (checks build /repo's working tree through the harness module /verif/h, replace => /repo)",
   "baseline_off_cmd": "cd /repo && GOFLAGS=-mod=mod go test -json -vet=off -count=1 -timeout 25m ./...",
   "source_commits": hooks_commits(),
   "add_only": True,
 },
 "engines": [
   {"name":"fw","path":"h/fw","serves_properties":sorted(CHECKS),"kind_free_text":"verdict/evidence/known-findings/PRNG/child-process/race-report machinery shared by all monitors"},
   {"name":"rfc","path":"h/rfc","serves_properties":["C03","C04","C05","C06","C07","C11","C12","C13","C15"],"kind_free_text":"independent RFC codec (imports nothing from /repo)"},
   {"name":"wire+tcpx","path":"h/wire, h/tcpx","serves_properties":["C01","C02","C14"],"kind_free_text":"harness link endpoint, adversarial two-stack wire, TCP scenario runner with position-coded payloads"},
   {"name":"rawpeer","path":"h/rawpeer","serves_properties":["C03","C04","C05"],"kind_free_text":"scripted raw TCP peer over the harness link"},
   {"name":"vt","path":"h/vt","serves_properties":["C01","C02","C03","C04","C05","C08"],"kind_free_text":"virtual-time substrate: testing/synctest bubble under go1.26.8"},
   {"name":"sched","path":"h/sched","serves_properties":["C18","C19"],"kind_free_text":"schedule controller: DFS over decision sequences at verif schedule points"},
   {"name":"hist","path":"h/hist","serves_properties":["C10","C17","C18","C19"],"kind_free_text":"history recorder + porcupine v1.3.0"},
 ],
 "checks": [],
 "not_applicable": [],
 "notes": "Technique family: runtime monitoring and sanitizers. Every check builds the real code from /repo's working tree with -tags verif and judges observed executions; see DESIGN.md.",
}
for pid in ALL:
    c = CHECKS.get(pid)
    if not c:
        m["not_applicable"].append({"property_id": pid, "reason": NOT_BUILT}); continue
    m["checks"].append({
      "property_id": pid,
      "quick_cmd": "VERIF_TIER=quick ./check %s" % pid,
      "thorough_cmd": "VERIF_TIER=thorough ./check %s" % pid,
      "evidence_file": "/verif/evidence/%s.json" % pid,
      "replay_cmd_template": "./check %s --replay {path}" % pid,
      "engine": "fw",
      "level_claimed": {"category": c["level"], "text": c["text"], "design_ref": c["ref"]},
      "level_note": c["note"],
      "technique": c["technique"],
    })
json.dump(m, open("/verif/MANIFEST.json","w"), indent=1)
import jsonschema
jsonschema.validate(m, json.load(open("/root/.vp/MANIFEST.schema.json")))
print("MANIFEST ok:", len(m["checks"]), "checks,", len(m["not_applicable"]), "not_applicable")
