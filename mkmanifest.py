#!/usr/bin/env python3
"""Regenerates MANIFEST.json from the table below (keeps it schema-valid)."""
import json, subprocess, sys
ALL = ["C%02d" % i for i in range(1, 21)]
CHECKS = {
 "C14": dict(level="exploration", ref="DESIGN.md §3 C14",
   technique="runtime differential monitor: real seqnum functions vs 64-bit reference definitions over boundary lattices, strided/exhaustive distance sweeps and PRNG tuples",
   text="Every exported seqnum function is executed on boundary lattices around every power of two from wrap-adjacent base points, a strided sweep (thorough: all 2^32 distances per base) and PRNG tuples, and each result is compared with the serial-number definition evaluated in 64-bit integers. Exploration, not proof: the operand space of the 3- and 4-argument functions is sampled.",
   note="Trusted: the 64-bit reference definitions in h/c14 (written from the statement). Antipodal distance, empty windows and spans >= 2^31 are recorded, not judged."),
}
NOT_BUILT = "check not built yet in this round (planned in DESIGN.md §3)"
def hooks_commits():
    out = subprocess.run(["git","-C","/repo","log","--format=%H %s"],capture_output=True,text=True).stdout
    return [l.split()[0] for l in out.splitlines() if "verif hook:" in l]
m = {
 "version": 1,
 "setup_cmd": "./setup.sh",
 "hooks": {
   "guard": "verif",
   "enable": "go build tag: go test -c -tags verif (checks build /repo's working tree through the harness module /verif/h, replace => /repo)",
   "baseline_off_cmd": "cd /repo && GOFLAGS=-mod=mod go test -json -vet=off -count=1 -timeout 25m ./...",
   "source_commits": hooks_commits(),
   "add_only": True,
 },
 "engines": [
   {"name":"fw","path":"h/fw","serves_properties":sorted(CHECKS),"kind_free_text":"verdict/evidence/known-findings/PRNG machinery shared by all monitors"},
 ],
 "checks": [],
 "not_applicable": [],
 "notes": "Technique family: runtime monitoring and sanitizers. Every check builds the real code from /repo's working tree with -tags verif and judges observed executions; see DESIGN.md.",
}
for pid in ALL:
    c = CHECKS.get(pid)
    if not c:
        m["not_applicable"].append({"property_id": pid, "reason": NOT_BUILT}); continue
    m["checks"].append({
      "property_id": pid,
      "quick_cmd": "VERIF_TIER=quick ./check %s" % pid,
      "thorough_cmd": "VERIF_TIER=thorough ./check %s" % pid,
      "evidence_file": "/verif/evidence/%s.json" % pid,
      "replay_cmd_template": "./check %s --replay {path}" % pid,
      "engine": "fw",
      "level_claimed": {"category": c["level"], "text": c["text"], "design_ref": c["ref"]},
      "level_note": c["note"],
      "technique": c["technique"],
    })
json.dump(m, open("/verif/MANIFEST.json","w"), indent=1)
import jsonschema
jsonschema.validate(m, json.load(open("/root/.vp/MANIFEST.schema.json")))
print("MANIFEST ok:", len(m["checks"]), "checks,", len(m["not_applicable"]), "not_applicable")
