#!/usr/bin/env python3
"""seedmeta.py <seedall.log> : record the verdict lines of a tools/seedall.sh run in seeded/<id>-<k>/meta.json"""
import json, os, re, sys
for l in open(sys.argv[1]):
    m = re.match(r"(C\d\d-\d+) exit=(\d+) violations=(\d+)\s*(.*)", l.strip())
    if not m: continue
    n, rc, v, what = m.group(1), int(m.group(2)), int(m.group(3)), m.group(4)
    p = f"/verif/seeded/{n}/meta.json"
    if not os.path.exists(p): continue
    d = json.load(open(p))
    d["detected_by_quick"] = rc == 1 and v > 0
    d["last_seedall"] = {"check": n.split("-")[0], "exit": rc, "violation_lines": v, "first": what[:300]}
    json.dump(d, open(p, "w"), indent=1)
    print(n, d["detected_by_quick"])
