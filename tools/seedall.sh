#!/bin/bash
# re-run every seeded change against the current checks (applies each patch to /repo and reverts it)
cd /verif
for d in seeded/*/; do
  n=$(basename $d); p=${n%-*}
  [ -f $d/patch.diff ] || continue
  git -C /repo apply /verif/$d/patch.diff 2>/dev/null || { echo "$n APPLY-FAILED"; continue; }
  out=$(VERIF_TIER=quick timeout 1500 ./check $p 2>&1); rc=$?
  git -C /repo checkout -- . ; git -C /repo clean -fdq
  v=$(echo "$out" | grep -c '^VIOLATION')
  echo "$n exit=$rc violations=$v $(echo "$out" | grep -m1 'what:' | cut -c1-140)"
done
