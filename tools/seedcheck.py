#!/usr/bin/env python3
"""seedcheck.py <PROP> <k> [--checks C01,C06] [--src dir] [--as k2] [--place f=dir] [--nocheck] : confirm a sub-agent's seeded change and run our checks on it.
Inputs: /tmp/wt/<PROP>-out/{patch<k>.diff, demo<k>/, meta<k>.json}
1. fresh worktree of /repo HEAD: apply patch, existing suite passes, stack packages build with -tags verif
2. demo fails with the patch, passes without it
3. patch applied to /repo: ./check <PROP> (quick) must report a VIOLATION; /repo restored afterwards
On success the change is stored as /verif/seeded/<PROP>-<k>/."""
import json, os, shutil, subprocess, sys, time
prop, k = sys.argv[1], sys.argv[2]
checks = [prop]
if "--checks" in sys.argv: checks = sys.argv[sys.argv.index("--checks")+1].split(",")
src = f"/tmp/wt/{prop}-out"
if "--src" in sys.argv: src = sys.argv[sys.argv.index("--src")+1]
patch = f"{src}/patch{k}.diff"; demo = f"{src}/demo{k}"; meta = json.load(open(f"{src}/meta{k}.json"))
env = dict(os.environ, GOFLAGS="-mod=mod", GOPROXY="off", GOSUMDB="off", GOTOOLCHAIN="local")
SUITE = "go test -vet=off -count=1 ./pkg/buffer ./pkg/tmutex ./pkg/waiter ./protocol/header ./protocol/network/fragmentation ./protocol/ports ./protocol/transport/tcpconntrack"
BUILD = "go build -tags verif ./pkg/... ./protocol/... ./stack/..."
def sh(cmd, cwd, timeout=1800):
    p = subprocess.run(cmd, shell=True, cwd=cwd, env=env, capture_output=True, text=True, timeout=timeout)
    return p.returncode, (p.stdout + p.stderr)
report = {"property": prop, "k": k, "summary": meta.get("summary"), "needs_to_manifest": meta.get("needs_to_manifest")}
wt = f"/tmp/sv/{prop}-{k}"
shutil.rmtree(wt, ignore_errors=True); os.makedirs("/tmp/sv", exist_ok=True)
sh(f"git worktree prune; git worktree add --detach {wt} HEAD", "/repo")
ok = True
try:
    rc, out = sh(f"git apply {patch}", wt); report["apply"] = rc == 0
    if rc != 0: print(out); raise SystemExit("patch does not apply")
    rc, out = sh(SUITE, wt); report["suite_passes_with_patch"] = rc == 0
    if rc != 0: print(out[-2000:])
    rc, out = sh(BUILD, wt); report["builds_with_tag"] = ("main redeclared" not in out and rc == 0) or all(("warning" in l or l.startswith("#") or "note:" in l or "|" in l or "In function" in l or "In file included" in l or not l.strip() or "^" in l) for l in out.splitlines())
    if not report["builds_with_tag"]: print(out[-1500:])
    # place demo
    placement = meta.get("demo_placement", "")
    files = []
    for root, _, fs in os.walk(demo):
        for f in fs: files.append(os.path.join(root, f))
    report["demo_files"] = [os.path.relpath(f, demo) for f in files]
    import re
    cands = [t.rstrip(".,;:)") for t in re.findall(r"[\w./-]+", placement) if ("/" in t or os.path.isdir(os.path.join(wt, t))) and not t.startswith("demo") and not t.startswith("/tmp") and not t.startswith("./demo")]
    target = cands[-1].lstrip("./") if cands else ""
    manual = {}
    if "--place" in sys.argv:
        for kv in sys.argv[sys.argv.index("--place")+1].split(","):
            a, b = kv.split("="); manual[a] = b
    def place(dst_root):
        for f in files:
            rel = os.path.relpath(f, demo)
            if os.path.basename(rel) in manual:
                dst = os.path.join(dst_root, manual[os.path.basename(rel)], os.path.basename(rel)); os.makedirs(os.path.dirname(dst), exist_ok=True); shutil.copy(f, dst); continue
            if target.endswith(".go") and len(files) == 1: dst = os.path.join(dst_root, target)
            elif target.endswith(".go"): dst = os.path.join(dst_root, os.path.dirname(target), os.path.basename(rel))
            elif target: dst = os.path.join(dst_root, target, os.path.basename(rel))
            else: dst = os.path.join(dst_root, rel)
            os.makedirs(os.path.dirname(dst), exist_ok=True); shutil.copy(f, dst)
            report.setdefault("placed", []).append(os.path.relpath(dst, dst_root))
    place(wt)
    cmd = meta["demo_cmd"]
    rc1, out1 = sh(cmd, wt); report["demo_fails_with_patch"] = rc1 != 0
    if rc1 == 0: print("DEMO DID NOT FAIL WITH PATCH:\n", out1[-1500:])
    sh(f"git apply -R {patch}", wt)
    rc2, out2 = sh(cmd, wt); report["demo_passes_without_patch"] = rc2 == 0
    if rc2 != 0: print("DEMO FAILS WITHOUT PATCH:\n", out2[-1500:])
finally:
    sh(f"git worktree remove --force {wt}", "/repo")
confirmed = all(report.get(x) for x in ["apply","suite_passes_with_patch","demo_fails_with_patch","demo_passes_without_patch"])
report["confirmed"] = confirmed
# run our checks against it
report["checks"] = {}
if confirmed and "--nocheck" not in sys.argv:
    rc, out = sh(f"git apply {patch}", "/repo")
    try:
        for c in checks:
            t0 = time.time()
            rc, out = sh(f"VERIF_TIER=quick ./check {c}", "/verif", timeout=3600)
            viol = [l for l in out.splitlines() if l.startswith("VIOLATION")]
            report["checks"][c] = {"exit": rc, "violations": len(viol), "first": (viol[0] if viol else ""), "what": next((l.strip() for l in out.splitlines() if l.strip().startswith("what:")), ""), "wall_s": round(time.time()-t0,1)}
    finally:
        sh("git checkout -- . && git clean -fdq", "/repo")
        # restore evidence written while the tree was mutated
    report["detected"] = any(v["exit"] == 1 and v["violations"] > 0 for v in report["checks"].values())
print(json.dumps(report, indent=1))
if confirmed:
    outk = sys.argv[sys.argv.index("--as")+1] if "--as" in sys.argv else k
    d = f"/verif/seeded/{prop}-{outk}"; shutil.rmtree(d, ignore_errors=True); os.makedirs(d)
    shutil.copy(patch, d + "/patch.diff"); shutil.copytree(demo, d + "/demo")
    m = dict(meta); m.update({"breaks_property": prop, "confirmed": {x: report.get(x) for x in ["suite_passes_with_patch","builds_with_tag","demo_fails_with_patch","demo_passes_without_patch"]}, "what_i_ran": [SUITE, BUILD, meta["demo_cmd"] + " (with and without the patch, in a scratch worktree)"] + [f"./check {c} (patch applied to /repo, reverted afterwards)" for c in checks], "our_checks": report["checks"], "detected_by_quick": report.get("detected")})
    json.dump(m, open(d + "/meta.json", "w"), indent=1)
