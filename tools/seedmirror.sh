#!/bin/bash
# usage: tools/seedmirror.sh <slot> <seeded-name>...     e.g. tools/seedmirror.sh a C01-1 C01-2
# Like tools/seedall.sh, but never touches /repo: the checks are copied to /tmp/vmirror-<slot>,
# built against a scratch worktree of /repo's HEAD (/tmp/rmirror-<slot>, VERIF_REPO points the
# crash-site / lock-wait triage there), the seeded patch is applied to that worktree, the
# owning quick check runs, the worktree is restored. One line per change in seedall's
# format (tools/seedmeta.py reads it). Remove both directories when done:
#   git -C /repo worktree remove --force /tmp/rmirror-<slot>; rm -rf /tmp/vmirror-<slot>
slot=$1; shift
V=/tmp/vmirror-$slot; R=/tmp/rmirror-$slot
[ -d $R ] || git -C /repo worktree add --detach $R HEAD >/dev/null 2>&1
for n in "$@"; do
  p=${n%-*}
  [ -f /verif/seeded/$n/patch.diff ] || { echo "$n NOT-STORED"; continue; }
  rsync -a --delete --exclude .git --exclude .build --exclude .run --exclude replays --exclude evidence /verif/ $V/
  sed -i "s#=> /repo#=> $R#" $V/h/go.mod
  git -C $R checkout -q --detach $(git -C /repo rev-parse HEAD); git -C $R checkout -- . ; git -C $R clean -fdq
  git -C $R apply /verif/seeded/$n/patch.diff 2>/dev/null || { echo "$n APPLY-FAILED"; continue; }
  out=$(cd $V && VERIF_REPO=$R VERIF_TIER=${TIER:-quick} timeout 2400 ./check $p 2>&1); rc=$?
  git -C $R checkout -- . ; git -C $R clean -fdq
  v=$(echo "$out" | grep -c '^VIOLATION')
  echo "$n exit=$rc violations=$v $(echo "$out" | grep -m1 'what:' | cut -c1-200)"
done
