#!/bin/bash
# usage: tools/sweep.sh <tier> <seed> [ids...]   runs the checks one after another, one line per check
cd "$(dirname "$0")/.." || exit 1
tier=$1; seed=$2; shift 2
ids=${@:-$(cut -f1 checks.tsv | sort)}
for id in $ids; do
  s=$(date +%s)
  out=$(VERIF_TIER=$tier VERIF_SEED=$seed ./check $id 2>&1); rc=$?
  e=$(( $(date +%s) - s ))
  echo "$id tier=$tier seed=$seed exit=$rc wall=${e}s $(echo "$out" | grep -c '^VIOLATION') violations; $(echo "$out" | grep '^check=' | sed 's/.*evaluations=/evaluations=/')"
  echo "$out" | grep -A1 '^VIOLATION\|^BROKEN' | cut -c1-400
done
